// C03 - exception injection: element constructors/assignments that throw in the middle of an owner operation (DESIGN 12.6)
// tetl propagates element exceptions wherever its noexcept specifications are conditional (static_vector, inplace_vector, sets built on
// them, optional/variant/expected, inplace_function copies).  For every (owner, state, operation) scenario the operation is repeated with the
// k-th potentially-throwing element operation failing, k = 0, 1, 2, ... until the operation completes; after each attempt the monitor
// demands what C03 states: no constructor on live storage, no destructor/assignment/read on dead storage (registry records), every element
// the owner exposes is live, and nothing is alive once the owner is destroyed.  Which value the owner holds after a failed operation is
// NOT judged (no strong guarantee is promised).  Operations whose noexcept-expression is true are not injected (a throw would be
// std::terminate by design); a scenario that ends in std::terminate is reported as a sample, not as a violation.
#include "vf.hpp"
#include "vf_contract.hpp"
#include "vf_tracked.hpp"

#include <etl/expected.hpp>
#include <etl/flat_set.hpp>
#include <etl/functional.hpp>
#include <etl/inplace_vector.hpp>
#include <etl/optional.hpp>
#include <etl/set.hpp>
#include <etl/stack.hpp>
#include <etl/variant.hpp>
#include <etl/vector.hpp>

#include <exception>
#include <utility>

// operands for noexcept(...) expressions only (never evaluated)
#define vv (std::declval<V&>())
#define ss (std::declval<SetT&>())
#define oo (std::declval<O&>())
#define xx (std::declval<X&>())
#define ff (std::declval<F&>())

namespace {
struct Boom { };
enum : unsigned { kCtorInt = 1, kCopyCtor = 2, kMoveCtor = 4, kCopyAsg = 8, kMoveAsg = 16 };
int g_countdown = -1; // -1: never throw; 0: the next eligible element operation throws
unsigned g_mask = ~0u;
unsigned g_throws = 0;
long long g_keep_size = -1; // set by an append-at-the-end scenario: std::vector gives the strong guarantee there, the size must not change when it throws
inline void maybe_throw(unsigned kind)
{
    if (!(g_mask & kind)) { return; }
    if (g_countdown == 0) {
        g_countdown = -1;
        ++g_throws;
        throw Boom{};
    }
    if (g_countdown > 0) { --g_countdown; }
}
// element whose special members may throw BEFORE they take effect (a throwing constructor leaves no object behind)
template <bool NM>
struct ThT {
    int v;
    ThT() : v(0) { vf::registry().on_ctor(this, v); }
    ThT(int x) : v(x) // NOLINT
    {
        maybe_throw(kCtorInt);
        vf::registry().on_ctor(this, v);
    }
    ThT(ThT const& o) : v(0)
    {
        maybe_throw(kCopyCtor);
        vf::registry().check_live(&o, "copy-from-not-live", "copy constructor read a source that is not live");
        v = o.v;
        vf::registry().on_ctor(this, v);
    }
    ThT(ThT&& o) noexcept(NM) : v(0)
    {
        if constexpr (!NM) { maybe_throw(kMoveCtor); }
        vf::registry().check_live(&o, "move-from-not-live", "move constructor read a source that is not live");
        v   = o.v;
        o.v = vf::kMovedFrom;
        vf::registry().on_ctor(this, v);
    }
    auto operator=(ThT const& o) -> ThT&
    {
        maybe_throw(kCopyAsg);
        vf::registry().check_live(this, "assign-to-not-live", "copy assignment ran on a target that is not live");
        vf::registry().check_live(&o, "assign-from-not-live", "copy assignment read a source that is not live");
        v = o.v;
        return *this;
    }
    auto operator=(ThT&& o) noexcept(NM) -> ThT&
    {
        if constexpr (!NM) { maybe_throw(kMoveAsg); }
        vf::registry().check_live(this, "assign-to-not-live", "move assignment ran on a target that is not live");
        vf::registry().check_live(&o, "assign-from-not-live", "move assignment read a source that is not live");
        if (this != &o) {
            v   = o.v;
            o.v = vf::kMovedFrom;
        }
        return *this;
    }
    ~ThT() { vf::registry().on_dtor(this); }
    int get() const
    {
        vf::registry().check_live(this, "read-not-live", "an element the owner exposes is not a live object");
        return v;
    }
    friend bool operator==(ThT const& a, ThT const& b) { return a.get() == b.get(); }
    friend bool operator!=(ThT const& a, ThT const& b) { return a.get() != b.get(); }
    friend bool operator<(ThT const& a, ThT const& b) { return a.get() < b.get(); }
};
using Th  = ThT<false>; // every special member may throw
using ThC = ThT<true>;  // moves are noexcept (variant, optional and expected require that); copies and the converting constructor may throw

struct NoThrowScope { // everything the harness itself does (building states, sources) never throws
    int saved;
    NoThrowScope() : saved(g_countdown) { g_countdown = -1; }
    ~NoThrowScope() { g_countdown = saved; }
};

// ------------------------------------------------------------------ the injection loop
// Build: () -> Owner*   (placement-new into the given storage, returns the object)    Op: (Owner&) -> void     Post: (Owner&) -> void
template <typename Owner, typename Build, typename Op, typename Post>
void inject(char const* subj, char const* op, char const* sit, unsigned mask, Build build, Op opf, Post post)
{
    for (int j = 0; j < 64; ++j) {
        std::size_t const base = vf::registry().live_count(); // the scenario's own source objects stay alive across the attempts
        g_mask      = mask;
        g_countdown = -1;
        g_throws    = 0;
        bool threw  = false;
        {
            alignas(Owner) unsigned char raw[sizeof(Owner)];
            Owner* o = build(static_cast<void*>(raw));
            char s2[96];
            std::snprintf(s2, sizeof s2, "%s,%s", sit, j == 0 ? "first-element-operation-throws" : "later-element-operation-throws");
            vf::crumb(subj, op, s2, "the %d-th potentially-throwing element operation inside the call throws (mask=%u)", j, mask);
            g_countdown = j;
            try {
                opf(*o);
            } catch (Boom const&) {
                threw = true;
            }
            g_countdown = -1;
            if constexpr (requires { o->size(); }) {
                if (threw && g_keep_size >= 0) { vf::eq_int("size-after-failed-append", (long long)o->size(), g_keep_size); }
            }
            g_keep_size = -1;
            vf::cover(op, vf::mix(vf::mix(vf::fnv(subj), vf::fnv(sit)), vf::mix((std::uint64_t)j, mask)), true);
            vf::crumb(subj, op, s2, "after the %s call (inject-at=%d): reading every exposed element", threw ? "failed" : "completed", j);
            post(*o);
            vf::crumb(subj, op, s2, "after the %s call (inject-at=%d): destroying the owner", threw ? "failed" : "completed", j);
            o->~Owner();
        }
        if (std::size_t now = vf::registry().live_count(); now != base) {
            char obs[96];
            std::snprintf(obs, sizeof obs, "%zu object(s) alive after the owner was destroyed (before the call: %zu)", now, base);
            vf::record("lifetime", now > base ? "leak" : "destroyed-too-many", obs, "nothing the owner constructed is alive once it is destroyed");
        }
        if (!threw) { break; } // the operation has fewer than j+1 throw points
    }
    g_mask = ~0u;
}

constexpr unsigned kMasks[] = {kCtorInt | kCopyCtor | kMoveCtor | kCopyAsg | kMoveAsg, kCopyCtor | kCopyAsg | kCtorInt, kMoveCtor | kMoveAsg};
char const* mask_name(unsigned m) { return m == kMasks[0] ? "any-may-throw" : (m == kMasks[1] ? "copies-throw" : "moves-throw"); }

template <typename V>
void read_all(V& v)
{
    for (auto it = v.begin(); it != v.end(); ++it) { (void)it->get(); }
}
#define NOT_INJECTABLE(SUBJ, OP)                                                                                                                            \
    do {                                                                                                                                                    \
        if (vf::want_sample("not-injected")) { vf::sample("not-injected", "%s %s is noexcept for a throwing element type: a throw would be std::terminate by design", SUBJ, OP); } \
    } while (0)

// ------------------------------------------------------------------ vectors
template <typename V>
V* build_vec(void* raw, int n)
{
    NoThrowScope g;
    V* v = ::new (raw) V();
    for (int i = 0; i < n; ++i) { v->emplace_back(i + 1); }
    return v;
}
template <std::size_t N>
void static_vector_scenarios(unsigned which)
{
    using V = etl::static_vector<Th, N>;
    char subj[64];
    std::snprintf(subj, sizeof subj, "static_vector<throwing,%zu>", N);
    unsigned k = 0;
    for (int n : {0, 1, (int)N - 1, (int)N}) {
        if (n < 0 || n > (int)N) { continue; }
        for (unsigned mask : kMasks) {
            char sit[64];
            std::snprintf(sit, sizeof sit, "%s,%s", n == 0 ? "empty" : (n == (int)N ? "full" : "partial"), mask_name(mask));
            auto B    = [n](void* raw) { return build_vec<V>(raw, n); };
            auto post = [](V& v) { read_all(v); };
            int room  = (int)N - n;
#define SCN(OPNAME, COND, EXPR_NOEXCEPT, BODY)                                                                                                              \
    if (k++ == which) {                                                                                                                                    \
        if (COND) {                                                                                                                                         \
            if constexpr (!(EXPR_NOEXCEPT)) {                                                                                                               \
                inject<V>(subj, OPNAME, sit, mask, B, [&](V& v) { BODY; }, post);                                                                           \
            } else {                                                                                                                                        \
                NOT_INJECTABLE(subj, OPNAME);                                                                                                               \
            }                                                                                                                                               \
        }                                                                                                                                                   \
        return;                                                                                                                                             \
    }
            Th ext[3] = {Th(7), Th(8), Th(9)};
            V other;
            {
                NoThrowScope g;
                for (int i = 0; i < (int)N && i < 2; ++i) { other.emplace_back(20 + i); }
            }
            SCN("emplace_back(args)", room >= 1, noexcept(vv.emplace_back(1)), g_keep_size = n; v.emplace_back(5))
            SCN("push_back(T const&)", room >= 1, noexcept(vv.push_back(ext[0])), g_keep_size = n; v.push_back(ext[0]))
            SCN("push_back(T&&)", room >= 1, noexcept(vv.push_back(static_cast<Th&&>(ext[0]))), Th t(5); g_keep_size = n; v.push_back(static_cast<Th&&>(t)))
            SCN("emplace(pos,args)", room >= 1, noexcept(vv.emplace(vv.cbegin(), 1)), v.emplace(v.cbegin() + n / 2, 5))
            SCN("insert(pos,T const&)", room >= 1, noexcept(vv.insert(vv.cbegin(), ext[0])), v.insert(v.cbegin() + n / 2, ext[0]))
            SCN("insert(pos,T&&)", room >= 1, noexcept(vv.insert(vv.cbegin(), static_cast<Th&&>(ext[0]))), Th t(5); v.insert(v.cbegin(), static_cast<Th&&>(t)))
            SCN("insert(pos,n,x)", room >= 2, noexcept(vv.insert(vv.cbegin(), std::size_t(2), ext[0])), v.insert(v.cbegin() + n / 2, std::size_t(2), ext[1]))
            SCN("insert(pos,first,last)", room >= 2, noexcept(vv.insert(vv.cbegin(), &ext[0], &ext[0])), v.insert(v.cbegin() + n / 2, &ext[0], &ext[2]))
            SCN("erase(pos)", n >= 2, noexcept(vv.erase(vv.cbegin())), v.erase(v.cbegin()))
            SCN("erase(first,last)", n >= 2, noexcept(vv.erase(vv.cbegin(), vv.cbegin())), v.erase(v.cbegin(), v.cbegin() + 1))
            SCN("resize(n)", room >= 1, noexcept(vv.resize(1)), v.resize(N))
            SCN("resize(n,value)", room >= 1, noexcept(vv.resize(1, ext[0])), v.resize(N, ext[0]))
            SCN("assign(n,value)", N >= 2, noexcept(vv.assign(std::size_t(1), ext[0])), v.assign(std::size_t(2), ext[0]))
            SCN("assign(first,last)", N >= 3, noexcept(vv.assign(&ext[0], &ext[0])), v.assign(&ext[0], &ext[3]))
            SCN("ctor(static_vector const&)", n >= 1, noexcept(V(vv)), V c(v); read_all(c))
            SCN("ctor(static_vector&&)", n >= 1, noexcept(V(static_cast<V&&>(vv))), V c(static_cast<V&&>(v)); read_all(c))
            SCN("operator=(static_vector const&)", true, noexcept(vv = vv), v = other)
            SCN("operator=(static_vector&&)", true, noexcept(vv = static_cast<V&&>(vv)), V tmp(other); v = static_cast<V&&>(tmp))
            SCN("swap(other)", true, noexcept(vv.swap(vv)), V tmp(other); v.swap(tmp); read_all(tmp))
            SCN("ctor(n)", true, noexcept(V(std::size_t(1))), V c(N); read_all(c); (void)v)
            SCN("ctor(n,value)", true, noexcept(V(std::size_t(1), ext[0])), V c(N, ext[0]); read_all(c); (void)v)
            SCN("ctor(first,last)", N >= 3, noexcept(V(&ext[0], &ext[0])), V c(&ext[0], &ext[3]); read_all(c); (void)v)
            SCN("erase(c,value)", n >= 1, noexcept(etl::erase(vv, ext[0])), etl::erase(v, Th(1)))
            SCN("erase_if(c,pred)", n >= 2, false, etl::erase_if(v, [](Th const& t) { return t.get() == 1; }))
#undef SCN
        }
    }
}
constexpr unsigned kVecScn = 4 * 3 * 24;

template <std::size_t N>
void inplace_vector_scenarios(unsigned which)
{
    using V = etl::inplace_vector<Th, N>;
    char subj[64];
    std::snprintf(subj, sizeof subj, "inplace_vector<throwing,%zu>", N);
    unsigned k = 0;
    for (int n : {0, 1, (int)N - 1, (int)N}) {
        for (unsigned mask : kMasks) {
            char sit[64];
            std::snprintf(sit, sizeof sit, "%s,%s", n == 0 ? "empty" : (n == (int)N ? "full" : "partial"), mask_name(mask));
            auto B = [n](void* raw) {
                NoThrowScope g;
                V* v = ::new (raw) V();
                for (int i = 0; i < n; ++i) { v->unchecked_emplace_back(i + 1); }
                return v;
            };
            auto post = [](V& v) { read_all(v); };
            int room  = (int)N - n;
            Th ext(7);
#define SCN(OPNAME, COND, EXPR_NOEXCEPT, BODY)                                                                                                              \
    if (k++ == which) {                                                                                                                                    \
        if (COND) {                                                                                                                                         \
            if constexpr (!(EXPR_NOEXCEPT)) {                                                                                                               \
                inject<V>(subj, OPNAME, sit, mask, B, [&](V& v) { BODY; }, post);                                                                           \
            } else {                                                                                                                                        \
                NOT_INJECTABLE(subj, OPNAME);                                                                                                               \
            }                                                                                                                                               \
        }                                                                                                                                                   \
        return;                                                                                                                                             \
    }
            SCN("try_emplace_back(args)", true, noexcept(vv.try_emplace_back(1)), g_keep_size = n; v.try_emplace_back(5))
            SCN("try_push_back(T const&)", true, noexcept(vv.try_push_back(ext)), g_keep_size = n; v.try_push_back(ext))
            SCN("try_push_back(T&&)", true, noexcept(vv.try_push_back(static_cast<Th&&>(ext))), Th t(5); g_keep_size = n; v.try_push_back(static_cast<Th&&>(t)))
            SCN("unchecked_emplace_back(args)", room >= 1, noexcept(vv.unchecked_emplace_back(1)), g_keep_size = n; v.unchecked_emplace_back(5))
            SCN("unchecked_push_back(T const&)", room >= 1, noexcept(vv.unchecked_push_back(ext)), g_keep_size = n; v.unchecked_push_back(ext))
            SCN("unchecked_push_back(T&&)", room >= 1, noexcept(vv.unchecked_push_back(static_cast<Th&&>(ext))), Th t(5); g_keep_size = n; v.unchecked_push_back(static_cast<Th&&>(t)))
            SCN("ctor(inplace_vector const&)", n >= 1, noexcept(V(vv)), V c(v); read_all(c))
            SCN("ctor(inplace_vector&&)", n >= 1, noexcept(V(static_cast<V&&>(vv))), V c(static_cast<V&&>(v)); read_all(c))
#undef SCN
        }
    }
}
constexpr unsigned kIvScn = 4 * 3 * 8;

// ------------------------------------------------------------------ sets / stack
template <typename SetT>
void set_scenarios(char const* subj, unsigned which)
{
    unsigned k = 0;
    for (int n : {0, 2, 4}) {
        for (unsigned mask : kMasks) {
            char sit[64];
            std::snprintf(sit, sizeof sit, "%s,%s", n == 0 ? "empty" : (n == 4 ? "full" : "partial"), mask_name(mask));
            auto B = [n](void* raw) {
                NoThrowScope g;
                SetT* s = ::new (raw) SetT();
                for (int i = 0; i < n; ++i) { s->emplace(10 * (i + 1)); }
                return s;
            };
            auto post = [](SetT& s) { read_all(s); };
            Th lo(5), mid(15), hi(99), dup(10);
#define SCN(OPNAME, COND, EXPR_NOEXCEPT, BODY)                                                                                                              \
    if (k++ == which) {                                                                                                                                    \
        if (COND) {                                                                                                                                         \
            if constexpr (!(EXPR_NOEXCEPT)) {                                                                                                               \
                inject<SetT>(subj, OPNAME, sit, mask, B, [&](SetT& s) { BODY; }, post);                                                                     \
            } else {                                                                                                                                        \
                NOT_INJECTABLE(subj, OPNAME);                                                                                                               \
            }                                                                                                                                               \
        }                                                                                                                                                   \
        return;                                                                                                                                             \
    }
            SCN("insert(value const&):front", n < 4, noexcept(ss.insert(lo)), s.insert(lo))
            SCN("insert(value const&):middle", n == 2, noexcept(ss.insert(lo)), s.insert(mid))
            SCN("insert(value const&):back", n < 4, noexcept(ss.insert(lo)), s.insert(hi))
            SCN("insert(value const&):duplicate", n >= 2, noexcept(ss.insert(lo)), s.insert(dup))
            SCN("insert(value&&):front", n < 4, noexcept(ss.insert(static_cast<Th&&>(lo))), Th t(5); s.insert(static_cast<Th&&>(t)))
            SCN("emplace(args):middle", n == 2, noexcept(ss.emplace(1)), s.emplace(15))
            SCN("erase(key)", n >= 2, noexcept(ss.erase(lo)), s.erase(dup))
            SCN("erase(iterator)", n >= 2, noexcept(ss.erase(ss.begin())), s.erase(s.begin()))
            SCN("ctor(set const&)", n >= 2, noexcept(SetT(ss)), SetT c(s); read_all(c))
            SCN("operator=(set const&)", n >= 2, noexcept(ss = ss), SetT c; c = s; read_all(c))
            SCN("swap(other)", true, noexcept(ss.swap(ss)), SetT c; { NoThrowScope g; c.emplace(1); } s.swap(c); read_all(c))
#undef SCN
        }
    }
}
constexpr unsigned kSetScn = 3 * 3 * 11;

// ------------------------------------------------------------------ optional / variant / expected / inplace_function
void optional_scenarios(unsigned which)
{
    using O            = etl::optional<ThC>;
    char const* subj   = "optional<throwing-copy>";
    unsigned k         = 0;
    for (int engaged : {0, 1}) {
        for (unsigned mask : {kMasks[1]}) {
            char sit[64];
            std::snprintf(sit, sizeof sit, "%s,%s", engaged ? "engaged" : "empty", mask_name(mask));
            auto B = [engaged](void* raw) {
                NoThrowScope g;
                O* o = ::new (raw) O();
                if (engaged) { o->emplace(1); }
                return o;
            };
            auto post = [](O& o) {
                if (o.has_value()) { (void)(*o).get(); }
            };
            ThC ext(7);
            O oe;
            O of;
            {
                NoThrowScope g;
                of.emplace(3);
            }
#define SCN(OPNAME, COND, EXPR_NOEXCEPT, BODY)                                                                                                              \
    if (k++ == which) {                                                                                                                                    \
        if (COND) {                                                                                                                                         \
            if constexpr (!(EXPR_NOEXCEPT)) {                                                                                                               \
                inject<O>(subj, OPNAME, sit, mask, B, [&](O& o) { BODY; }, post);                                                                           \
            } else {                                                                                                                                        \
                NOT_INJECTABLE(subj, OPNAME);                                                                                                               \
            }                                                                                                                                               \
        }                                                                                                                                                   \
        return;                                                                                                                                             \
    }
            SCN("emplace(args)", true, noexcept(oo.emplace(1)), o.emplace(5))
            SCN("operator=(T const&)", true, noexcept(oo = ext), o = ext)
            SCN("operator=(T&&)", true, noexcept(oo = static_cast<ThC&&>(ext)), ThC t(5); o = static_cast<ThC&&>(t))
            SCN("operator=(optional const&):from-engaged", true, noexcept(oo = oo), o = of)
            SCN("operator=(optional const&):from-empty", true, noexcept(oo = oo), o = oe)
            SCN("operator=(optional&&):from-engaged", true, noexcept(oo = static_cast<O&&>(oo)), O t(of); o = static_cast<O&&>(t))
            SCN("ctor(optional const&)", engaged == 1, noexcept(O(oo)), O c(o); post(c))
            SCN("ctor(optional&&)", engaged == 1, noexcept(O(static_cast<O&&>(oo))), O c(static_cast<O&&>(o)); post(c))
            SCN("ctor(T const&)", true, noexcept(O(ext)), O c(ext); post(c); (void)o)
            SCN("swap(other):with-engaged", true, noexcept(oo.swap(oo)), O t(of); o.swap(t); post(t))
            SCN("swap(other):with-empty", true, noexcept(oo.swap(oo)), O t; o.swap(t); post(t))
#undef SCN
        }
    }
}
constexpr unsigned kOptScn = 2 * 1 * 11;

void variant_scenarios(unsigned which)
{
    using V          = etl::variant<int, ThC, long>;
    char const* subj = "variant<int,throwing-copy,long>";
    unsigned k       = 0;
    for (int st : {0, 1}) { // holds int / holds ThC
        for (unsigned mask : {kMasks[1]}) {
            char sit[64];
            std::snprintf(sit, sizeof sit, "%s,%s", st ? "holds-throwing" : "holds-int", mask_name(mask));
            auto B = [st](void* raw) {
                NoThrowScope g;
                V* v = ::new (raw) V(etl::in_place_index<0>, 4);
                if (st) { v->template emplace<1>(1); }
                return v;
            };
            auto post = [](V& v) {
                if (auto* p = etl::get_if<1>(&v)) { (void)p->get(); }
            };
            ThC ext(7);
            V vi(etl::in_place_index<0>, 9);
            V vt(etl::in_place_index<0>, 9);
            {
                NoThrowScope g;
                vt.emplace<1>(3);
            }
#define SCN(OPNAME, COND, EXPR_NOEXCEPT, BODY)                                                                                                              \
    if (k++ == which) {                                                                                                                                    \
        if (COND) {                                                                                                                                         \
            if constexpr (!(EXPR_NOEXCEPT)) {                                                                                                               \
                inject<V>(subj, OPNAME, sit, mask, B, [&](V& v) { BODY; }, post);                                                                           \
            } else {                                                                                                                                        \
                NOT_INJECTABLE(subj, OPNAME);                                                                                                               \
            }                                                                                                                                               \
        }                                                                                                                                                   \
        return;                                                                                                                                             \
    }
            SCN("emplace<I>(args)", true, noexcept(vv.emplace<1>(1)), v.template emplace<1>(5))
            SCN("emplace<T>(args)", true, noexcept(vv.emplace<ThC>(1)), v.template emplace<ThC>(5))
            SCN("operator=(T const&)", true, noexcept(vv = ext), v = ext)
            SCN("operator=(T&&)", true, noexcept(vv = static_cast<ThC&&>(ext)), ThC t(5); v = static_cast<ThC&&>(t))
            SCN("operator=(variant const&):from-throwing", true, noexcept(vv = vv), v = vt)
            SCN("operator=(variant const&):from-int", true, noexcept(vv = vv), v = vi)
            SCN("operator=(variant&&):from-throwing", true, noexcept(vv = static_cast<V&&>(vv)), V t(vt); v = static_cast<V&&>(t))
            SCN("ctor(variant const&)", st == 1, noexcept(V(vv)), V c(v); post(c))
            SCN("ctor(variant&&)", st == 1, noexcept(V(static_cast<V&&>(vv))), V c(static_cast<V&&>(v)); post(c))
#undef SCN
        }
    }
}
constexpr unsigned kVarScn = 2 * 1 * 9;

void expected_scenarios(unsigned which)
{
    using X          = etl::expected<ThC, int>;
    char const* subj = "expected<throwing-copy,int>";
    unsigned k       = 0;
    for (int st : {0, 1}) { // holds error / holds value
        for (unsigned mask : {kMasks[1]}) {
            char sit[64];
            std::snprintf(sit, sizeof sit, "%s,%s", st ? "has-value" : "has-error", mask_name(mask));
            auto B = [st](void* raw) {
                NoThrowScope g;
                X* x = st ? ::new (raw) X(etl::in_place, 1) : ::new (raw) X(etl::unexpect, 4);
                return x;
            };
            auto post = [](X& x) {
                if (x.has_value()) { (void)(*x).get(); }
            };
            X xe(etl::unexpect, 9);
            X xv(etl::in_place, 3);
#define SCN(OPNAME, COND, EXPR_NOEXCEPT, BODY)                                                                                                              \
    if (k++ == which) {                                                                                                                                    \
        if (COND) {                                                                                                                                         \
            if constexpr (!(EXPR_NOEXCEPT)) {                                                                                                               \
                inject<X>(subj, OPNAME, sit, mask, B, [&](X& x) { BODY; }, post);                                                                           \
            } else {                                                                                                                                        \
                NOT_INJECTABLE(subj, OPNAME);                                                                                                               \
            }                                                                                                                                               \
        }                                                                                                                                                   \
        return;                                                                                                                                             \
    }
            SCN("operator=(expected const&):from-value", true, noexcept(xx = xx), x = xv)
            SCN("operator=(expected const&):from-error", true, noexcept(xx = xx), x = xe)
            SCN("operator=(expected&&):from-value", true, noexcept(xx = static_cast<X&&>(xx)), X t(xv); x = static_cast<X&&>(t))
            SCN("ctor(expected const&)", st == 1, noexcept(X(xx)), X c(x); post(c))
            SCN("ctor(expected&&)", st == 1, noexcept(X(static_cast<X&&>(xx))), X c(static_cast<X&&>(x)); post(c))
#undef SCN
        }
    }
}
constexpr unsigned kExpScn = 2 * 1 * 5;

void function_scenarios(unsigned which)
{
    using F          = etl::inplace_function<int(), 64>;
    char const* subj = "inplace_function<capturing-throwing>";
    unsigned k       = 0;
    for (int st : {0, 1}) { // empty / holds a capture
        for (unsigned mask : {kMasks[1]}) {
            char sit[64];
            std::snprintf(sit, sizeof sit, "%s,%s", st ? "holds-callable" : "empty", mask_name(mask));
            auto B = [st](void* raw) {
                NoThrowScope g;
                F* f = ::new (raw) F();
                if (st) {
                    ThC cap(1);
                    *f = [cap]() { return cap.get(); };
                }
                return f;
            };
            auto post = [](F& f) {
                if (f) { (void)f(); }
            };
            F other;
            {
                NoThrowScope g;
                ThC cap(3);
                other = [cap]() { return cap.get(); };
            }
#define SCN(OPNAME, COND, EXPR_NOEXCEPT, BODY)                                                                                                              \
    if (k++ == which) {                                                                                                                                    \
        if (COND) {                                                                                                                                         \
            if constexpr (!(EXPR_NOEXCEPT)) {                                                                                                               \
                inject<F>(subj, OPNAME, sit, mask, B, [&](F& f) { BODY; }, post);                                                                           \
            } else {                                                                                                                                        \
                NOT_INJECTABLE(subj, OPNAME);                                                                                                               \
            }                                                                                                                                               \
        }                                                                                                                                                   \
        return;                                                                                                                                             \
    }
            SCN("operator=(inplace_function const&)", true, noexcept(ff = ff), f = other)
            SCN("ctor(inplace_function const&)", st == 1, noexcept(F(ff)), F c(f); post(c))
            SCN("operator=(callable)", true, false, ThC cap(5); f = [cap]() { return cap.get(); })
            SCN("ctor(callable)", true, false, ThC cap(5); F c([cap]() { return cap.get(); }); post(c); (void)f)
#undef SCN
        }
    }
}
constexpr unsigned kFunScn = 2 * 1 * 4;

// ------------------------------------------------------------------ case mapping
constexpr unsigned kOff1 = kVecScn;           // static_vector<Th,4>
constexpr unsigned kOff2 = kOff1 + kVecScn;   // static_vector<Th,1>
constexpr unsigned kOff3 = kOff2 + kIvScn;    // inplace_vector<Th,4>
constexpr unsigned kOff4 = kOff3 + kSetScn;   // static_set
constexpr unsigned kOff5 = kOff4 + kSetScn;   // flat_set
constexpr unsigned kOff6 = kOff5 + kOptScn;
constexpr unsigned kOff7 = kOff6 + kVarScn;
constexpr unsigned kOff8 = kOff7 + kExpScn;
constexpr unsigned kTotal = kOff8 + kFunScn;

vf::Spec spec(vf::Tier)
{
    vf::Spec s;
    s.n_enum     = kTotal;
    s.n_random   = 0;
    s.batch      = 8;
    s.exhaustive = true;
    return s;
}

void scenario(unsigned i)
{
    if (i < kOff1) { return static_vector_scenarios<4>(i); }
    if (i < kOff2) { return static_vector_scenarios<1>(i - kOff1); }
    if (i < kOff3) { return inplace_vector_scenarios<4>(i - kOff2); }
    if (i < kOff4) { return set_scenarios<etl::static_set<Th, 4>>("static_set<throwing,4>", i - kOff3); }
    if (i < kOff5) { return set_scenarios<etl::flat_set<Th, etl::static_vector<Th, 4>>>("flat_set<throwing,static_vector<4>>", i - kOff4); }
    if (i < kOff6) { return optional_scenarios(i - kOff5); }
    if (i < kOff7) { return variant_scenarios(i - kOff6); }
    if (i < kOff8) { return expected_scenarios(i - kOff7); }
    return function_scenarios(i - kOff8);
}

void run_case(vf::Case& c)
{
    // every scenario in its own process: an operation that is not noexcept but reaches std::terminate through a noexcept callee ends the
    // child only, and is reported as a sample (defined behaviour, not a lifetime violation)
    vf::crumb("exception-injection", "scenario", "-", "scenario %llu", (unsigned long long)c.index);
    vf::ForkOutcome o = vf::fork_call([&] {
        std::set_terminate([] { std::_Exit(78); });
        vf::registry().reset();
        scenario((unsigned)c.index);
    });
    if (o.timeout) {
        vf::record("hang", "timeout", "injection scenario did not finish", "finishes");
    } else if (o.exited && o.code == 78) {
        if (vf::want_sample("terminate")) { vf::sample("terminate", "scenario %llu ended in std::terminate (an element exception reached a noexcept function): not judged", (unsigned long long)c.index); }
    } else if (o.exited && (o.code == 66 || o.code == 67)) {
        vf::record("crash", o.code == 66 ? "asan-report-during-exception-injection" : "ubsan-report-during-exception-injection", "sanitizer report", "no report");
    } else if (!o.exited) {
        char obs[64];
        std::snprintf(obs, sizeof obs, "signal %d", o.sig);
        vf::record("crash", "signal-during-exception-injection", obs, "normal return");
    } else if (o.code != 5) {
        char obs[64];
        std::snprintf(obs, sizeof obs, "exit status %d", o.code);
        vf::record("crash", "unexpected-exit-during-exception-injection", obs, "normal return");
    }
}
} // namespace

VF_MAIN("C03", "C03_throw", spec, run_case)
