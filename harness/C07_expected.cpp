// C07 - etl::expected / etl::unexpected track the same state and value as std::expected / std::unexpected (C++23)
// -DVF_CFG: 0 expected<int,int>   1 expected<tracked-cm, tracked-cm2>   2 expected<tracked-cm,tracked-cm> (T == E)
//           3 expected<string-like,string-like>   4 expected<tracked-cm,int> (E convertible to T)
// Twin worlds (vf_c07.hpp).  libstdc++ 12 ships <expected> without the monadic members (and_then / or_else came
// with GCC 13), so for those two the std-side reference is the wording of [expected.object.monadic] written out
// on top of std::expected (has_value ? invoke(f, forward-like value) : U(unexpect, forward-like error)).
#include "vf.hpp"
#include "vf_contract.hpp"
#include "vf_tracked.hpp"

#include "vf_c07.hpp"

#include <functional>

#ifndef VF_CFG
    #error "VF_CFG required"
#endif
#if __cplusplus <= 202002L
    #error "this unit needs -std=c++23 (std::expected)"
#endif

namespace {
using namespace c07;

#if VF_CFG == 0
using T = int;
using E = int;
constexpr char const* kName = "expected<int,int>";
    #define VF_UNIT "C07_expected_int"
#elif VF_CFG == 1
using T = TCM;
using E = TCM2;
constexpr char const* kName = "expected<tracked-cm,tracked-cm2>";
    #define VF_UNIT "C07_expected_tracked"
#elif VF_CFG == 2
using T = TCM; // value and error of the SAME non-trivial type: the two arms differ only by index
using E = TCM;
constexpr char const* kName = "expected<tracked-cm,tracked-cm>";
    #define VF_UNIT "C07_expected_same_tcm"
#elif VF_CFG == 3
using T = StrLike;
using E = StrLike;
constexpr char const* kName = "expected<string-like,string-like>";
    #define VF_UNIT "C07_expected_same_str"
#else
using T = TCM; // error type convertible to the value type
using E = int;
constexpr char const* kName = "expected<tracked-cm,int>";
    #define VF_UNIT "C07_expected_conv"
#endif

enum Op : unsigned {
    eEmplace,
    eAssignConst,
    eAssignRv,
    eSelfCopyAssign,
    eCopyCtor,
    eMoveCtor,
    eCtorInPlace,
    eCtorUnexpect,
    eCtorDefault,
    eSwapAdl,
    eSwapMember,
    eSwapSelf,
    eValueOrConst,
    eValueOrRv,
    eAndThen,
    eOrElse,
    eDeref,
    eEquality,
    eAssignValue,
    eAssignUnexpected,
    eCtorValue,
    eCtorUnexpected,
    eValue,
    eUnexpected,
    kOpCount
};
constexpr OpInfo info(Op op)
{
    switch (op) {
    case eEmplace: return {"emplace(args)", aV | aM};
    case eAssignConst: return {"operator=(expected const&)", aY | aM};
    case eAssignRv: return {"operator=(expected&&)", aY | aM};
    case eSelfCopyAssign: return {"operator=(self const&)", aM};
    case eCopyCtor: return {"ctor(expected const&)", 0};
    case eMoveCtor: return {"ctor(expected&&)", aM};
    case eCtorInPlace: return {"ctor(in_place,args)", aV};
    case eCtorUnexpect: return {"ctor(unexpect,args)", aV};
    case eCtorDefault: return {"ctor()", 0};
    case eSwapAdl: return {"swap(a,b)", aY | aM};
    case eSwapMember: return {"swap(other)", aY | aM};
    case eSwapSelf: return {"swap(self,self)", aM};
    case eValueOrConst: return {"value_or(d) const&", aV};
    case eValueOrRv: return {"value_or(d) &&", aV | aM};
    case eAndThen: return {"and_then(f)", aQ4 | aF | aM};
    case eOrElse: return {"or_else(f)", aQ4 | aF | aM};
    case eDeref: return {"operator* / operator-> / error()", 0};
    case eEquality: return {"operator==", aY};
    case eAssignValue: return {"operator=(U&&) value", aV | aM};
    case eAssignUnexpected: return {"operator=(unexpected)", aV | aM};
    case eCtorValue: return {"ctor(U&&) value", aV};
    case eCtorUnexpected: return {"ctor(unexpected)", aV};
    case eValue: return {"value()", aQ4};
    case eUnexpected: return {"unexpected<E>: ctor/copy/move/assign/swap/==/error()", aV | aY};
    default: return {"?", 0};
    }
}

// members of std::expected that etl::expected may lack: exercised only where both sides are well-formed
template <typename X, typename TT, typename EE>
struct Has {
    static constexpr bool member_swap  = requires(X& a, X& b) { a.swap(b); };
    static constexpr bool equality     = requires(X const& a, X const& b) { a == b; };
    static constexpr bool assign_value = requires(X& a, TT t) { a = static_cast<TT&&>(t); };
    static constexpr bool assign_unex  = requires(X& a, etl::unexpected<EE> u) { a = static_cast<etl::unexpected<EE>&&>(u); };
    static constexpr bool ctor_value   = std::is_constructible_v<X, TT>;
    static constexpr bool ctor_unex    = std::is_constructible_v<X, etl::unexpected<EE>>;
    static constexpr bool value        = requires(X& a) { a.value(); };
    static constexpr bool error_or     = requires(X& a, EE e) { a.error_or(static_cast<EE&&>(e)); };
    static constexpr bool transform    = requires(X& a) { a.transform([](auto&&) { return 1L; }); };
    static constexpr bool transform_error = requires(X& a) { a.transform_error([](auto&&) { return 1L; }); };
};
using HasE = Has<etl::expected<T, E>, T, E>;

constexpr bool applicable(Op op)
{
    switch (op) {
    case eSwapMember: return HasE::member_swap;
    case eEquality: return HasE::equality;
    case eAssignValue: return HasE::assign_value;
    case eAssignUnexpected: return HasE::assign_unex;
    case eCtorValue: return HasE::ctor_value;
    case eCtorUnexpected: return HasE::ctor_unex;
    case eValue: return HasE::value;
    case kOpCount: return false;
    default: return true;
    }
}
struct Table {
    Op ops[kOpCount]{};
    unsigned n = 0;
};
constexpr Table make_table()
{
    Table t;
    for (unsigned k = 0; k < kOpCount; ++k) {
        if (applicable((Op)k)) { t.ops[t.n++] = (Op)k; }
    }
    return t;
}

struct CallLog {
    int calls     = 0;
    long long arg = -1;
    int cat       = -1;
};

// [expected.object.monadic] written out for a library that lacks the members
template <typename X, typename F>
auto ref_and_then(X&& x, F&& f)
{
    using U = std::remove_cvref_t<std::invoke_result_t<F, decltype(*std::forward<X>(x))>>;
    if (x.has_value()) { return std::invoke(std::forward<F>(f), *std::forward<X>(x)); }
    return U(std::unexpect, std::forward<X>(x).error());
}
template <typename X, typename F>
auto ref_or_else(X&& x, F&& f)
{
    using G = std::remove_cvref_t<std::invoke_result_t<F, decltype(std::forward<X>(x).error())>>;
    if (x.has_value()) { return G(std::in_place, *std::forward<X>(x)); }
    return std::invoke(std::forward<F>(f), std::forward<X>(x).error());
}

template <typename NS>
struct ExpWorld {
    using X  = typename NS::template expected<T, E>;
    using XL = typename NS::template expected<long, E>; // result of and_then
    using XG = typename NS::template expected<T, long>; // result of or_else
    using UX = typename NS::template unexpected<E>;
    X* x = nullptr;
    ExpWorld() = default;
    ExpWorld(ExpWorld const&)            = delete;
    ExpWorld& operator=(ExpWorld const&) = delete;
    ~ExpWorld() { delete x; }

    // y: 0..2 value code, 3..5 error code
    static X mk(int y) { return y < 3 ? X(NS::in_place, y) : X(NS::unexpect, y - 3); }

    template <typename XX>
    static void obs_exp(Obs& r, char const* has, char const* val, char const* err, XX const& o)
    {
        r.b(has, o.has_value());
        r.i(val, o.has_value() ? enc(*o) : kAbsent);
        r.i(err, o.has_value() ? kAbsent : enc(o.error()));
    }
    void construct(int form, int v)
    {
        switch (form) {
        case 0: x = new X(); break;
        case 1: x = new X(NS::in_place, v); break;
        default: x = new X(NS::unexpect, v); break;
        }
    }
    void rebuild(bool has, long long e)
    {
        delete x;
        x = has ? new X(NS::in_place, (int)e) : new X(NS::unexpect, (int)e);
    }
    void observe(Obs& r) const
    {
        X const& o = *x;
        r.b("has_value", o.has_value());
        r.b("operator bool", static_cast<bool>(o));
        r.i("value", o.has_value() ? enc(*o) : kAbsent);
        r.b("operator->==&*", o.has_value() ? o.operator->() == &*o : true);
        r.i("error", o.has_value() ? kAbsent : enc(o.error()));
    }

    struct AndThenF {
        CallLog* log;
        bool ok;
        template <typename A>
        XL operator()(A&& a) const
        {
            log->calls++;
            log->arg = enc(a);
            log->cat = category<A&&>();
            return ok ? XL(NS::in_place, (long)enc(a) + 10) : XL(NS::unexpect, 7);
        }
    };
    struct OrElseF {
        CallLog* log;
        bool ok;
        template <typename A>
        XG operator()(A&& a) const
        {
            log->calls++;
            log->arg = enc(a);
            log->cat = category<A&&>();
            return ok ? XG(NS::in_place, (int)enc(a) + 20) : XG(NS::unexpect, 9L);
        }
    };
    template <typename XX, typename F>
    static auto do_and_then(XX&& xx, F&& f)
    {
        if constexpr (NS::is_etl) {
            return static_cast<XX&&>(xx).and_then(static_cast<F&&>(f));
        } else {
            return ref_and_then(static_cast<XX&&>(xx), static_cast<F&&>(f));
        }
    }
    template <typename XX, typename F>
    static auto do_or_else(XX&& xx, F&& f)
    {
        if constexpr (NS::is_etl) {
            return static_cast<XX&&>(xx).or_else(static_cast<F&&>(f));
        } else {
            return ref_or_else(static_cast<XX&&>(xx), static_cast<F&&>(f));
        }
    }

    void apply(Op op, Args const& a, Obs& r)
    {
        X& o = *x;
        switch (op) {
        case eEmplace: {
            T& ref = [&]() -> T& {
                if constexpr (std::is_nothrow_constructible_v<T, int>) {
                    return o.emplace(a.v);
                } else {
                    return o.emplace(T(a.v)); // emplace demands nothrow construction: go through the (noexcept) move constructor
                }
            }();
            r.b("emplace-returns-contained", o.has_value() && &ref == &*o);
            break;
        }
        case eAssignConst: {
            X const other = mk(a.y);
            X& ret        = (o = other);
            r.b("returns-self", &ret == &o);
            obs_exp(r, "src.has_value", "src.value", "src.error", other);
            break;
        }
        case eAssignRv: {
            X other = mk(a.y);
            X& ret  = (o = static_cast<X&&>(other));
            r.b("returns-self", &ret == &o);
            obs_exp(r, "src.has_value-after-move", "src.value-after-move", "src.error-after-move", other);
            break;
        }
        case eSelfCopyAssign: {
            X const& self = o;
            o             = self;
            break;
        }
        case eCopyCtor: {
            X c(o);
            obs_exp(r, "copy.has_value", "copy.value", "copy.error", c);
            break;
        }
        case eMoveCtor: {
            X c(static_cast<X&&>(o));
            obs_exp(r, "moved-to.has_value", "moved-to.value", "moved-to.error", c);
            break;
        }
        case eCtorInPlace: {
            X c(NS::in_place, a.v);
            obs_exp(r, "constructed.has_value", "constructed.value", "constructed.error", c);
            break;
        }
        case eCtorUnexpect: {
            X c(NS::unexpect, a.v);
            obs_exp(r, "constructed.has_value", "constructed.value", "constructed.error", c);
            break;
        }
        case eCtorDefault: {
            X c;
            obs_exp(r, "default.has_value", "default.value", "default.error", c);
            break;
        }
        case eSwapAdl: {
            X other = mk(a.y);
            NS::adl_swap(o, other);
            obs_exp(r, "other.has_value", "other.value", "other.error", other);
            break;
        }
        case eSwapMember:
            if constexpr (HasE::member_swap) {
                X other = mk(a.y);
                o.swap(other);
                obs_exp(r, "other.has_value", "other.value", "other.error", other);
            }
            break;
        case eSwapSelf: NS::adl_swap(o, o); break;
        case eValueOrConst: {
            X const& co = o;
            T ret       = co.value_or(a.v + 5);
            r.i("value_or", enc(ret));
            break;
        }
        case eValueOrRv: {
            T ret = static_cast<X&&>(o).value_or(a.v + 5);
            r.i("value_or", enc(ret));
            break;
        }
        case eAndThen: {
            CallLog L;
            AndThenF f{&L, a.f != 0};
            X const& co = o;
            XL ret      = a.q == 0   ? do_and_then(o, f)
                        : a.q == 1 ? do_and_then(co, f)
                        : a.q == 2 ? do_and_then(static_cast<X&&>(o), f)
                                   : do_and_then(static_cast<X const&&>(co), f);
            r.i("f.calls", L.calls);
            r.i("f.arg", L.arg);
            r.i("f.arg-category", L.cat);
            obs_exp(r, "ret.has_value", "ret.value", "ret.error", ret);
            break;
        }
        case eOrElse: {
            CallLog L;
            OrElseF f{&L, a.f != 0};
            X const& co = o;
            XG ret      = a.q == 0   ? do_or_else(o, f)
                        : a.q == 1 ? do_or_else(co, f)
                        : a.q == 2 ? do_or_else(static_cast<X&&>(o), f)
                                   : do_or_else(static_cast<X const&&>(co), f);
            r.i("f.calls", L.calls);
            r.i("f.arg", L.arg);
            r.i("f.arg-category", L.cat);
            obs_exp(r, "ret.has_value", "ret.value", "ret.error", ret);
            break;
        }
        case eDeref: {
            X const& co = o;
            if (o.has_value()) {
                r.i("*lvalue", enc(*o));
                r.i("*const-lvalue", enc(*co));
                r.i("*lvalue-category", category<decltype(*o)>());
                r.i("*const-lvalue-category", category<decltype(*co)>());
                r.i("*rvalue-category", category<decltype(*static_cast<X&&>(o))>());
                r.i("*const-rvalue-category", category<decltype(*static_cast<X const&&>(co))>());
                T&& rr = *static_cast<X&&>(o);
                r.b("*rvalue-is-contained", &rr == &*o);
                r.b("operator->const==&*", co.operator->() == &*co);
            } else {
                r.i("error()-lvalue", enc(o.error()));
                r.i("error()-const-lvalue", enc(co.error()));
                r.i("error()-lvalue-category", category<decltype(o.error())>());
                r.i("error()-const-lvalue-category", category<decltype(co.error())>());
                r.i("error()-rvalue-category", category<decltype(static_cast<X&&>(o).error())>());
                r.i("error()-const-rvalue-category", category<decltype(static_cast<X const&&>(co).error())>());
                E&& rr = static_cast<X&&>(o).error();
                r.b("error()-rvalue-is-contained", &rr == &o.error());
                r.b("(padding)", true);
            }
            break;
        }
        case eEquality:
            if constexpr (HasE::equality) {
                X const other = mk(a.y);
                X const& co   = o;
                r.b("a==b", co == other);
                r.b("a!=b", co != other);
                r.b("b==a", other == co);
            }
            break;
        case eAssignValue:
            if constexpr (HasE::assign_value) { o = T(a.v); }
            break;
        case eAssignUnexpected:
            if constexpr (HasE::assign_unex) { o = UX(E(a.v)); }
            break;
        case eCtorValue:
            if constexpr (HasE::ctor_value) {
                X c(T(a.v));
                obs_exp(r, "constructed.has_value", "constructed.value", "constructed.error", c);
            }
            break;
        case eCtorUnexpected:
            if constexpr (HasE::ctor_unex) {
                X c(UX(E(a.v)));
                obs_exp(r, "constructed.has_value", "constructed.value", "constructed.error", c);
            }
            break;
        case eValue:
            if constexpr (HasE::value) {
                bool threw    = false;
                long long got = -1;
                try {
                    got = enc(o.value());
                } catch (...) {
                    threw = true;
                }
                r.b("value()-throws", threw);
                r.i("value()", got);
            }
            break;
        case eUnexpected: {
            // unexpected<E>: a.v / a.y%3 are the two error codes
            int const v2 = a.y % 3;
            UX u1(E(a.v));
            UX u2(NS::in_place, v2);
            r.i("ctor(Err&&).error()", enc(u1.error()));
            r.i("ctor(in_place,args).error()", enc(u2.error()));
            UX const& cu1 = u1;
            r.i("error()const&-category", category<decltype(cu1.error())>());
            r.i("error()&-category", category<decltype(u1.error())>());
            r.i("error()&&-category", category<decltype(static_cast<UX&&>(u1).error())>());
            r.i("error()const&&-category", category<decltype(static_cast<UX const&&>(cu1).error())>());
            r.b("u1==u2", cu1 == u2);
            r.b("u1!=u2", cu1 != u2);
            typename NS::template unexpected<long> ul(NS::in_place, (long)v2);
            if constexpr (std::is_same_v<E, int>) {
                r.b("unexpected<int>==unexpected<long>", cu1 == ul);
                r.b("unexpected<int>!=unexpected<long>", cu1 != ul);
            }
            UX c(cu1);
            r.i("copy.error()", enc(c.error()));
            UX m(static_cast<UX&&>(u1));
            r.i("moved-to.error()", enc(m.error()));
            r.i("moved-from.error()", enc(u1.error()));
            u1 = u2;
            r.i("copy-assigned.error()", enc(u1.error()));
            u1 = static_cast<UX&&>(m);
            r.i("move-assigned.error()", enc(u1.error()));
            r.i("move-assigned-from.error()", enc(m.error()));
            u1.swap(u2);
            r.i("swap(other): this.error()", enc(u1.error()));
            r.i("swap(other): other.error()", enc(u2.error()));
            NS::adl_swap(u1, u2);
            r.i("swap(a,b): a.error()", enc(u1.error()));
            r.i("swap(a,b): b.error()", enc(u2.error()));
            u1.error() = E(a.v + 30);
            r.i("error()-writes-through", enc(cu1.error()));
            if constexpr (NS::is_etl) {
                etl::unexpected deduced(E(a.v));
                r.b("deduction-guide", std::is_same_v<decltype(deduced), UX>);
            } else {
                std::unexpected deduced(E(a.v));
                r.b("deduction-guide", std::is_same_v<decltype(deduced), UX>);
            }
            // an expected built from / observed with the unexpected's error
            X x2(NS::unexpect, u2.error());
            r.i("expected(unexpect, u.error()).error()", enc(x2.error()));
            break;
        }
        default: break;
        }
    }
};

struct ExpSubject {
    static constexpr Table table   = make_table();
    static constexpr unsigned kOps = table.n;
    static bool is_mutator(unsigned w) { return (info(table.ops[w]).args & aM) != 0; }
    static constexpr Mutators<Table, OpInfo (*)(Op)> muts{table, &info};
    static unsigned n_mutators() { return muts.n; }
    static unsigned mutator_at(unsigned k) { return muts.idx[k]; }
    ExpWorld<Std> s;
    ExpWorld<Etl> e;
    std::uint64_t nh = vf::fnv(kName);

    char const* name() const { return kName; }
    static char const* not_provided()
    {
        static std::string str = [] {
            std::string r;
            if (!HasE::ctor_value) { r += "ctor(U&&) "; }
            if (!HasE::ctor_unex) { r += "ctor(unexpected) "; }
            if (!HasE::assign_value) { r += "operator=(U&&) "; }
            if (!HasE::assign_unex) { r += "operator=(unexpected) "; }
            if (!HasE::member_swap) { r += "member swap() "; }
            if (!HasE::equality) { r += "operator== "; }
            if (!HasE::value) { r += "value() "; }
            if (!HasE::error_or) { r += "error_or() "; }
            if (!HasE::transform) { r += "transform() "; }
            if (!HasE::transform_error) { r += "transform_error() "; }
            r += "converting ctors from expected<U,G>; expected<void,E>";
            return r;
        }();
        return str.c_str();
    }
    static char const* label(Op op)
    {
        static std::string labs[kOpCount];
        if (labs[op].empty()) { labs[op] = std::string(kName) + " " + info(op).name; }
        return labs[op].c_str();
    }
    bool mh() const { return s.x->has_value(); }
    long long mv() const { return mh() ? enc(**s.x) : enc(s.x->error()); }

    void init(vf::Chooser& ch, unsigned nv)
    {
        int form = (int)ch.pick(3);
        int v    = form ? (int)ch.pick(nv) : 0;
        static constexpr Op fo[3] = {eCtorDefault, eCtorInPlace, eCtorUnexpect};
        vf::crumb(kName, info(fo[form]).name, form == 2 ? "->error" : "->value", "v=%d", v);
        s.construct(form, v);
        e.construct(form, v);
        Obs so, eo;
        s.observe(so);
        e.observe(eo);
        vf::cover(label(fo[form]), vf::mix(nh, vf::mix(form, v)), true);
        if (!compare(eo, so)) { e.rebuild(mh(), mv()); }
    }
    void step(unsigned w, vf::Chooser& ch, unsigned nv)
    {
        Op op      = table.ops[w];
        OpInfo inf = info(op);
        Args a;
        if (inf.args & aV) { a.v = (int)ch.pick(nv); }
        if (inf.args & aY) { a.y = (int)ch.pick(6); }
        if (inf.args & aQ4) { a.q = (int)ch.pick(4); }
        if (inf.args & aF) { a.f = (int)ch.pick(2); }
        bool h0      = mh();
        long long st = mv();
        char sit[96];
        int n = std::snprintf(sit, sizeof sit, "%s", h0 ? "has-value" : "has-error");
        if ((inf.args & aY) && op != eUnexpected) { n += std::snprintf(sit + n, sizeof sit - n, ",other-%s", a.y < 3 ? "has-value" : "has-error"); }
        if (inf.args & aQ4) {
            static constexpr char const* qn[4] = {"&", "const&", "&&", "const&&"};
            n += std::snprintf(sit + n, sizeof sit - n, ",%s", qn[a.q]);
        }
        if (inf.args & aF) { n += std::snprintf(sit + n, sizeof sit - n, ",f->%s", a.f ? "value" : "error"); }
        vf::crumb(kName, inf.name, sit, "state=(%s %lld) v=%d y=%d q=%d f=%d", h0 ? "value" : "error", st, a.v, a.y, a.q, a.f);
        Obs so, eo;
        s.apply(op, a, so);
        e.apply(op, a, eo);
        s.observe(so);
        e.observe(eo);
        std::uint64_t h = vf::mix(vf::mix(nh, vf::mix(h0, (std::uint64_t)(st + 1000))), vf::mix(op, vf::mix(vf::mix(a.v, a.y), vf::mix(a.q, a.f))));
        vf::cover(label(op), h, true);
        if (!compare(eo, so)) { e.rebuild(mh(), mv()); }
    }
};

vf::Spec spec(vf::Tier t)
{
    vf::Spec s;
    s.n_enum     = ExpSubject::kOps;
    s.n_random   = t == vf::Tier::thorough ? 20000 : 1500;
    s.batch      = 1;
    s.timeout_s  = t == vf::Tier::thorough ? 3000 : 600;
    s.exhaustive = true;
    return s;
}
void run_case(vf::Case& c)
{
    if (c.enumerated) {
        bool th = c.tier == vf::Tier::thorough;
        enumerate_first_op<ExpSubject>((unsigned)c.index, (th && VF_CFG < 2) ? 4 : 3, 3); // the T == E configurations stay at depth 3
    } else {
        random_history<ExpSubject>(c.rng, 50, 3);
    }
}
} // namespace

VF_MAIN("C07", VF_UNIT, spec, run_case)
