// C14 - saturating arithmetic, midpoint, gcd/lcm, abs, idiv, ipow, ilog2 vs std <numeric> / exact __int128 arithmetic
// (DESIGN section 4, C14).  Public tetl API only.
//   -DC14_PART=1 : same-type families for the ten standard integer types   (-DC14_ROWS=0 signed, 1 unsigned)
//   -DC14_PART=2 : gcd/lcm over mixed type pairs (std::gcd/lcm accept any two integer types)
//                  (-DC14_ROWS=0..3 : first type in {int8,int16} / {int32,int64} / {uint8,uint16} / {uint32,uint64})
//   -DC14_PART=4 : character-like integer types (char, wchar_t, char8_t, char16_t, char32_t) for the families that accept them
//   -DC14_PART=5 : ipow with exponents >= 2^31 (bases 0, 1, -1; plain flavour: the library loops exponent times)
//   -DC14_PART=3 : bulk sweep (thorough tier, plain flavour): every pair of 16-bit values for add_sat/div_sat/midpoint/idiv,
//                  every value x every 8th value for gcd/lcm
#include "vf.hpp"
#include "vf_contract.hpp"

#include "vf_c14.hpp"

#include <etl/cmath.hpp>
#include <etl/cstdint.hpp>
#include <etl/cstdlib.hpp>
#include <etl/numeric.hpp>

#include <numeric>

#ifndef C14_PART
    #define C14_PART 1
#endif
#ifndef C14_ROWS
    #define C14_ROWS 0
#endif

namespace {
using namespace c14;

template <class T>
std::string sub1(char const* fn)
{
    return std::string(fn) + "<" + TN<T>::v + ">";
}
template <class M, class N>
std::string sub2(char const* fn)
{
    return std::string(fn) + "<" + TN<M>::v + "," + TN<N>::v + ">";
}
inline u128 uabs(i128 v) { return v < 0 ? u128(0) - u128(v) : u128(v); }
inline u128 gcd128(u128 a, u128 b)
{
    while (b != 0) {
        u128 t = a % b;
        a      = b;
        b      = t;
    }
    return a;
}
inline i128 clamp128(i128 v, i128 l, i128 h) { return v < l ? l : v > h ? h : v; }

// ---------------------------------------------------------------- gcd / lcm  (any pair of integer types)
// domain (std): |m| and |n| representable in common_type; for lcm also the result
template <class M, class N>
struct Gcd {
    using A = M;
    using B = N;
    using R = i128;
    using C = std::common_type_t<M, N>;
    static constexpr char const* name = "gcd(m,n)";
    static std::string subject() { return sub2<M, N>("gcd"); }
    static bool dom(M m, N n) { return uabs(m) <= u128(hi<C>) && uabs(n) <= u128(hi<C>); }
    static R ref(M m, N n) { return i128(std::gcd(m, n)); }
    static R impl(M m, N n) { return i128(etl::gcd(m, n)); }
    static char const* sit(M m, N n)
    {
        bool neg  = i128(m) < 0 || i128(n) < 0;
        bool zero = m == 0 || n == 0;
        bool both = m == 0 && n == 0;
        bool wide = !fits<N>(i128(m)) || !fits<M>(i128(n)); // a value the other parameter type cannot hold
        if (both) { return "both-zero"; }
        if constexpr (std::is_same_v<M, N>) {
            return zero ? (neg ? "zero-arg,neg-arg" : "zero-arg") : (neg ? "neg-arg" : "both-positive");
        } else {
            if (zero) { return neg ? "zero-arg,neg-arg" : "zero-arg"; }
            if (neg) { return wide ? "neg-arg,exceeds-other-type" : "neg-arg"; }
            return wide ? "both-positive,exceeds-other-type" : "both-positive";
        }
    }
};
template <class M, class N>
struct Lcm {
    using A = M;
    using B = N;
    using R = i128;
    using C = std::common_type_t<M, N>;
    static constexpr char const* name = "lcm(m,n)";
    static std::string subject() { return sub2<M, N>("lcm"); }
    static u128 exact(M m, N n)
    {
        u128 a = uabs(m), b = uabs(n);
        if (a == 0 || b == 0) { return 0; }
        return a / gcd128(a, b) * b; // < 2^128 for 64-bit operands
    }
    static bool dom(M m, N n) { return uabs(m) <= u128(hi<C>) && uabs(n) <= u128(hi<C>) && exact(m, n) <= u128(hi<C>); }
    static R ref(M m, N n) { return i128(std::lcm(m, n)); }
    static R impl(M m, N n) { return i128(etl::lcm(m, n)); }
    static char const* sit(M m, N n)
    {
        bool neg  = i128(m) < 0 || i128(n) < 0;
        bool both = m == 0 && n == 0;
        if (both) { return "both-zero"; }
        if (m == 0 || n == 0) { return neg ? "zero-arg,neg-arg" : "zero-arg"; }
        // does the naive product |m|*|n| still fit the result type?
        bool prod_fits = uabs(m) * uabs(n) <= u128(hi<C>);
        if (neg) { return prod_fits ? "neg-arg" : "neg-arg,product-exceeds-type"; }
        return prod_fits ? "both-positive" : "both-positive,product-exceeds-type";
    }
};

#if C14_PART != 2
// ---------------------------------------------------------------- add_sat / div_sat
template <class T>
struct AddSat {
    using A = T;
    using B = T;
    using R = i128;
    static constexpr char const* name = "add_sat(x,y)";
    static std::string subject() { return sub1<T>("add_sat"); }
    static bool dom(T, T) { return true; }
    static R ref(T x, T y) { return clamp128(i128(x) + i128(y), lo<T>, hi<T>); }
    static R impl(T x, T y) { return i128(etl::add_sat(x, y)); }
    static char const* sit(T x, T y)
    {
        i128 s = i128(x) + i128(y);
        return s > hi<T> ? "overflow-high" : s < lo<T> ? "overflow-low" : s == hi<T> ? "exactly-max" : s == lo<T> ? "exactly-min" : "in-range";
    }
};
template <class T>
char const* signs(T x, T y)
{
    bool nx = i128(x) < 0, ny = i128(y) < 0;
    return nx ? (ny ? "x<0,y<0" : "x<0,y>0") : (ny ? "x>=0,y<0" : "x>=0,y>0");
}
template <class T>
struct DivSat {
    using A = T;
    using B = T;
    using R = i128;
    static constexpr char const* name = "div_sat(x,y)";
    static std::string subject() { return sub1<T>("div_sat"); }
    static bool dom(T, T y) { return y != 0; }
    static R ref(T x, T y) { return clamp128(i128(x) / i128(y), lo<T>, hi<T>); }
    static R impl(T x, T y) { return i128(etl::div_sat(x, y)); }
    static char const* sit(T x, T y) { return (std::is_signed_v<T> && i128(x) == lo<T> && i128(y) == -1) ? "min/-1" : signs(x, y); }
};
// ---------------------------------------------------------------- midpoint
template <class T>
struct Midpoint {
    using A = T;
    using B = T;
    using R = i128;
    static constexpr char const* name = "midpoint(a,b)";
    static std::string subject() { return sub1<T>("midpoint"); }
    static bool dom(T, T) { return true; }
    // half the sum rounded towards a; std::midpoint is the oracle, the exact formula its cross-check
    static R ref(T a, T b)
    {
        i128 d = i128(b) - i128(a);
        i128 e = i128(a) + d / 2; // truncation towards zero == towards a
        i128 s = i128(std::midpoint(a, b));
        return s == e ? s : (i128(1) << 100); // oracle disagreement shows up as an impossible expected value
    }
    static R impl(T a, T b) { return i128(etl::midpoint(a, b)); }
    static char const* sit(T a, T b)
    {
        i128 d   = i128(b) - i128(a);
        bool odd = (d % 2) != 0;
        bool opp = (i128(a) < 0) != (i128(b) < 0);
        if (d == 0) { return "a==b"; }
        if (d > 0) { return odd ? (opp ? "a<b,odd,opposite-signs" : "a<b,odd") : (opp ? "a<b,even,opposite-signs" : "a<b,even"); }
        return odd ? (opp ? "a>b,odd,opposite-signs" : "a>b,odd") : (opp ? "a>b,even,opposite-signs" : "a>b,even");
    }
};
// ---------------------------------------------------------------- idiv
template <class T>
struct Idiv {
    using A = T;
    using B = T;
    using R = QR;
    static constexpr char const* name = "idiv(x,y)";
    static std::string subject() { return sub1<T>("idiv"); }
    static bool dom(T x, T y) { return y != 0 && fits<T>(i128(x) / i128(y)); }
    static R ref(T x, T y) { return QR{i128(x) / i128(y), i128(x) % i128(y)}; }
    static R impl(T x, T y)
    {
        auto r = etl::idiv(x, y);
        return QR{i128(r.quot), i128(r.rem)};
    }
    static char const* sit(T x, T y) { return signs(x, y); }
};
// ---------------------------------------------------------------- ipow (run-time base)
inline bool pow128(i128 b, unsigned e, i128 l, i128 h, i128& out)
{
    i128 r = 1;
    for (unsigned i = 0; i < e; ++i) {
        if (__builtin_mul_overflow(r, b, &r)) { return false; } // (2^64-1)^2 does not fit 128 signed bits
        if (r < l || r > h) { return false; }
    }
    out = r;
    return true;
}
// exact power when representable.  |base| <= 1 has a closed form for every exponent >= 0; other bases are bounded by 200 steps
constexpr i128 kBigExp = i128(1) << 20; // harness bound for bases 0, 1, -1 in the sanitizer units (the implementation loops exponent times)
inline bool ipow_exact(i128 b, i128 e, i128 l, i128 h, i128 emax, i128& out)
{
    if (e < 0 || e > emax) { return false; }
    if (b == 0) { out = e == 0 ? 1 : 0; return true; }
    if (b == 1) { out = 1; return true; }
    if (b == -1) {
        if (l >= 0) { return false; } // unsigned: not representable
        out = (e % 2) ? -1 : 1;
        return true;
    }
    return e <= 200 && pow128(b, unsigned(e), l, h, out);
}
template <class T>
std::vector<T> const& exponents()
{
    static std::vector<T> const v = [] {
        std::vector<T> r;
        for (int e = 0; e <= 70; ++e) { r.push_back(T(e)); }
        for (long e : {100L, 127L, 128L, 200L, 255L, 256L, 257L, 1000L, 1001L, 4095L, 4096L, 32767L, 32768L, 65535L, 65536L, 65537L, 1048575L, 1048576L}) {
            if (hi<T> >= e) { r.push_back(T(e)); }
        }
        return finish_t(std::move(r));
    }();
    return v;
}
template <class T>
char const* ipow_sit(T b, T e)
{
    bool big = i128(e) > 200;
    if (e == 0) { return b == 0 ? "exp=0,base=0" : "exp=0"; }
    if (b == 0) { return big ? "base=0,exp>200" : "base=0"; }
    if (i128(b) == 1) { return big ? "base=1,exp>200" : "base=+-1"; }
    if (i128(b) == -1) { return big ? ((e % 2) ? "base=-1,odd-exp>200" : "base=-1,even-exp>200") : "base=+-1"; }
    if (i128(b) < 0) { return (e % 2) ? "base<0,odd-exp" : "base<0,even-exp"; }
    return e == 1 ? "exp=1" : "generic";
}
template <class T>
struct Ipow {
    using A = T;
    using B = T;
    using R = i128;
    static constexpr char const* name = "ipow(base,exponent)";
    static std::string subject() { return sub1<T>("ipow"); }
    static std::vector<T> const& yset() { return exponents<T>(); }
    static void rnd(vf::Rng& r, A& b, B& e)
    {
        std::uint64_t m = r.next();
        if ((m & 7) == 0) { // bases 0, 1, -1 with exponents of every magnitude up to the harness bound
            b        = T(i128((m >> 8) % 3) - (std::is_signed_v<T> ? 1 : 0));
            int len  = int((m >> 16) % 21);
            i128 ev  = i128(r.next() >> (63 - len)) ;
            e        = T(ev > hi<T> ? hi<T> : ev);
            return;
        }
        b = c14::rnd<T>(r);
        e = T(r.below((m & 8) ? 8 : 71));
    }
    // exponent >= 0 (harness bound: <= 200, <= 2^20 for bases 0/1/-1), every intermediate product == base^k representable
    static bool dom(T b, T e)
    {
        i128 out;
        return ipow_exact(i128(b), i128(e), lo<T>, hi<T>, kBigExp, out);
    }
    static R ref(T b, T e)
    {
        i128 out = 0;
        ipow_exact(i128(b), i128(e), lo<T>, hi<T>, kBigExp, out);
        return out;
    }
    static R impl(T b, T e) { return i128(etl::ipow(b, e)); }
    static char const* sit(T b, T e) { return ipow_sit(b, e); }
};
// exponents >= 2^31 (plain -O2 unit only: the implementation loops exponent times, ~2 s per call): bases 0, 1, -1
template <class T>
std::vector<T> const& huge_exponents()
{
    static std::vector<T> const v = [] {
        std::vector<T> r;
        bool thorough = tier_hint() == vf::Tier::thorough;
        r.push_back(T(i128(1) << 31));
        r.push_back(T((i128(1) << 31) + 1));
        if (thorough) {
            if (W<T> == 32) { r.push_back(T((i128(1) << 32) - 1)); }
            if (W<T> == 64) {
                r.push_back(T(i128(1) << 32));
                r.push_back(T((i128(1) << 32) + 1));
            }
        }
        return finish_t(std::move(r));
    }();
    return v;
}
template <class T>
struct IpowHuge {
    using A = T;
    using B = T;
    using R = i128;
    static constexpr char const* name = "ipow(base,exponent)";
    static std::string subject() { return sub1<T>("ipow"); }
    static std::vector<T> const& yset() { return huge_exponents<T>(); }
    static bool dom(T b, T e)
    {
        i128 out;
        return (b == 0 || i128(b) == 1 || i128(b) == -1) && i128(e) > kBigExp && ipow_exact(i128(b), i128(e), lo<T>, hi<T>, hi<T>, out);
    }
    static R ref(T b, T e)
    {
        i128 out = 0;
        ipow_exact(i128(b), i128(e), lo<T>, hi<T>, hi<T>, out);
        return out;
    }
    static R impl(T b, T e) { return i128(etl::ipow(b, e)); }
    static char const* sit(T b, T e)
    {
        if (b == 0) { return "base=0,exp>=2^31"; }
        if (i128(b) == 1) { return "base=1,exp>=2^31"; }
        return (e % 2) ? "base=-1,odd-exp>=2^31" : "base=-1,even-exp>=2^31";
    }
};
// compile-time base: ipow<Base>(exponent); Base == 2 is a shift
template <auto Base>
struct IpowT {
    using T = decltype(Base);
    using A = T;
    using R = i128;
    static constexpr char const* name = "ipow<Base>(exponent)";
    static std::string subject() { return "ipow<Base=" + s128(i128(Base)) + ">(" + TN<T>::v + ")"; }
    static std::vector<T> const& xset() { return exponents<T>(); }
    static void rnd(vf::Rng& r, A& e) { e = T(r.below(71)); }
    static bool dom(T e)
    {
        i128 out;
        return i128(e) >= 0 && i128(e) <= 200 && pow128(i128(Base), unsigned(e), lo<T>, hi<T>, out);
    }
    static R ref(T e)
    {
        i128 out = 0;
        pow128(i128(Base), unsigned(e), lo<T>, hi<T>, out);
        return out;
    }
    static R impl(T e) { return i128(etl::ipow<Base>(e)); }
    static char const* sit(T e) { return e == 0 ? "exp=0" : e == 1 ? "exp=1" : "generic"; }
};
// ---------------------------------------------------------------- ilog2 / abs
template <class T>
struct Ilog2 {
    using A = T;
    using R = i128;
    static constexpr char const* name = "ilog2(x)";
    static std::string subject() { return sub1<T>("ilog2"); }
    static bool dom(T x) { return i128(x) > 0; }
    static R ref(T x) { return std::bit_width(static_cast<unsigned long long>(x)) - 1; }
    static R impl(T x) { return i128(etl::ilog2(x)); }
    static char const* sit(T x)
    {
        return x == 1 ? "one" : i128(x) == hi<T> ? "max" : std::has_single_bit(static_cast<unsigned long long>(x)) ? "pow2" : "non-pow2";
    }
};
template <class T>
struct Abs { // overload resolution picks: int/long/long long -> <cmath>-style overloads, everything else -> the numeric template
    using A = T;
    using R = i128;
    static constexpr char const* name = "abs(x)";
    static std::string subject() { return sub1<T>("abs"); }
    static bool dom(T x) { return !std::is_signed_v<T> || i128(x) != lo<T>; }
    static R ref(T x) { return i128(x) < 0 ? -i128(x) : i128(x); }
    static R impl(T x) { return i128(etl::abs(x)); }
    static char const* sit(T x) { return i128(x) < 0 ? (i128(x) == lo<T> + 1 ? "min+1" : "neg") : (x == 0 ? "zero" : "pos"); }
};
template <class T>
struct AbsT { // the template of etl/numeric.hpp, explicitly
    using A = T;
    using R = i128;
    static constexpr char const* name = "abs<T>(x)";
    static std::string subject() { return sub1<T>("abs<T>"); }
    static bool dom(T x) { return i128(x) != lo<T>; }
    static R ref(T x) { return i128(x) < 0 ? -i128(x) : i128(x); }
    static R impl(T x) { return i128(etl::abs<T>(x)); }
    static char const* sit(T x) { return i128(x) < 0 ? (i128(x) == lo<T> + 1 ? "min+1" : "neg") : (x == 0 ? "zero" : "pos"); }
};
struct Labs {
    using A = long;
    using R = i128;
    static constexpr char const* name = "labs(x)";
    static std::string subject() { return "labs<int64_t>"; }
    static bool dom(long x) { return i128(x) != lo<long>; }
    static R ref(long x) { return i128(x) < 0 ? -i128(x) : i128(x); }
    static R impl(long x) { return i128(etl::labs(x)); }
    static char const* sit(long x) { return x < 0 ? "neg" : (x == 0 ? "zero" : "pos"); }
};
struct Llabs {
    using A = long long;
    using R = i128;
    static constexpr char const* name = "llabs(x)";
    static std::string subject() { return "llabs<long long>"; }
    static bool dom(long long x) { return i128(x) != lo<long long>; }
    static R ref(long long x) { return i128(x) < 0 ? -i128(x) : i128(x); }
    static R impl(long long x) { return i128(etl::llabs(x)); }
    static char const* sit(long long x) { return x < 0 ? "neg" : (x == 0 ? "zero" : "pos"); }
};

template <class T>
void reg_type()
{
    reg_binary<AddSat<T>>();
    reg_binary<DivSat<T>>();
    reg_binary<Midpoint<T>>();
    reg_binary<Idiv<T>>();
    reg_binary<Gcd<T, T>>();
    reg_binary<Lcm<T, T>>();
    reg_binary<Ipow<T>>();
    reg_unary<Ilog2<T>>();
    reg_unary<Abs<T>>();
    if constexpr (std::is_signed_v<T>) { reg_unary<AbsT<T>>(); }
}
#endif

#if C14_PART == 2
template <class M, class N>
void reg_pair()
{
    if constexpr (!std::is_same_v<M, N>) {
        reg_binary<Gcd<M, N>>();
        reg_binary<Lcm<M, N>>();
    }
}
template <class M>
void reg_row()
{
    reg_pair<M, signed char>();
    reg_pair<M, unsigned char>();
    reg_pair<M, short>();
    reg_pair<M, unsigned short>();
    reg_pair<M, int>();
    reg_pair<M, unsigned>();
    reg_pair<M, long>();
    reg_pair<M, unsigned long>();
}
#endif

#if C14_PART == 5
vf::Spec spec(vf::Tier t) { return make_spec(t, 0, 0, 1); } // one slow call group per forked batch
#else
vf::Spec spec(vf::Tier t) { return make_spec(t, 2, 64); }
#endif
} // namespace

void c14::register_all()
{
#if C14_PART == 1 && C14_ROWS == 0
    reg_type<signed char>();
    reg_type<short>();
    reg_type<int>();
    reg_type<long>();
    reg_type<long long>();
    reg_unary<Labs>();
    reg_unary<Llabs>();
    reg_unary<IpowT<2>>(false);
    reg_unary<IpowT<2L>>(false);
    reg_unary<IpowT<static_cast<short>(2)>>(false);
    reg_unary<IpowT<3>>(false);
    reg_unary<IpowT<10>>(false);
    reg_unary<IpowT<-2>>(false);
    reg_unary<IpowT<-3L>>(false);
    reg_unary<IpowT<static_cast<signed char>(-2)>>(false);
#elif C14_PART == 3
    max_block() = 1u << 22;
    auto bulk = []<class T>(T) {
        reg_binary<AllY<AddSat<T>>>(false, 3, "all-pairs-16bit");
        reg_binary<AllY<DivSat<T>>>(false, 3, "all-pairs-16bit");
        reg_binary<AllY<Midpoint<T>>>(false, 3, "all-pairs-16bit");
        reg_binary<AllY<Idiv<T>>>(false, 3, "all-pairs-16bit");
        reg_binary<AllY<Gcd<T, T>, 8>>(false, 3, "all16-x-every-8th");
        reg_binary<AllY<Lcm<T, T>, 8>>(false, 3, "all16-x-every-8th");
    };
    bulk(short{});
    bulk(static_cast<unsigned short>(0));
    reg_binary<AllY<Gcd<short, unsigned short>, 16>>(false, 3, "all16-x-every-16th");
    reg_binary<AllY<Lcm<unsigned short, short>, 16>>(false, 3, "all16-x-every-16th");
#elif C14_PART == 4
    // character-like integer types: the families that accept any integral type (the saturating ops and cmp_* reject them, like std)
    auto exotic = []<class T>(T) {
        reg_binary<Midpoint<T>>();
        reg_binary<Idiv<T>>();
        reg_binary<Gcd<T, T>>();
        reg_binary<Lcm<T, T>>();
        reg_binary<Ipow<T>>();
        reg_unary<Ilog2<T>>();
        reg_unary<Abs<T>>();
        if constexpr (std::is_signed_v<T>) { reg_unary<AbsT<T>>(); }
    };
    exotic(char{});
    exotic(wchar_t{});
    exotic(char8_t{});
    exotic(char16_t{});
    exotic(char32_t{});
    reg_binary<Gcd<wchar_t, unsigned short>>();
    reg_binary<Gcd<char16_t, long>>();
    reg_binary<Lcm<char, char32_t>>();
#elif C14_PART == 5
    // exponents >= 2^31 with bases 0, 1, -1: one block (2-3 calls of ~2 s each) per exponent
    max_block() = 1;
    reg_binary<IpowHuge<unsigned>>(false, 0, "structured-x-huge-exponent");
    reg_binary<IpowHuge<long>>(false, 0, "structured-x-huge-exponent");
    reg_binary<IpowHuge<unsigned long>>(false, 0, "structured-x-huge-exponent");
    if (tier_hint() == vf::Tier::thorough) {
        reg_binary<IpowHuge<long long>>(false, 0, "structured-x-huge-exponent");
        reg_binary<IpowHuge<unsigned long long>>(false, 0, "structured-x-huge-exponent");
    }
#elif C14_PART == 1
    reg_type<unsigned char>();
    reg_type<unsigned short>();
    reg_type<unsigned>();
    reg_type<unsigned long>();
    reg_type<unsigned long long>();
    reg_unary<IpowT<2u>>(false);
    reg_unary<IpowT<2ull>>(false);
    reg_unary<IpowT<static_cast<unsigned char>(2)>>(false);
    reg_unary<IpowT<10ull>>(false);
#elif C14_ROWS == 0
    reg_row<signed char>();
    reg_row<short>();
    reg_pair<long long, unsigned long>();
    reg_pair<long, long long>();
#elif C14_ROWS == 1
    reg_row<int>();
    reg_row<long>();
#elif C14_ROWS == 2
    reg_row<unsigned char>();
    reg_row<unsigned short>();
    reg_pair<unsigned long long, long>();
#else
    reg_row<unsigned>();
    reg_row<unsigned long>();
    reg_pair<int, unsigned long long>();
#endif
}

#define C14_STR2(x) #x
#define C14_STR(x) C14_STR2(x)
#if C14_PART == 1
VF_MAIN("C14", "C14_arith_" C14_STR(C14_ROWS), spec, c14::run_case)
#elif C14_PART == 3
VF_MAIN("C14", "C14_arith_bulk", spec, c14::run_case)
#elif C14_PART == 4
VF_MAIN("C14", "C14_arith_chars", spec, c14::run_case)
#elif C14_PART == 5
VF_MAIN("C14", "C14_ipow_huge", spec, c14::run_case)
#else
VF_MAIN("C14", "C14_gcdmix_" C14_STR(C14_ROWS), spec, c14::run_case)
#endif
