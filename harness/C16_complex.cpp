// C16 - etl::complex<T> arithmetic and functions vs libstdc++ std::complex<T> (glibc c* functions) (DESIGN 4, C16)
// Build: -DVF_T=float|double -DVF_T_NAME="float"|"double" [-DVF_T_IS_FLOAT=1]
//
// Strata (situation label prefix):
//   moderate : real/imaginary parts from a list of ~56 values with 2^-20 <= |v| <= 32 or 0  -> accuracy:
//              norm-wise error |etl-ref| / (|ref| eps) <= committed bound (complex results), ulp bound (real results);
//              NaN/inf class of every component must agree.
//   special  : parts from {+-0, +-1, +-denorm_min, +-min, +-max, +-inf, NaN}            -> class of every component
//              (nan / +-inf / finite) must agree with std::complex (C Annex G through glibc); finite values in
//              this stratum are also held to the accuracy bound when the reference is finite and normal.
//   extreme  : FINITE non-special parts whose squares overflow/underflow (2^(+-EMAX/2) .. just below max, down into the
//              denormals), mixed with ordinary and zero parts, so that |w|^2, part ratios and products overflow or
//              underflow although operands and result are representable -> same class + accuracy rules.  Labelled
//              sub-domains (own situation, never counted in the bound): divisor-zero, denormal-operand (unscaled Smith
//              division), cosh-overflows (cosh/sinh of the relevant part is inf), modulus-denormal/-overflows (log).
//              Division only: when the reference quotient itself is not representable (inf/NaN from finite operands)
//              the result merely has to be non-finite too (libgcc's per-component inf/NaN choice is not a reference).
//   trig-large: cos cosh sin sinh tan tanh with |part| in {20 .. 1e6} (cosh from ~1e8 to beyond overflow) as real resp.
//              imaginary part while the other part sits at/next to odd multiples of pi/2, multiples of pi, or is ordinary.
//   nonfinite-x-overflow: cos sin tan with real part +-inf/NaN and a FINITE imaginary part beyond the overflow threshold
//              of cosh (100/1000/.../max), cosh sinh tanh mirrored; situation `real=inf,imag-beyond-cosh-overflow` etc.,
//              deliberately not under the `special,` keys of the open Annex-G findings.
//   aliasing : every compound operator and binary operator with the SAME object on both sides (z *= z, z = z / z ...) and
//              with a scalar operand that is a reference to the object's own part (z *= get<0>(z)), over the moderate,
//              extreme and random grids, against std::complex doing the same on its own object.
//   random   : seeded, parts log-uniform in [2^-12, 2^5] with random signs (moderate domain); plus seeded extreme parts
//              (exponent uniform over the overflow / underflow bands, label "extreme").
// Enumerated case = (function, index of the real part); the imaginary part (and the second operand) range over the list.
#include "vf.hpp"
#include "vf_contract.hpp"
#include "vf_float.hpp"

#include <etl/cmath.hpp>
#include <etl/complex.hpp>

#include <algorithm>
#include <cmath>
#include <complex>
#include <type_traits>
#include <vector>

#include "C16_common.hpp"

namespace {
using namespace c16;
using W  = long double;
using EC = etl::complex<T>;
using SC = std::complex<T>;
constexpr T EPS = std::numeric_limits<T>::epsilon();

std::vector<T> const& moderate()
{
    static std::vector<T> const v = [] {
        std::vector<T> m = {T(0)};
        for (T a : {T(9.5367431640625e-07) /*2^-20*/, T(1e-4), T(0.001), T(0.0625), T(0.1), T(0.25), T(0.5), T(0.75), T(0.999),
                 T(1), T(1.001), T(1.5), T(1.5707963267948966), T(2), T(2.5), T(3), T(3.141592653589793), T(4), T(4.71238898038469),
                 T(5), T(6.283185307179586), T(7.5), T(10), T(12.5), T(16), T(20), T(25), T(32)}) {
            m.push_back(a);
            m.push_back(-a);
        }
        m.push_back(T(-0.0));
        return m;
    }();
    return v;
}
std::vector<T> const& special()
{
    static std::vector<T> const v = [] {
        using L = std::numeric_limits<T>;
        std::vector<T> m;
        for (T a : {T(0), T(1), L::denorm_min(), L::min(), L::max(), L::infinity()}) {
            m.push_back(a);
            m.push_back(-a);
        }
        m.push_back(L::quiet_NaN());
        return m;
    }();
    return v;
}

// extreme-magnitude stratum: FINITE, non-special parts whose squares overflow or underflow (|v| beyond 2^(+-EMAX/2)),
// down into the denormals and up to just below max, plus three ordinary values so that tiny/huge/ordinary parts mix
// and part ratios themselves overflow/underflow.  None of the values is one of the `special` ones (0, min, max, ...).
std::vector<T> const& extreme()
{
    static std::vector<T> const v = [] {
        using L        = std::numeric_limits<T>;
        int const EMAX = L::max_exponent; // 128 / 1024
        int const EMIN = L::min_exponent; // -125 / -1021 ; smallest normal = 2^(EMIN-1)
        int const h    = EMAX / 2;
        std::vector<T> pos;
        T const ms[] = {T(1), T(1.171875), T(1.5), T(1.8125), T(1.3125), T(1.0625), T(1.9375), T(1.6875)};
        int k        = 0;
        auto add     = [&](int e) { pos.push_back(std::ldexp(ms[k++ % 8], e)); };
        for (int e : {h - 2, h, h + 1, h + 3, 3 * EMAX / 4, EMAX - 7, EMAX - 2}) { add(e); }           // squares overflow
        for (int e : {-(h - 3), -h, -(h + 2), -(h + 5), -3 * EMAX / 4, EMIN + 3}) { add(e); }            // squares underflow
        add(EMIN - 1 - 6);                                                                              // denormals
        add(EMIN - 1 - MB + 4);
        for (T m : {T(1), T(0.37109375), T(3)}) { pos.push_back(m); }
        pos.push_back(T(0)); // a zero part next to a tiny/huge one (one-sided operands); (0,0) divisors keep their own situation
        std::vector<T> out;
        for (std::size_t i = 0; i < pos.size(); ++i) {
            out.push_back(pos[i]);
            if (i % 2 == 0) { out.push_back(-pos[i]); }
        }
        return out;
    }();
    return v;
}
// trig/hyperbolic functions with a large argument of cosh/sinh (products and quotients of huge factors) while the other
// part sits at or next to odd multiples of pi/2 (one factor almost cancels) or is ordinary
std::vector<T> const& trig_large()
{
    static std::vector<T> const v = [] {
        std::vector<T> m;
        for (T a : {T(20), T(44), T(44.5), T(45), T(60), T(80), T(88), T(88.5), T(89), T(100), T(300), T(354), T(355), T(356), T(700),
                 T(709), T(709.5), T(710), T(711), T(1000), T(1e4), T(1e6)}) {
            m.push_back(a);
            m.push_back(-a);
        }
        return m;
    }();
    return v;
}
std::vector<T> const& trig_other()
{
    static std::vector<T> const v = [] {
        std::vector<T> m;
        T const hp = T(1.5707963267948966);
        for (T a : {hp, std::nextafter(hp, T(0)), std::nextafter(hp, T(2)), T(4.71238898038469), T(7.853981633974483), T(10.995574287564276),
                 T(3.141592653589793), T(6.283185307179586), T(0.7853981633974483), T(0.5), T(1), T(2), T(1e-3), T(1e-10), T(1e-30)}) {
            m.push_back(a);
            m.push_back(-a);
        }
        return m;
    }();
    return v;
}

// sign-less part classes for situation labels: nan inf huge tiny zero finite
char const* part_class(T v)
{
    if (fp::is_nan(v)) { return "nan"; }
    if (fp::is_inf(v)) { return "inf"; }
    if (fp::is_zero(v)) { return "zero"; }
    unsigned e = fp::biased_exp(v);
    if (e <= 2) { return "tiny"; }
    if (e >= NEXP - 3) { return "huge"; }
    return "finite";
}
int part_rank(T v)
{
    if (fp::is_nan(v)) { return 5; }
    if (fp::is_inf(v)) { return 4; }
    if (fp::is_zero(v)) { return 1; }
    unsigned e = fp::biased_exp(v);
    if (e >= NEXP - 3) { return 3; }
    if (e <= 2) { return 2; }
    return 0;
}
char const* worst_class(T a, T b) { return part_rank(a) >= part_rank(b) ? part_class(a) : part_class(b); }
// result component class for the class comparison: nan / +-inf / finite (zero signs are compared separately)
char const* rclass(T v)
{
    if (fp::is_nan(v)) { return "nan"; }
    if (fp::is_inf(v)) { return fp::sign(v) ? "-inf" : "inf"; }
    return "finite";
}

struct Ctx {
    char const* subject;
    char const* op;
    char const* stratum; // "moderate" | "special" | "extreme" | "trig-large" | "nonfinite-x-overflow" | "random"
    std::uint64_t bound;
    std::uint64_t n = 0;
    std::uint64_t maxerr = 0;
    char maxat[200]{};
    bool near_one_matters = false; // log/log10: the neighbourhood of z = 1 is its own situation
    int div_matters = 0;           // 1: complex/complex (divisor w), 2: T/complex (divisor z): a zero divisor is its own situation
    T a{}, b{}, p{}, q{};
    bool two = false;
    bool in_sub = false;           // the current evaluation is in that sub-domain (not counted in maxerr)
    char const* sub = nullptr;     // label of the sub-domain (situation suffix)
    int trig_large = 0;            // trig-large stratum: 1 = the large part is the real part, 2 = the imaginary part
    int hyp_part = 0;              // which part goes through cosh/sinh: 1 = real (cosh sinh tanh), 2 = imaginary (cos sin tan)
    bool relax_overflow = false;   // division in the extreme strata: an overflowed reference quotient only requires a non-finite result
};

void zshow(char* out, std::size_t cap, T re, T im) { std::snprintf(out, cap, "(%a,%a)", (double)re, (double)im); }

// situation + arguments of the evaluation in flight; formatted into the breadcrumb before the call in the
// sanitizer flavour (a crash must be attributable) and only when something is reported otherwise
void flush_crumb(Ctx& c)
{
    T const a = c.a, b = c.b, p = c.p, q = c.q;
    bool const two = c.two;
    char sit[96];
    if (std::strcmp(c.stratum, "special") == 0) {
        if (two) {
            std::snprintf(sit, sizeof sit, "special,z:%s,w:%s", worst_class(a, b), worst_class(p, q));
        } else {
            std::snprintf(sit, sizeof sit, "special,z=(%s,%s)", part_class(a), part_class(b));
        }
    } else if (std::strcmp(c.stratum, "nonfinite-x-overflow") == 0) {
        // one part inf/NaN, the other FINITE and beyond the overflow threshold of cosh (own cells: not the Annex-G `special,` keys)
        bool const re_special = !fp::is_finite(a);
        T const sp            = re_special ? a : b;
        std::snprintf(sit, sizeof sit, "%s=%s,%s-beyond-cosh-overflow", re_special ? "real" : "imag",
            fp::is_nan(sp) ? "nan" : (fp::sign(sp) ? "-inf" : "inf"), re_special ? "imag" : "real");
    } else if (c.in_sub) {
        std::snprintf(sit, sizeof sit, "%s,%s", c.stratum, c.sub ? c.sub : "sub-domain");
    } else {
        std::snprintf(sit, sizeof sit, "%s", c.stratum);
    }
    char args[200];
    if (two) {
        std::snprintf(args, sizeof args, "z=(%a,%a) w=(%a,%a)", (double)a, (double)b, (double)p, (double)q);
    } else {
        std::snprintf(args, sizeof args, "z=(%a,%a)", (double)a, (double)b);
    }
    vf::crumb(c.subject, c.op, sit, "%s", args);
}
void set_crumb(Ctx& c, T a, T b, T p, T q, bool two)
{
    c.a = a, c.b = b, c.p = p, c.q = q, c.two = two;
    c.in_sub = false;
    c.sub    = nullptr;
    if (std::strcmp(c.stratum, "special") != 0 && std::strcmp(c.stratum, "nonfinite-x-overflow") != 0) {
        if ((c.div_matters == 1 && fp::is_zero(p) && fp::is_zero(q)) || (c.div_matters == 2 && fp::is_zero(a) && fp::is_zero(b))) {
            c.sub = "divisor-zero";
        } else if (c.near_one_matters && std::hypot((W)a - 1, (W)b) < (W)0.0625) {
            c.sub = "near-one";
        } else if (c.hyp_part && fp::is_inf(std::cosh(c.hyp_part == 1 ? a : b))) {
            // cosh/sinh of that part overflow: the textbook quotient/product formulas are inf/inf or inf*0 there
            c.sub = "cosh-overflows";
        } else if (c.div_matters && (fp::is_denormal(a) || fp::is_denormal(b) || fp::is_denormal(p) || (c.div_matters == 1 && fp::is_denormal(q)))) {
            c.sub = "denormal-operand"; // unscaled Smith division loses the low bits of denormal operands / products
        } else if (c.near_one_matters) {
            W const m = std::hypot((W)a, (W)b);
            if (m < (W)std::numeric_limits<T>::min()) {
                c.sub = "modulus-denormal";
            } else if (m > (W)std::numeric_limits<T>::max()) {
                c.sub = "modulus-overflows";
            }
        }
        c.in_sub = c.sub != nullptr;
    }
#if VF_ASAN
    flush_crumb(c);
#endif
}
#if VF_ASAN
    #define LATE(c) ((void)0)
#else
    #define LATE(c) flush_crumb(c)
#endif

// compare a complex result
void cmp_c(Ctx& c, T er, T ei, T rr, T ri)
{
    ++c.n;
    if (fp::bits(er) == fp::bits(rr) && fp::bits(ei) == fp::bits(ri)) { return; }
    LATE(c);
    char const* cre = rclass(er);
    char const* cri = rclass(ei);
    char const* xre = rclass(rr);
    char const* xri = rclass(ri);
    char o[96], e[96];
    zshow(o, sizeof o, er, ei);
    zshow(e, sizeof e, rr, ri);
    if (c.relax_overflow && (!fp::is_finite(rr) || !fp::is_finite(ri))) {
        // the exact quotient is not representable: libgcc's choice of inf/NaN per component is not a reference,
        // only "not an ordinary finite number" is demanded
        if (fp::is_finite(er) && fp::is_finite(ei)) { vf::diverge("class-differs:finite-for-overflowed-quotient", o, e); }
        return;
    }
    if (std::strcmp(cre, xre) != 0 || std::strcmp(cri, xri) != 0) {
        char sym[96];
        std::snprintf(sym, sizeof sym, "class-differs:(%s,%s)-for-(%s,%s)", cre, cri, xre, xri);
        vf::diverge(sym, o, e);
        return;
    }
    // accuracy only where every reference component is finite
    if (!fp::is_finite(rr) || !fp::is_finite(ri)) { return; }
    W const dr = (W)er - (W)rr, di = (W)ei - (W)ri;
    W const num = std::hypot(dr, di);
    W den       = std::hypot((W)rr, (W)ri);
    W const fl  = (W)std::numeric_limits<T>::min();
    if (den < fl) { den = fl; }
    W const err = num / (den * (W)EPS);
    std::uint64_t const u = err >= 1e18L ? ~0ull : (std::uint64_t)std::ceil(err);
    if (u > c.maxerr && !c.in_sub) {
        c.maxerr = u;
        std::snprintf(c.maxat, sizeof c.maxat, "%s obs=%s ref=%s", vf::g().sh ? vf::g().sh->args : "", o, e);
    }
    if (u > c.bound) { vf::diverge(u > (c.bound << 12) ? "err>>bound" : "err>bound", o, e); }
}
// compare a real result
void cmp_r(Ctx& c, T g, T r)
{
    ++c.n;
    if (fp::bits(g) == fp::bits(r)) { return; }
    LATE(c);
    char buf[64];
    std::uint64_t ulps = 0;
    char const* sym    = fp::approx_symptom(g, r, c.bound, &ulps, buf, sizeof buf);
    if (ulps > c.maxerr) {
        c.maxerr = ulps;
        std::snprintf(c.maxat, sizeof c.maxat, "%s", vf::g().sh ? vf::g().sh->args : "");
    }
    if (sym) {
        char o[64], e[64];
        fp::show(o, sizeof o, g);
        fp::show(e, sizeof e, r);
        vf::diverge(sym, o, e);
    }
}

enum Shape { U_C, U_R, B_CC, B_CT, B_TC, POLAR, EQ_CC, EQ_CT };
struct Fn {
    char const* subject;
    char const* op;
    Shape shape;
    bool special_too; // also run the special-values stratum
    void (*call)(Ctx&, T, T, T, T);
};

#define UC(NAME, SP)                                                                                                   \
    Fn{#NAME "<complex<" VF_T_NAME ">>", #NAME "(complex)", U_C, SP, [](Ctx& c, T a, T b, T, T) {                        \
           SC const r = std::NAME(SC(fp::launder(a), fp::launder(b)));                                                 \
           set_crumb(c, a, b, 0, 0, false);                                                                            \
           EC const g = etl::NAME(EC(fp::launder(a), fp::launder(b)));                                                 \
           cmp_c(c, g.real(), g.imag(), r.real(), r.imag());                                                           \
       }},
#define UR(NAME, SP)                                                                                                   \
    Fn{#NAME "<complex<" VF_T_NAME ">>", #NAME "(complex)", U_R, SP, [](Ctx& c, T a, T b, T, T) {                        \
           T const r = std::NAME(SC(fp::launder(a), fp::launder(b)));                                                  \
           set_crumb(c, a, b, 0, 0, false);                                                                            \
           T const g = etl::NAME(EC(fp::launder(a), fp::launder(b)));                                                  \
           cmp_r(c, g, r);                                                                                             \
       }},
#define BCC(NAME, OPSTR, SYM)                                                                                          \
    Fn{NAME "<complex<" VF_T_NAME ">>", OPSTR, B_CC, true, [](Ctx& c, T a, T b, T p, T q) {                              \
           SC const r = SC(fp::launder(a), fp::launder(b)) SYM SC(fp::launder(p), fp::launder(q));                     \
           set_crumb(c, a, b, p, q, true);                                                                             \
           EC const g = EC(fp::launder(a), fp::launder(b)) SYM EC(fp::launder(p), fp::launder(q));                     \
           cmp_c(c, g.real(), g.imag(), r.real(), r.imag());                                                           \
       }},
#define BCT(NAME, OPSTR, SYM)                                                                                          \
    Fn{NAME "<complex<" VF_T_NAME ">>", OPSTR, B_CT, true, [](Ctx& c, T a, T b, T p, T) {                                \
           SC const r = SC(fp::launder(a), fp::launder(b)) SYM fp::launder(p);                                         \
           set_crumb(c, a, b, p, 0, true);                                                                             \
           EC const g = EC(fp::launder(a), fp::launder(b)) SYM fp::launder(p);                                         \
           cmp_c(c, g.real(), g.imag(), r.real(), r.imag());                                                           \
       }},
#define BTC(NAME, OPSTR, SYM)                                                                                          \
    Fn{NAME "<complex<" VF_T_NAME ">>", OPSTR, B_TC, true, [](Ctx& c, T a, T b, T p, T) {                                \
           SC const r = fp::launder(p) SYM SC(fp::launder(a), fp::launder(b));                                         \
           set_crumb(c, a, b, p, 0, true);                                                                             \
           EC const g = fp::launder(p) SYM EC(fp::launder(a), fp::launder(b));                                         \
           cmp_c(c, g.real(), g.imag(), r.real(), r.imag());                                                           \
       }},

Fn const kFns[] = {
    UC(cos, true) UC(cosh, true) UC(sin, true) UC(sinh, true) UC(tan, true) UC(tanh, true) UC(log, true) UC(log10, true)
    UC(conj, true)
    UR(abs, true) UR(arg, true) UR(norm, true) UR(real, true) UR(imag, true)
    BCC("add", "complex+complex", +) BCC("sub", "complex-complex", -) BCC("mul", "complex*complex", *) BCC("div", "complex/complex", /)
    BCT("add", "complex+T", +) BCT("sub", "complex-T", -) BCT("mul", "complex*T", *) BCT("div", "complex/T", /)
    BTC("add", "T+complex", +) BTC("sub", "T-complex", -) BTC("mul", "T*complex", *) BTC("div", "T/complex", /)
    // ---- aliasing: the SAME object on both sides of a compound operator / binary operator, and a scalar operand that is a
    // reference to one of the object's own parts (etl::get<I>(z); std side: the array-oriented access of [complex.numbers]/4)
#define SELF(NAME, OPSTR, STD_STMT, ETL_STMT)                                                                          \
    Fn{NAME "<complex<" VF_T_NAME ">>", OPSTR, U_C, false, [](Ctx& c, T a, T b, T, T) {                                  \
           SC z_(fp::launder(a), fp::launder(b));                                                                      \
           {                                                                                                           \
               SC& z = z_;                                                                                             \
               [[maybe_unused]] T(&part)[2] = reinterpret_cast<T(&)[2]>(z);                                             \
               STD_STMT;                                                                                               \
           }                                                                                                           \
           set_crumb(c, a, b, 0, 0, false);                                                                            \
           EC g_(fp::launder(a), fp::launder(b));                                                                      \
           {                                                                                                           \
               EC& z = g_;                                                                                             \
               ETL_STMT;                                                                                               \
           }                                                                                                           \
           cmp_c(c, g_.real(), g_.imag(), z_.real(), z_.imag());                                                       \
       }},
    SELF("add", "z+=z (same object)", z += z, z += z)
    SELF("sub", "z-=z (same object)", z -= z, z -= z)
    SELF("mul", "z*=z (same object)", z *= z, z *= z)
    SELF("div", "z/=z (same object)", z /= z, z /= z)
    SELF("add", "z=z+z (same object)", z = z + z, z = z + z)
    SELF("sub", "z=z-z (same object)", z = z - z, z = z - z)
    SELF("mul", "z=z*z (same object)", z = z * z, z = z * z)
    SELF("div", "z=z/z (same object)", z = z / z, z = z / z)
    SELF("add", "z+=get<0>(z) (own real part by reference)", z += part[0], z += etl::get<0>(z))
    SELF("add", "z+=get<1>(z) (own imaginary part by reference)", z += part[1], z += etl::get<1>(z))
    SELF("sub", "z-=get<0>(z) (own real part by reference)", z -= part[0], z -= etl::get<0>(z))
    SELF("sub", "z-=get<1>(z) (own imaginary part by reference)", z -= part[1], z -= etl::get<1>(z))
    SELF("mul", "z*=get<0>(z) (own real part by reference)", z *= part[0], z *= etl::get<0>(z))
    SELF("mul", "z*=get<1>(z) (own imaginary part by reference)", z *= part[1], z *= etl::get<1>(z))
    SELF("div", "z/=get<0>(z) (own real part by reference)", z /= part[0], z /= etl::get<0>(z))
    SELF("div", "z/=get<1>(z) (own imaginary part by reference)", z /= part[1], z /= etl::get<1>(z))
    SELF("mul", "z=z*get<0>(z) (own real part by reference)", z = z * part[0], z = z * etl::get<0>(z))
    SELF("mul", "z=get<1>(z)*z (own imaginary part by reference)", z = part[1] * z, z = etl::get<1>(z) * z)
    SELF("div", "z=z/get<1>(z) (own imaginary part by reference)", z = z / part[1], z = z / etl::get<1>(z))
    SELF("assign", "z=get<1>(z) (own imaginary part by reference)", z = part[1], z = etl::get<1>(z))
    Fn{"neg<complex<" VF_T_NAME ">>", "-complex", U_C, true,
        [](Ctx& c, T a, T b, T, T) {
            SC const r = -SC(fp::launder(a), fp::launder(b));
            set_crumb(c, a, b, 0, 0, false);
            EC const g = -EC(fp::launder(a), fp::launder(b));
            cmp_c(c, g.real(), g.imag(), r.real(), r.imag());
        }},
    // polar(r, theta): the standard requires r >= 0 (not NaN) and finite theta
    Fn{"polar<complex<" VF_T_NAME ">>", "polar(r,theta)", POLAR, false,
        [](Ctx& c, T a, T b, T, T) {
            if (!(a >= 0) || !fp::is_finite(a) || !fp::is_finite(b)) { return; }
            SC const r = std::polar(fp::launder(a), fp::launder(b));
            set_crumb(c, a, b, 0, 0, false);
            EC const g = etl::polar(fp::launder(a), fp::launder(b));
            cmp_c(c, g.real(), g.imag(), r.real(), r.imag());
        }},
    Fn{"eq<complex<" VF_T_NAME ">>", "complex==complex", EQ_CC, true,
        [](Ctx& c, T a, T b, T p, T q) {
            bool const r = SC(a, b) == SC(p, q);
            set_crumb(c, a, b, p, q, true);
            bool const g = EC(fp::launder(a), fp::launder(b)) == EC(fp::launder(p), fp::launder(q));
            ++c.n;
            if (g != r) {
                LATE(c);
                vf::eq_bool("ret", g, r);
            }
        }},
    Fn{"eq<complex<" VF_T_NAME ">>", "complex==T", EQ_CT, true,
        [](Ctx& c, T a, T b, T p, T) {
            bool const r = SC(a, b) == p;
            set_crumb(c, a, b, p, 0, true);
            bool const g = EC(fp::launder(a), fp::launder(b)) == fp::launder(p);
            ++c.n;
            if (g != r) {
                LATE(c);
                vf::eq_bool("ret", g, r);
            }
        }},
};
constexpr unsigned NF = sizeof kFns / sizeof kFns[0];

// return-type facts ([complex.syn]: arg/norm/real/imag of an arithmetic argument yield the scalar type)
void type_facts()
{
    auto fact = [](char const* op, bool ok, char const* obs, char const* exp) {
        vf::crumb("complex<" VF_T_NAME ">", op, "return-type", "decltype");
        vf::cover(op, vf::fnv(op), true);
        if (!ok) { vf::diverge("type-differs", obs, exp); }
    };
    fact("arg(T)", std::is_same_v<decltype(etl::arg(T(1))), T>, "complex<T>", "T");
    fact("norm(T)", std::is_same_v<decltype(etl::norm(T(1))), T>, "complex<T>", "T");
    fact("real(T)", std::is_same_v<decltype(etl::real(T(1))), T>, "other", "T");
    fact("imag(T)", std::is_same_v<decltype(etl::imag(T(1))), T>, "other", "T");
    fact("conj(T)", std::is_same_v<decltype(etl::conj(T(1))), EC>, "other", "complex<T>");
    fact("abs(complex)", std::is_same_v<decltype(etl::abs(EC{})), T>, "other", "T");
    // values of the scalar overloads where the result type is usable
    {
        vf::crumb("complex<" VF_T_NAME ">", "conj(T)", "value", "conj(2.5)");
        auto g = etl::conj(T(2.5));
        vf::cover("conj(T)", 1, true);
        if (!(g.real() == T(2.5) && fp::is_zero(g.imag()))) { vf::diverge("value", "other", "(2.5,0)"); }
        vf::crumb("complex<" VF_T_NAME ">", "real(T)/imag(T)", "value", "real(2.5), imag(2.5)");
        vf::cover("real(T)", 1, true);
        if (!(etl::real(T(2.5)) == T(2.5) && etl::imag(T(2.5)) == T(0))) { vf::diverge("value", "other", "2.5 / 0"); }
    }
}

unsigned random_cases_per_fn(vf::Tier t) { return VF_ASAN ? 2 : (t == vf::Tier::thorough ? 64 : 8); }
unsigned random_per_case(vf::Tier t) { return VF_ASAN ? 512 : (t == vf::Tier::thorough ? 16384 : 4096); }

unsigned random_extreme_cases_per_fn(vf::Tier t) { return VF_ASAN ? 1 : (t == vf::Tier::thorough ? 32 : 4); }

// trig-large stratum: (function, which part is large)
char const* const kTrigFns[] = {"cos(complex)", "cosh(complex)", "sin(complex)", "sinh(complex)", "tan(complex)", "tanh(complex)"};
constexpr unsigned NTRIG = 6;

std::uint64_t n_mod_cases() { return (std::uint64_t)NF * moderate().size(); }
std::uint64_t n_spec_cases() { return (std::uint64_t)NF * special().size(); }
std::uint64_t n_ext_cases() { return (std::uint64_t)NF * extreme().size(); }
std::uint64_t n_trig_cases() { return (std::uint64_t)NTRIG * 2; }
std::uint64_t n_nfo_cases() { return NTRIG; } // nonfinite-x-overflow: one case per trig/hyperbolic function

vf::Spec spec(vf::Tier t)
{
    vf::Spec s;
    s.n_enum     = n_mod_cases() + n_spec_cases() + n_ext_cases() + n_trig_cases() + n_nfo_cases() + 1;
    s.n_random   = (std::uint64_t)NF * (random_cases_per_fn(t) + random_extreme_cases_per_fn(t));
    s.batch      = VF_ASAN ? 64 : 16;
    s.timeout_s  = 600;
    s.exhaustive = true;
    return s;
}

bool two_operand(Shape s) { return s == B_CC || s == B_CT || s == B_TC || s == EQ_CC || s == EQ_CT; }

void drive_row(Ctx& c, Fn const& fn, std::vector<T> const& L, T a)
{
    if (fn.shape == POLAR) {
        for (T b : L) { fn.call(c, a, b, 0, 0); }
        return;
    }
    if (!two_operand(fn.shape)) {
        for (T b : L) { fn.call(c, a, b, 0, 0); }
        return;
    }
    bool const scalar = fn.shape == B_CT || fn.shape == B_TC || fn.shape == EQ_CT;
    // second operand: every p; q over a stride-3 subset (rotating) to keep the 4-dimensional product bounded
    std::size_t rot = 0;
    std::size_t const bstep = VF_ASAN ? 3 : 1; // sanitizer stratum: every third imaginary part (rotating with the row)
    for (std::size_t bi = (VF_ASAN ? (std::size_t)(fp::bits(a) % 3) : 0); bi < L.size(); bi += bstep) {
        T const b = L[bi];
        for (T p : L) {
            if (scalar) {
                fn.call(c, a, b, p, 0);
            } else {
                for (std::size_t k = rot++ % 3; k < L.size(); k += 3) { fn.call(c, a, b, p, L[k]); }
            }
        }
    }
}

T log_uniform(vf::Rng& r)
{
    int e  = (int)r.range(-12, 4);
    T m    = T(1) + T(r.below(1u << 20)) / T(1u << 20);
    T v    = std::ldexp(m, e);
    if (r.chance(1, 24)) { v = T(0); }
    return r.coin() ? v : -v;
}

// seeded extreme parts: magnitude 2^e with e uniform over the bands where squares overflow / underflow (and sometimes ordinary)
T extreme_part(vf::Rng& r)
{
    using L        = std::numeric_limits<T>;
    int const EMAX = L::max_exponent, EMIN = L::min_exponent, h = EMAX / 2;
    int e;
    switch (r.below(5)) {
    case 0:
    case 1: e = (int)r.range(h - 2, EMAX - 2); break;
    case 2:
    case 3: e = (int)r.range(EMIN - MB + 3, -(h - 3)); break;
    default: e = (int)r.range(-3, 3); break;
    }
    T m = T(1) + T(r.below(1u << 20)) / T(1u << 20);
    T v = std::ldexp(m, e);
    return r.coin() ? v : -v;
}

bool prepare(Ctx& x, Fn const& fn)
{
    x.subject          = fn.subject;
    x.op               = fn.op;
    x.near_one_matters = std::strncmp(fn.subject, "log", 3) == 0;
    x.div_matters      = std::strcmp(fn.op, "complex/complex") == 0 ? 1 : (std::strcmp(fn.op, "T/complex") == 0 ? 2 : 0);
    for (char const* n : {"cosh(complex)", "sinh(complex)", "tanh(complex)"}) {
        if (std::strcmp(fn.op, n) == 0) { x.hyp_part = 1; }
    }
    for (char const* n : {"cos(complex)", "sin(complex)", "tan(complex)"}) {
        if (std::strcmp(fn.op, n) == 0) { x.hyp_part = 2; }
    }
    bool const ext_stratum = std::strcmp(x.stratum, "extreme") == 0 || std::strcmp(x.stratum, "trig-large") == 0;
    x.relax_overflow       = ext_stratum && x.div_matters != 0;
    if (fn.shape == EQ_CC || fn.shape == EQ_CT) { return true; }
    // the extreme strata have their own committed entry "<subject>@extreme" where the unchanged tree needs one
    if (std::strcmp(x.stratum, "extreme") == 0 || std::strcmp(x.stratum, "trig-large") == 0) {
        char who[96];
        std::snprintf(who, sizeof who, "%s@extreme", fn.subject);
        long b = bound_of(who);
        if (b >= 0) {
            x.bound = (std::uint64_t)b;
            return true;
        }
    }
    return need_bound(fn.subject, fn.op, &x.bound);
}

void run_case(vf::Case& c)
{
    Ctx x{};
    std::uint64_t h = vf::mix(c.index, c.enumerated ? 0xCC16 : vf::g().seed);
    std::uint64_t const o_spec = n_mod_cases(), o_ext = o_spec + n_spec_cases(), o_trig = o_ext + n_ext_cases(),
                        o_nfo = o_trig + n_trig_cases(), o_facts = o_nfo + n_nfo_cases();
    if (c.enumerated && c.index == o_facts) {
        type_facts();
        return;
    }
    if (c.enumerated && c.index < o_spec) {
        auto const& L = moderate();
        Fn const& fn  = kFns[c.index / L.size()];
        x.stratum     = "moderate";
        if (!prepare(x, fn)) { return; }
        drive_row(x, fn, L, L[c.index % L.size()]);
    } else if (c.enumerated && c.index < o_ext) {
        auto const& L         = special();
        std::uint64_t const k = c.index - o_spec;
        Fn const& fn          = kFns[k / L.size()];
        x.stratum             = "special";
        if (!fn.special_too || !prepare(x, fn)) { return; }
        drive_row(x, fn, L, L[k % L.size()]);
    } else if (c.enumerated && c.index < o_trig) {
        auto const& L         = extreme();
        std::uint64_t const k = c.index - o_ext;
        Fn const& fn          = kFns[k / L.size()];
        x.stratum             = "extreme";
        if (fn.shape == EQ_CC || fn.shape == EQ_CT || !prepare(x, fn)) { return; }
        drive_row(x, fn, L, L[k % L.size()]);
    } else if (c.enumerated && c.index >= o_nfo) {
        // one part +-inf / NaN, the other finite with cosh(part) = inf; for cos sin tan the special part is the real one,
        // for cosh sinh tanh the imaginary one; both orientations are run (the "wrong" orientation has a finite cosh
        // argument only if |part| is small, so only the overflow orientation is generated)
        char const* want = kTrigFns[c.index - o_nfo];
        Fn const* fn     = nullptr;
        for (auto const& f : kFns) {
            if (std::strcmp(f.op, want) == 0) { fn = &f; }
        }
        if (!fn) { return; }
        x.stratum = "nonfinite-x-overflow";
        if (!prepare(x, *fn)) { return; }
        using L = std::numeric_limits<T>;
        std::vector<T> big;
        for (T v : trig_large()) {
            if (fp::is_inf(std::cosh(v))) { big.push_back(v); }
        }
        for (T v : {std::ldexp(T(1.5), L::max_exponent / 2), std::ldexp(T(1.75), L::max_exponent - 2), std::nextafter(L::max(), T(0)), L::max()}) {
            big.push_back(v);
            big.push_back(-v);
        }
        for (T sp : {L::infinity(), -L::infinity(), L::quiet_NaN()}) {
            for (T v : big) {
                if (x.hyp_part == 2) {
                    fn->call(x, sp, v, 0, 0);
                } else {
                    fn->call(x, v, sp, 0, 0);
                }
            }
        }
    } else if (c.enumerated) {
        std::uint64_t const k = c.index - o_trig;
        char const* want      = kTrigFns[k / 2];
        Fn const* fn          = nullptr;
        for (auto const& f : kFns) {
            if (std::strcmp(f.op, want) == 0) { fn = &f; }
        }
        if (!fn) { return; }
        x.stratum    = "trig-large";
        x.trig_large = (int)(k % 2) + 1;
        if (!prepare(x, *fn)) { return; }
        for (T big : trig_large()) {
            for (T oth : trig_other()) {
                if (x.trig_large == 1) {
                    fn->call(x, big, oth, 0, 0);
                } else {
                    fn->call(x, oth, big, 0, 0);
                }
            }
        }
    } else {
        unsigned const per_m = random_cases_per_fn(c.tier), per = per_m + random_extreme_cases_per_fn(c.tier);
        Fn const& fn         = kFns[c.index / per];
        bool const ext       = (c.index % per) >= per_m;
        x.stratum            = ext ? "extreme" : "random";
        if (ext && (fn.shape == EQ_CC || fn.shape == EQ_CT)) { return; }
        if (!prepare(x, fn)) { return; }
        unsigned const n = random_per_case(c.tier);
        for (unsigned i = 0; i < n; ++i) {
            T a, b, p, q;
            if (ext) {
                a = extreme_part(c.rng), b = extreme_part(c.rng), p = extreme_part(c.rng), q = extreme_part(c.rng);
            } else {
                a = log_uniform(c.rng), b = log_uniform(c.rng), p = log_uniform(c.rng), q = log_uniform(c.rng);
            }
            if (fn.shape == POLAR) { a = std::fabs(a); }
            fn.call(x, a, b, p, q);
        }
    }
    fp::cover_block(x.op, x.n, h, c.enumerated ? x.n : 0);
    if (vf::want_sample(x.op)) {
        LATE(x);
        vf::sample(x.op, "%s %s stratum: %llu argument tuples compared with std::complex<" VF_T_NAME ">; last: %s", x.subject, x.stratum,
            (unsigned long long)x.n, vf::g().sh->args);
    }
    if (x.maxerr && std::strcmp(x.stratum, "special") != 0) {
        // bounds are kept per (subject, stratum family): the extreme strata report under "<subject>@extreme"
        char who[96];
        bool const ext = std::strcmp(x.stratum, "extreme") == 0 || std::strcmp(x.stratum, "trig-large") == 0;
        std::snprintf(who, sizeof who, "%s%s", x.subject, ext ? "@extreme" : "");
        note_maxulp(who, x.maxerr, x.maxat);
    }
}
} // namespace

VF_MAIN("C16", "C16_complex_" VF_T_NAME, spec, run_case)
