// C08 - the same members evaluated in CONSTANT EXPRESSIONS (DESIGN 4, C08; added after adversary round 3)
// tetl dispatches on is_constant_evaluated() in char_traits / cstring kernels, so a view member can be right at run time and wrong at
// compile time (or the other way round).  For every haystack over the alphabet up to length 3 a row of results is computed three
// times by the SAME row function: in a constant expression with etl, in a constant expression with std (the oracle), and at run time
// with etl on an opaque copy of the row index.  The monitor compares them cell by cell.
// Build: -DVF_CHAR=char|wchar_t|char8_t|char16_t  -DVF_CHAR_NAME="char"
#include "vf.hpp"
#include "vf_contract.hpp"

#include <etl/string_view.hpp>

#include <array>
#include <string>
#include <string_view>

#ifndef VF_CHAR
    #define VF_CHAR char
    #define VF_CHAR_NAME "char"
#endif

namespace {
using Ch = VF_CHAR;
using E  = etl::basic_string_view<Ch>;
using S  = std::basic_string_view<Ch>;
constexpr char const* SUBJ = "string_view<" VF_CHAR_NAME ">";

constexpr unsigned A    = 3; // alphabet size
constexpr unsigned HMAX = 3;
constexpr unsigned NMAX = 2;
constexpr Ch alpha(unsigned i)
{
    switch (i) {
    case 0: return Ch('a');
    case 1: return static_cast<Ch>(-1); // all bits set
    default: return sizeof(Ch) == 1 ? Ch(0) : static_cast<Ch>(Ch('a') + 0x100);          // narrow: NUL; wide: equal to 'a' modulo 256
    }
}
constexpr unsigned count_strings(unsigned maxlen)
{
    unsigned t = 0, c = 1;
    for (unsigned l = 0; l <= maxlen; ++l, c *= A) { t += c; }
    return t;
}
constexpr unsigned NH = count_strings(HMAX); // 40
constexpr unsigned NN = count_strings(NMAX); // 13
struct Lit {
    Ch b[4] = {};
    unsigned len = 0;
};
constexpr Lit nth(unsigned k, unsigned maxlen)
{
    Lit r;
    unsigned cnt = 1;
    for (unsigned len = 0; len <= maxlen; ++len, cnt *= A) {
        if (k < cnt) {
            r.len = len;
            for (unsigned i = 0; i < len; ++i) {
                r.b[len - 1 - i] = alpha(k % A);
                k /= A;
            }
            return r;
        }
        k -= cnt;
    }
    return r;
}

constexpr std::size_t kPos[]   = {0, 1, 2, 3, 4, static_cast<std::size_t>(-1)};
constexpr std::size_t kCount[] = {0, 1, 2, static_cast<std::size_t>(-1)};
constexpr unsigned kCellsPerNeedle = 6 * 6 + 6 * 3 + 4 /*bools*/ + 6 /*relational*/ + 1 /*compare*/ + 5 * 4 * 2 /*compare(p,c,sv) + (p,c,sv,p2,c2) with pos<=size*/ + 4 * 4 /*substr*/;
constexpr unsigned kCells          = NN * kCellsPerNeedle;

struct Row {
    long long v[kCells] = {};
    unsigned n          = 0;
};
constexpr long long P(std::size_t x) { return x == static_cast<std::size_t>(-1) ? -1 : static_cast<long long>(x); }
constexpr int sgn(int x) { return (x > 0) - (x < 0); }

// one row: haystack h against every needle; `names` (run time only) receives the operation label of every cell
template <typename V>
constexpr Row row(unsigned h, char const** names, unsigned* needle_of)
{
    Row r;
    Lit const hl = nth(h, HMAX);
    V const hv(hl.b, hl.len);
    auto put = [&](char const* name, unsigned nd, long long x) {
        if (names != nullptr) {
            names[r.n]     = name;
            needle_of[r.n] = nd;
        }
        r.v[r.n++] = x;
    };
    for (unsigned nd = 0; nd < NN; ++nd) {
        Lit const nl = nth(nd, NMAX);
        V const nv(nl.b, nl.len);
        Ch const c = nl.len ? nl.b[0] : Ch('a');
        for (std::size_t pos : kPos) {
            put("find(sv,pos)", nd, P(hv.find(nv, pos)));
            put("rfind(sv,pos)", nd, P(hv.rfind(nv, pos)));
            put("find_first_of(sv,pos)", nd, P(hv.find_first_of(nv, pos)));
            put("find_last_of(sv,pos)", nd, P(hv.find_last_of(nv, pos)));
            put("find_first_not_of(sv,pos)", nd, P(hv.find_first_not_of(nv, pos)));
            put("find_last_not_of(sv,pos)", nd, P(hv.find_last_not_of(nv, pos)));
            put("find(ch,pos)", nd, P(hv.find(c, pos)));
            put("rfind(ch,pos)", nd, P(hv.rfind(c, pos)));
            put("find(ptr,pos,count)", nd, P(hv.find(nl.b, pos, nl.len)));
        }
        put("starts_with(sv)", nd, hv.starts_with(nv));
        put("ends_with(sv)", nd, hv.ends_with(nv));
        put("starts_with(ch)", nd, hv.starts_with(c));
        put("ends_with(ch)", nd, hv.ends_with(c));
        put("operator==", nd, hv == nv);
        put("operator!=", nd, hv != nv);
        put("operator<", nd, hv < nv);
        put("operator<=", nd, hv <= nv);
        put("operator>", nd, hv > nv);
        put("operator>=", nd, hv >= nv);
        put("compare(sv)", nd, sgn(hv.compare(nv)));
        for (std::size_t pos = 0; pos <= 4; ++pos) {
            for (std::size_t cnt : kCount) {
                std::size_t const p1 = pos <= hl.len ? pos : hl.len; // the standard defines pos <= size only
                std::size_t const p2 = pos <= nl.len ? pos : nl.len;
                put("compare(pos1,count1,sv)", nd, sgn(hv.compare(p1, cnt, nv)));
                put("compare(pos1,count1,sv,pos2,count2)", nd, sgn(hv.compare(p1, cnt, nv, p2, cnt)));
            }
        }
        for (std::size_t pos = 0; pos <= 3; ++pos) {
            for (std::size_t cnt : kCount) {
                std::size_t const p1 = pos <= hl.len ? pos : hl.len;
                auto const sub       = hv.substr(p1, cnt);
                put("substr(pos,count)", nd, static_cast<long long>(sub.size()) * 16 + (sub.data() - hv.data()));
            }
        }
    }
    return r;
}

// each row is its own constant expression (keeps every evaluation far below -fconstexpr-ops-limit)
template <typename V, unsigned H>
inline constexpr Row kRow = row<V>(H, nullptr, nullptr);
template <typename V, unsigned... I>
Row const& pick_row(unsigned h, std::integer_sequence<unsigned, I...>)
{
    static Row const* const rows[] = {&kRow<V, I>...};
    return *rows[h];
}

std::string show(Lit const& l)
{
    std::string o = "'";
    for (unsigned i = 0; i < l.len; ++i) {
        char b[16];
        if (l.b[i] == Ch('a')) {
            o += 'a';
        } else {
            std::snprintf(b, sizeof b, "\\x%X", (unsigned)l.b[i]);
            o += b;
        }
    }
    return o + "'";
}

vf::Spec spec(vf::Tier)
{
    vf::Spec s;
    s.n_enum     = NH;
    s.n_random   = 0;
    s.batch      = 8;
    s.exhaustive = true;
    return s;
}

void run_case(vf::Case& c)
{
    using Seq           = std::make_integer_sequence<unsigned, NH>;
    unsigned volatile hv = (unsigned)c.index; // opaque: the third evaluation must really happen at run time
    unsigned const h     = hv;
    Row const& ce        = pick_row<E>(h, Seq{});
    Row const& cs        = pick_row<S>(h, Seq{});
    static char const* names[kCells];
    static unsigned needle_of[kCells];
    vf::crumb(SUBJ, "row@run-time", "-", "haystack #%u", h);
    Row const rt = row<E>(h, names, needle_of);
    Lit const hl = nth(h, HMAX);
    if (vf::want_sample("row")) { vf::sample("row", "haystack %s x %u needles x %u cells, constant-evaluated with etl and std, and at run time with etl", show(hl).c_str(), NN, kCellsPerNeedle); }
    if (ce.n != rt.n || cs.n != rt.n) {
        vf::crumb(SUBJ, "row", "-", "haystack #%u", h);
        vf::diverge("cell-count", vf::to_s(ce.n), vf::to_s(rt.n));
        return;
    }
    for (unsigned i = 0; i < rt.n; ++i) {
        Lit const nl = nth(needle_of[i], NMAX);
        char op[96];
        std::snprintf(op, sizeof op, "%s@constant-evaluation", names[i]);
        char const* sit = hl.len == 0 ? "h-empty" : (nl.len == 0 ? "n-empty" : (nl.len > hl.len ? "n-longer" : "n-fits"));
        vf::crumb(SUBJ, op, sit, "h=%s n=%s cell=%u", show(hl).c_str(), show(nl).c_str(), i);
        vf::cover(op, vf::mix(vf::mix(h, i), sizeof(Ch)), hl.len + nl.len > 0);
        vf::eq_int("ret-vs-std", ce.v[i], cs.v[i]);
        vf::eq_int("ret-vs-run-time", ce.v[i], rt.v[i]);
    }
}
} // namespace

VF_MAIN("C08", "C08_ce_" VF_CHAR_NAME, spec, run_case)
