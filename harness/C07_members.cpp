// C07 - the trivial / non-trivial matrix of special members of the contained type.
// etl::variant (and optional / expected, which are built on it) selects bit-wise or hand-written copy/move
// construction, assignment and destruction from type traits of the alternatives; std::variant assigns trivially only
// if construction, assignment AND destruction of every alternative are trivial.  SM<M,F> is a payload type whose
// copy ctor (bit 0), move ctor (bit 1), copy assignment (bit 2), move assignment (bit 3) and destructor (bit 4) are
// independently either defaulted (trivial) or user-provided; the user-provided ones count their calls in a ledger
// that lives OUTSIDE the object (static side table per family F), so the type stays trivially assignable where the
// mask says so.  The same SM types are put into the std owner and the etl owner; every operation is run on both and
// the ledger deltas (which special members ran, how often) plus index/value are compared.
//   strict operations (the standard fixes the special-member calls, all payload members are noexcept): copy/move
//   assignment between every (from,to) pair, self copy assignment, emplace, copy/move construction, reset/nullopt,
//   destruction;  net-only operations (only constructions minus destructions and the final state are compared):
//   converting / value assignment and swap.
#include "vf.hpp"
#include "vf_contract.hpp"
#include "vf_tracked.hpp"

#include "vf_c07.hpp"

#if __cplusplus <= 202002L
    #error "this unit needs -std=c++23 (std::expected)"
#endif

namespace {
using namespace c07;

struct Ledger {
    long value_ctor = 0, copy_ctor = 0, move_ctor = 0, copy_assign = 0, move_assign = 0, dtor = 0;
};
constexpr int kFamilies = 12;
Ledger g_led[kFamilies];

enum : unsigned { kCC = 1, kMC = 2, kCA = 4, kMA = 8, kD = 16 };

template <unsigned M, int F>
struct SM {
    static constexpr unsigned mask = M;
    static constexpr int family    = F;
    int v;
    SM() noexcept : v(0) { ++g_led[F].value_ctor; }
    SM(int x) noexcept : v(x) { ++g_led[F].value_ctor; } // NOLINT implicit on purpose
    SM(SM const&) requires((M & kCC) == 0) = default;
    SM(SM const& o) noexcept requires((M & kCC) != 0) : v(o.v) { ++g_led[F].copy_ctor; }
    SM(SM&&) requires((M & kMC) == 0) = default;
    SM(SM&& o) noexcept requires((M & kMC) != 0) : v(o.v) { ++g_led[F].move_ctor; }
    auto operator=(SM const&) -> SM& requires((M & kCA) == 0) = default;
    auto operator=(SM const& o) noexcept -> SM& requires((M & kCA) != 0)
    {
        v = o.v;
        ++g_led[F].copy_assign;
        return *this;
    }
    auto operator=(SM&&) -> SM& requires((M & kMA) == 0) = default;
    auto operator=(SM&& o) noexcept -> SM& requires((M & kMA) != 0)
    {
        v = o.v;
        ++g_led[F].move_assign;
        return *this;
    }
    ~SM() requires((M & kD) == 0) = default;
    ~SM() { ++g_led[F].dtor; }
    friend bool operator==(SM const& a, SM const& b) { return a.v == b.v; }
};
template <unsigned M, int F>
long long enc(SM<M, F> const& s)
{
    return s.v;
}
using c07::enc;

// the matrix really is what the masks say
static_assert(std::is_trivially_copy_assignable_v<SM<kCC, 0>> && !std::is_trivially_copy_constructible_v<SM<kCC, 0>>);
static_assert(std::is_trivially_copy_assignable_v<SM<kD, 0>> && !std::is_trivially_destructible_v<SM<kD, 0>>);
static_assert(std::is_trivially_move_assignable_v<SM<kMC, 0>> && !std::is_trivially_move_constructible_v<SM<kMC, 0>>);
static_assert(!std::is_trivially_copy_assignable_v<SM<kCA | kMA, 0>> && std::is_trivially_copy_constructible_v<SM<kCA | kMA, 0>> && std::is_trivially_destructible_v<SM<kCA | kMA, 0>>);
static_assert(std::is_trivially_copyable_v<SM<0, 0>>);
static_assert(std::is_nothrow_move_constructible_v<SM<kCC | kD, 0>> && std::is_nothrow_copy_constructible_v<SM<kCC | kD, 0>>);

// ---------------------------------------------------------------- ledger observation
struct Snap {
    Ledger l[kFamilies];
};
Snap snap()
{
    Snap s;
    for (int f = 0; f < kFamilies; ++f) { s.l[f] = g_led[f]; }
    return s;
}
char const* item_name(int f, int k)
{
    static std::string names[kFamilies][7];
    static constexpr char const* kn[7] = {"value-ctor calls", "copy-ctor calls", "move-ctor calls", "copy-assign calls", "move-assign calls", "dtor calls", "constructions-minus-destructions"};
    if (names[f][k].empty()) { names[f][k] = "payload#" + std::to_string(f) + " " + kn[k]; }
    return names[f][k].c_str();
}
// strict: every counter; otherwise only constructions minus destructions
void obs_delta(Obs& r, Snap const& a, Snap const& b, bool strict, int f_lo, int f_hi)
{
    for (int f = f_lo; f < f_hi; ++f) {
        Ledger const &x = a.l[f], &y = b.l[f];
        if (strict) {
            r.i(item_name(f, 0), y.value_ctor - x.value_ctor);
            r.i(item_name(f, 1), y.copy_ctor - x.copy_ctor);
            r.i(item_name(f, 2), y.move_ctor - x.move_ctor);
            r.i(item_name(f, 3), y.copy_assign - x.copy_assign);
            r.i(item_name(f, 4), y.move_assign - x.move_assign);
            r.i(item_name(f, 5), y.dtor - x.dtor);
        }
    }
}
// constructions minus destructions, meaningful only for families that log all of them
template <typename T>
void obs_net(Obs& r, Snap const& a, Snap const& b)
{
    if constexpr ((T::mask & (kCC | kMC | kD)) == (kCC | kMC | kD)) {
        constexpr int f = T::family;
        Ledger const &x = a.l[f], &y = b.l[f];
        r.i(item_name(f, 6), (y.value_ctor + y.copy_ctor + y.move_ctor - y.dtor) - (x.value_ctor + x.copy_ctor + x.move_ctor - x.dtor));
    }
}
template <typename T>
void obs_net_any(Obs&, Snap const&, Snap const&) requires(!requires { T::mask; })
{
}
template <typename T>
void obs_net_any(Obs& r, Snap const& a, Snap const& b) requires requires { T::mask; }
{
    obs_net<T>(r, a, b);
}

template <typename... Ts>
struct TL {
    static constexpr std::size_t size = sizeof...(Ts);
};
template <std::size_t I, typename L>
struct At;
template <std::size_t I, typename... Ts>
struct At<I, TL<Ts...>> {
    using type = std::tuple_element_t<I, std::tuple<Ts...>>;
};

// ================================================================ variant
enum VOp { vCopyAssign, vMoveAssign, vSelfCopyAssign, vEmplace, vCopyCtor, vMoveCtor, vConvLv, vConvRv, vSwap, kVOps };
constexpr char const* kVOpName[kVOps] = {"operator=(variant const&)", "operator=(variant&&)", "operator=(self const&)", "emplace<I>(args)", "ctor(variant const&)",
    "ctor(variant&&)", "operator=(T const&) converting", "operator=(T&&) converting", "swap(a,b)"};
constexpr bool kVStrict[kVOps] = {true, true, true, true, true, true, false, false, false};

template <typename NS, typename L>
struct VarM;
template <typename NS, typename... Ts>
struct VarM<NS, TL<Ts...>> {
    using L = TL<Ts...>;
    using V = typename NS::template variant<Ts...>;
    static constexpr std::size_t N = sizeof...(Ts);
    template <std::size_t I = 0>
    static V mk(std::size_t j, int k)
    {
        if constexpr (I + 1 < N) {
            if (j != I) { return mk<I + 1>(j, k); }
        }
        return V(NS::template ipi<I>, k);
    }
    static void obs_var(Obs& r, char const* ni, char const* nv, V const& v)
    {
        r.i(ni, (long long)v.index());
        long long e = kAbsent;
        with_index<N>(v.index(), [&](auto I) {
            auto const* p = NS::template get_if<decltype(I)::value>(&v);
            e             = p ? enc(*p) : kAbsent;
        });
        r.i(nv, e);
    }
    static void net_all(Obs& r, Snap const& a, Snap const& b) { (obs_net_any<Ts>(r, a, b), ...); }

    static void run(Obs& r, VOp op, std::size_t i, std::size_t j, int f_lo, int f_hi)
    {
        Snap s0 = snap();
        {
            V a = mk(i, 1);
            V b = mk(j, 2);
            Snap s1 = snap();
            switch (op) {
            case vCopyAssign: {
                V const& cb = b;
                a           = cb;
                break;
            }
            case vMoveAssign: a = static_cast<V&&>(b); break;
            case vSelfCopyAssign: {
                V const& ca = a;
                a           = ca;
                break;
            }
            case vEmplace:
                with_index<N>(j, [&](auto I) { a.template emplace<decltype(I)::value>(5); });
                break;
            case vCopyCtor: {
                V c(a);
                obs_var(r, "copy.index", "copy.value", c);
                Snap s2 = snap();
                obs_delta(r, s1, s2, true, f_lo, f_hi);
                break;
            }
            case vMoveCtor: {
                V c(static_cast<V&&>(a));
                obs_var(r, "moved-to.index", "moved-to.value", c);
                Snap s2 = snap();
                obs_delta(r, s1, s2, true, f_lo, f_hi);
                break;
            }
            case vConvLv:
                with_index<N>(j, [&](auto I) {
                    using T   = typename At<decltype(I)::value, L>::type;
                    T const t(7);
                    a = t;
                });
                break;
            case vConvRv:
                with_index<N>(j, [&](auto I) {
                    using T = typename At<decltype(I)::value, L>::type;
                    T t(7);
                    a = static_cast<T&&>(t);
                });
                break;
            default: NS::adl_swap(a, b); break;
            }
            Snap s3 = snap();
            obs_var(r, "a.index", "a.value", a);
            obs_var(r, "b.index", "b.value", b);
            if (op != vConvLv && op != vConvRv) { obs_delta(r, s1, s3, kVStrict[op], f_lo, f_hi); } // (the converting forms construct and destroy their argument inside the window)
            if (op == vSwap) { net_all(r, s1, s3); }
        }
        Snap s4 = snap();
        // whole life cycle incl. destruction of every object
        obs_delta(r, s0, s4, kVStrict[op], f_lo, f_hi);
        net_all(r, s0, s4);
    }
};
template <typename L>
void var_cells(char const* subj, int f_lo, int f_hi)
{
    constexpr std::size_t N = L::size;
    for (int op = 0; op < kVOps; ++op) {
        for (std::size_t i = 0; i < N; ++i) {
            for (std::size_t j = 0; j < N; ++j) {
                char sit[64];
                std::snprintf(sit, sizeof sit, "from-index-%zu,to-index-%zu", i, j);
                vf::crumb(subj, kVOpName[op], sit, "a holds alternative %zu (value 1), b / argument is alternative %zu (value 2)", i, j);
                Obs so, eo;
                VarM<Std, L>::run(so, (VOp)op, i, j, f_lo, f_hi);
                VarM<Etl, L>::run(eo, (VOp)op, i, j, f_lo, f_hi);
                vf::cover("special-member matrix: variant", vf::mix(vf::fnv(subj), (op * N + i) * N + j), true);
                compare(eo, so);
            }
        }
    }
}

// ================================================================ optional
enum OOp { oCopyAssign, oMoveAssign, oSelfCopyAssign, oEmplace, oReset, oAssignNullopt, oCopyCtor, oMoveCtor, oValueLv, oValueRv, oSwapMember, oSwapAdl, kOOps };
constexpr char const* kOOpName[kOOps] = {"operator=(optional const&)", "operator=(optional&&)", "operator=(self const&)", "emplace(args)", "reset()", "operator=(nullopt)",
    "ctor(optional const&)", "ctor(optional&&)", "operator=(T const&)", "operator=(T&&)", "swap(other)", "swap(a,b)"};
constexpr bool kOStrict[kOOps] = {true, true, true, true, true, true, true, true, false, false, false, false};

template <typename NS, typename T>
struct OptM {
    using O = typename NS::template optional<T>;
    static void obs_opt(Obs& r, char const* nh, char const* nv, O const& o)
    {
        r.b(nh, o.has_value());
        r.i(nv, o.has_value() ? enc(*o) : kAbsent);
    }
    static void run(Obs& r, OOp op, bool ea, bool eb)
    {
        constexpr int f = T::family;
        Snap s0         = snap();
        {
            O a = ea ? O(NS::in_place, 1) : O();
            O b = eb ? O(NS::in_place, 2) : O();
            Snap s1 = snap();
            switch (op) {
            case oCopyAssign: {
                O const& cb = b;
                a           = cb;
                break;
            }
            case oMoveAssign: a = static_cast<O&&>(b); break;
            case oSelfCopyAssign: {
                O const& ca = a;
                a           = ca;
                break;
            }
            case oEmplace: a.emplace(5); break;
            case oReset: a.reset(); break;
            case oAssignNullopt: a = NS::nullopt; break;
            case oCopyCtor: {
                O c(a);
                obs_opt(r, "copy.has_value", "copy.value", c);
                obs_delta(r, s1, snap(), true, f, f + 1);
                break;
            }
            case oMoveCtor: {
                O c(static_cast<O&&>(a));
                obs_opt(r, "moved-to.has_value", "moved-to.value", c);
                obs_delta(r, s1, snap(), true, f, f + 1);
                break;
            }
            case oValueLv: {
                T const t(7);
                a = t;
                break;
            }
            case oValueRv: {
                T t(7);
                a = static_cast<T&&>(t);
                break;
            }
            case oSwapMember: a.swap(b); break;
            default: NS::adl_swap(a, b); break;
            }
            Snap s3 = snap();
            obs_opt(r, "a.has_value", "a.value", a);
            obs_opt(r, "b.has_value", "b.value", b);
            if (op != oValueLv && op != oValueRv) { obs_delta(r, s1, s3, kOStrict[op], f, f + 1); }
            if (op == oSwapMember || op == oSwapAdl) { obs_net<T>(r, s1, s3); }
        }
        Snap s4 = snap();
        obs_delta(r, s0, s4, kOStrict[op], f, f + 1);
        obs_net<T>(r, s0, s4);
    }
};
template <typename T>
void opt_cells(char const* subj)
{
    for (int op = 0; op < kOOps; ++op) {
        for (int ea = 0; ea < 2; ++ea) {
            for (int eb = 0; eb < 2; ++eb) {
                char sit[64];
                std::snprintf(sit, sizeof sit, "%s,other-%s", ea ? "engaged" : "empty", eb ? "engaged" : "empty");
                vf::crumb(subj, kOOpName[op], sit, "-");
                Obs so, eo;
                OptM<Std, T>::run(so, (OOp)op, ea != 0, eb != 0);
                OptM<Etl, T>::run(eo, (OOp)op, ea != 0, eb != 0);
                vf::cover("special-member matrix: optional", vf::mix(vf::fnv(subj), (op * 2 + ea) * 2 + eb), true);
                compare(eo, so);
            }
        }
    }
}

// ================================================================ expected
enum EOp { eCopyAssign, eMoveAssign, eSelfCopyAssign, eEmplace, eCopyCtor, eMoveCtor, eSwap, kEOps };
constexpr char const* kEOpName[kEOps] = {"operator=(expected const&)", "operator=(expected&&)", "operator=(self const&)", "emplace(args)", "ctor(expected const&)", "ctor(expected&&)", "swap(a,b)"};
constexpr bool kEStrict[kEOps] = {true, true, true, true, true, true, false};

template <typename NS, typename T, typename E>
struct ExpM {
    using X = typename NS::template expected<T, E>;
    static void obs_exp(Obs& r, char const* nh, char const* nv, char const* ne, X const& o)
    {
        r.b(nh, o.has_value());
        r.i(nv, o.has_value() ? enc(*o) : kAbsent);
        r.i(ne, o.has_value() ? kAbsent : enc(o.error()));
    }
    static void run(Obs& r, EOp op, bool ha, bool hb, int f_lo, int f_hi)
    {
        Snap s0 = snap();
        {
            X a = ha ? X(NS::in_place, 1) : X(NS::unexpect, 1);
            X b = hb ? X(NS::in_place, 2) : X(NS::unexpect, 2);
            Snap s1 = snap();
            switch (op) {
            case eCopyAssign: {
                X const& cb = b;
                a           = cb;
                break;
            }
            case eMoveAssign: a = static_cast<X&&>(b); break;
            case eSelfCopyAssign: {
                X const& ca = a;
                a           = ca;
                break;
            }
            case eEmplace: a.emplace(5); break;
            case eCopyCtor: {
                X c(a);
                obs_exp(r, "copy.has_value", "copy.value", "copy.error", c);
                obs_delta(r, s1, snap(), true, f_lo, f_hi);
                break;
            }
            case eMoveCtor: {
                X c(static_cast<X&&>(a));
                obs_exp(r, "moved-to.has_value", "moved-to.value", "moved-to.error", c);
                obs_delta(r, s1, snap(), true, f_lo, f_hi);
                break;
            }
            default: NS::adl_swap(a, b); break;
            }
            Snap s3 = snap();
            obs_exp(r, "a.has_value", "a.value", "a.error", a);
            obs_exp(r, "b.has_value", "b.value", "b.error", b);
            obs_delta(r, s1, s3, kEStrict[op], f_lo, f_hi);
            if (op == eSwap) {
                obs_net_any<T>(r, s1, s3);
                obs_net_any<E>(r, s1, s3);
            }
        }
        Snap s4 = snap();
        obs_delta(r, s0, s4, kEStrict[op], f_lo, f_hi);
        obs_net_any<T>(r, s0, s4);
        obs_net_any<E>(r, s0, s4);
    }
};
template <typename T, typename E>
void exp_cells(char const* subj, int f_lo, int f_hi)
{
    for (int op = 0; op < kEOps; ++op) {
        for (int ha = 0; ha < 2; ++ha) {
            for (int hb = 0; hb < 2; ++hb) {
                char sit[64];
                std::snprintf(sit, sizeof sit, "%s,other-%s", ha ? "has-value" : "has-error", hb ? "has-value" : "has-error");
                vf::crumb(subj, kEOpName[op], sit, "-");
                Obs so, eo;
                ExpM<Std, T, E>::run(so, (EOp)op, ha != 0, hb != 0, f_lo, f_hi);
                ExpM<Etl, T, E>::run(eo, (EOp)op, ha != 0, hb != 0, f_lo, f_hi);
                vf::cover("special-member matrix: expected", vf::mix(vf::fnv(subj), (op * 2 + ha) * 2 + hb), true);
                compare(eo, so);
            }
        }
    }
}

// payload types: name says which special members are user-provided (the others are trivial)
using CopyCtorOnly  = SM<kCC, 0>;
using DtorOnly      = SM<kD, 1>;
using MoveCtorOnly  = SM<kMC, 2>;
using AssignOnly    = SM<kCA | kMA, 3>;
using CtorsDtor     = SM<kCC | kMC | kD, 4>; // the usual "count live instances" instrument: assignments trivial
using AllUser       = SM<kCC | kMC | kCA | kMA | kD, 5>;
using AllTrivial    = SM<0, 6>;
using CopyCtorDtor  = SM<kCC | kD, 7>; // shape of tests/variant/variant2.t.cpp non_trivial
using CopyAssignOnly = SM<kCA, 8>;
using MoveAssignOnly = SM<kMA, 9>;
using CopyOnlyAll   = SM<kCC | kCA | kD, 10>;

void run_all()
{
    for (Ledger& l : g_led) { l = Ledger{}; }
    var_cells<TL<CopyCtorOnly, DtorOnly, int>>("variant<copy-ctor-only,dtor-only,int>", 0, 2);
    var_cells<TL<MoveCtorOnly, AssignOnly, int>>("variant<move-ctor-only,assign-only,int>", 2, 4);
    var_cells<TL<CtorsDtor, AllUser, AllTrivial>>("variant<ctors+dtor,all-user,all-trivial>", 4, 7);
    var_cells<TL<CopyCtorDtor, char>>("variant<copy-ctor+dtor,char>", 7, 8);
    var_cells<TL<CopyAssignOnly, MoveAssignOnly, CopyOnlyAll>>("variant<copy-assign-only,move-assign-only,copy-ctor+copy-assign+dtor>", 8, 11);
    opt_cells<CopyCtorOnly>("optional<copy-ctor-only>");
    opt_cells<DtorOnly>("optional<dtor-only>");
    opt_cells<MoveCtorOnly>("optional<move-ctor-only>");
    opt_cells<AssignOnly>("optional<assign-only>");
    opt_cells<CtorsDtor>("optional<ctors+dtor>");
    opt_cells<AllUser>("optional<all-user>");
    opt_cells<AllTrivial>("optional<all-trivial>");
    opt_cells<CopyCtorDtor>("optional<copy-ctor+dtor>");
    opt_cells<CopyAssignOnly>("optional<copy-assign-only>");
    opt_cells<MoveAssignOnly>("optional<move-assign-only>");
    exp_cells<CopyCtorDtor, CopyCtorOnly>("expected<copy-ctor+dtor,copy-ctor-only>", 0, 8);
    exp_cells<DtorOnly, MoveCtorOnly>("expected<dtor-only,move-ctor-only>", 0, 8);
    exp_cells<CtorsDtor, AllUser>("expected<ctors+dtor,all-user>", 0, 8);
    exp_cells<AssignOnly, CtorsDtor>("expected<assign-only,ctors+dtor>", 0, 8);
    vf::sample("special-member matrix", "payload types with each of copy ctor / move ctor / copy assignment / move assignment / destructor independently trivial or user-provided (call counts kept in a static side table); "
                                        "variant: 9 operations x every (from,to) alternative pair; optional: 12 operations x engaged/empty^2; expected: 7 operations x value/error^2; ledger deltas compared with the std owner of the same payload type");
}

vf::Spec spec(vf::Tier)
{
    vf::Spec s;
    s.n_enum     = 1;
    s.n_random   = 0;
    s.batch      = 1;
    s.exhaustive = true;
    return s;
}
void run_case(vf::Case&) { run_all(); }
} // namespace

VF_MAIN("C07", "C07_members", spec, run_case)
