// C13_buf.cpp - buffers: the complete char_traits interface, copies WITHIN one buffer (overlap in both directions) and
// writers into destinations of EXACTLY the required size (and one less / one more).
// -DC13_GRP=
//   0 char_traits<C> for char, wchar_t, char8_t, char16_t, char32_t: assign(c,c), assign(p,n,c), eq, lt, move (every
//     (source, destination, count) inside an 8-unit buffer: overlap to the left AND to the right), copy, compare / find on
//     unterminated arrays of exactly n units, length on arrays of exactly len+1 units, to_char_type, to_int_type,
//     eq_int_type, eof, not_eof; alphabet with top-bit units ('a', 0xE9, top bit set)
//   1 overlapping ranges inside one buffer of char / int / a non-trivially-copyable struct: copy, copy_n, move (destination
//     before the source), copy_backward, move_backward (destination behind), shift_left, shift_right, rotate, reverse,
//     wmemmove (both directions), wmemcpy; inplace_string<8> insert / erase at every position
//   2 writers with an exact-size destination: the destination array really ends after `cap` elements (template dispatch on
//     the size), cap in {0, need-1, need, need+1}: strings::from_integer (terminated and unterminated), to_chars, to_string,
//     strcpy / strncpy / strcat / strncat, char_traits::copy / assign, wmemset, copy / copy_n / copy_backward / move /
//     fill_n / generate_n / transform / reverse_copy / rotate_copy / remove_copy / unique_copy / copy_if / partial_sum /
//     merge / set_union into arrays of exactly the result size, inplace_string<4> filled to exactly its capacity.
//     An off-by-one store is then outside the array: rejected by the constant evaluator (not-constant-evaluable record),
//     a sanitizer report in the asan flavour, or a difference in the returned error / length.
#include "vf.hpp"
#include "vf_contract.hpp"

#include "vf_c13.hpp"

#include <etl/algorithm.hpp>
#include <etl/charconv.hpp>
#include <etl/cstring.hpp>
#include <etl/cwchar.hpp>
#include <etl/numeric.hpp>
#include <etl/string.hpp>
#include <etl/strings.hpp>

#include <climits>

#ifndef C13_GRP
    #define C13_GRP 0
#endif

namespace {
using namespace c13;

// ------------------------------------------------------------------ exact-size storage + size dispatch
// N elements and not one more; N == 0 hands out the one-past-the-end pointer of a 1-element array (no element may be
// touched through it)
template <typename T, std::size_t N>
struct Exact {
    T s[N ? N : 1]{};
    constexpr T* p() { return N ? s : s + 1; }
    constexpr T const* p() const { return N ? s : s + 1; }
};
constexpr int kMaxExact = 24;
#define C13_SIZES(X) X(0) X(1) X(2) X(3) X(4) X(5) X(6) X(7) X(8) X(9) X(10) X(11) X(12) X(13) X(14) X(15) X(16) X(17) X(18) X(19) X(20) X(21) X(22) X(23) X(24)
template <typename R, typename Fn>
constexpr R with_size(int n, Fn&& fn)
{
    switch (n) {
#define C13_CASE(K)                                                                                                    \
    case K: return fn.template operator()<K>();
        C13_SIZES(C13_CASE)
#undef C13_CASE
    default: return R{};
    }
}
struct Acc {
    std::uint64_t h = 0xcbf29ce484222325ull;
    constexpr void add(long long v) { h = (h ^ static_cast<std::uint64_t>(v)) * 0x100000001b3ull + 0x9E37ull; }
    template <typename It>
    constexpr void range(It f, It l)
    {
        add(0x7777);
        for (; f != l; ++f) { add(static_cast<long long>(*f)); }
    }
};
using D2 = Digest<2>;
constexpr char const* ncls(int n) { return n == 0 ? "n=0" : n == 1 ? "n=1" : "n>=2"; }

// =================================================================== group 0: char_traits
struct CTArg {
    unsigned x[8];
    unsigned y[8];
    int n;
    int s;
    int d;
    unsigned c;
};
template <typename C>
constexpr unsigned top_unit()
{
    return (1u << (sizeof(C) * 8 - 1)) | 1u; // top bit set (negative for char / wchar_t on this platform)
}
template <typename C>
constexpr C cu(unsigned u)
{
    return static_cast<C>(u); // modular
}
template <typename C>
constexpr char const* cname()
{
    if constexpr (std::is_same_v<C, char>) { return "char"; }
    else if constexpr (std::is_same_v<C, wchar_t>) { return "wchar_t"; }
    else if constexpr (std::is_same_v<C, char8_t>) { return "char8_t"; }
    else if constexpr (std::is_same_v<C, char16_t>) { return "char16_t"; }
    else { return "char32_t"; }
}
// all pairs of n-unit arrays over {a, 0xE9, top}, n = 0..3
template <typename C>
constexpr auto ct_pairs()
{
    unsigned const al[3] = {'a', 0xE9, top_unit<C>()};
    std::array<CTArg, 1 + 9 + 81 + 729> t{};
    std::size_t o = 0;
    int pw        = 1;
    for (int n = 0; n <= 3; ++n) {
        for (int i = 0; i < pw; ++i) {
            for (int j = 0; j < pw; ++j) {
                CTArg p{};
                int a = i, b = j;
                for (int k = 0; k < n; ++k) {
                    p.x[k] = al[a % 3];
                    p.y[k] = al[b % 3];
                    a /= 3;
                    b /= 3;
                }
                p.n    = n;
                p.c    = al[(i + j) % 3];
                t[o++] = p;
            }
        }
        pw *= 3;
    }
    return t;
}
// every (source offset, destination offset, count) inside an 8-unit buffer
constexpr auto move_rows()
{
    std::array<CTArg, 285> t{};
    std::size_t o = 0;
    for (int cnt = 0; cnt <= 8; ++cnt) {
        for (int s = 0; s + cnt <= 8; ++s) {
            for (int d = 0; d + cnt <= 8; ++d) {
                CTArg p{};
                for (int k = 0; k < 8; ++k) { p.x[k] = static_cast<unsigned>('a' + k); }
                p.n    = cnt;
                p.s    = s;
                p.d    = d;
                t[o++] = p;
            }
        }
    }
    return t;
}
constexpr unsigned scalar_vals[] = {0, 'a', 0x7F, 0x80, 0xE9, 0xFF, 0x100, 0xFFFF, 0x10000, 0x7FFFFFFFu, 0x80000000u, 0xFFFFFFFFu};
constexpr auto scalar_rows()
{
    std::array<CTArg, 144> t{};
    for (int i = 0; i < 12; ++i) {
        for (int j = 0; j < 12; ++j) {
            t[static_cast<std::size_t>(i * 12 + j)].x[0] = scalar_vals[i];
            t[static_cast<std::size_t>(i * 12 + j)].y[0] = scalar_vals[j];
        }
    }
    return t;
}
#if C13_GRP == 0
inline constexpr auto tabMove   = move_rows();
inline constexpr auto tabScalar = scalar_rows();
template <typename C>
inline constexpr auto tabPairs = ct_pairs<C>();
#endif

inline char const* overlap_class(int s, int d, int cnt)
{
    if (cnt == 0) { return "count=0"; }
    if (s == d) { return "same-position"; }
    if (d > s && d < s + cnt) { return "overlap,destination-behind-source"; }
    if (s > d && s < d + cnt) { return "overlap,destination-before-source"; }
    return d > s ? "disjoint,destination-behind" : "disjoint,destination-before";
}
struct ClsMove {
    static char const* sit(CTArg const& p) { return overlap_class(p.s, p.d, p.n); }
    static std::string show(CTArg const& p) { return "src+" + std::to_string(p.s) + " -> dst+" + std::to_string(p.d) + ", count " + std::to_string(p.n); }
    static std::uint64_t hash(CTArg const& p) { return vf::mix(vf::mix((std::uint64_t)p.s, (std::uint64_t)p.d), (std::uint64_t)p.n); }
    static void const* arg0(CTArg const&) { return nullptr; }
};
template <typename C>
struct ClsPairsC {
    static char const* sit(CTArg const& p)
    {
        static char buf[64];
        bool top = false, eq = true;
        for (int i = 0; i < p.n; ++i) {
            top |= p.x[i] >= 0x80 || p.y[i] >= 0x80;
            eq &= p.x[i] == p.y[i];
        }
        std::snprintf(buf, sizeof buf, "%s,%s,%s", ncls(p.n), eq ? "equal" : "differ", top ? "top-bit-units" : "ascii");
        return buf;
    }
    static std::string show(CTArg const& p)
    {
        std::string s = "{";
        for (int i = 0; i < p.n; ++i) { s += (i ? "," : "") + std::to_string(p.x[i]); }
        s += "} {";
        for (int i = 0; i < p.n; ++i) { s += (i ? "," : "") + std::to_string(p.y[i]); }
        return s + "} c=" + std::to_string(p.c);
    }
    static std::uint64_t hash(CTArg const& p) { return vf::fnv_bytes(&p, sizeof p); }
    static void const* arg0(CTArg const&) { return nullptr; }
};
struct ClsScalar {
    static char const* cls(unsigned v) { return v == 0 ? "0" : v < 0x80 ? "ascii" : v <= 0xFF ? "top-bit-byte" : v == 0xFFFFFFFFu ? "all-ones" : v >= 0x80000000u ? "bit31" : "wide"; }
    static char const* sit(CTArg const& p)
    {
        static char buf[48];
        std::snprintf(buf, sizeof buf, "%s,%s", cls(p.x[0]), cls(p.y[0]));
        return buf;
    }
    static std::string show(CTArg const& p) { return std::to_string(p.x[0]) + ", " + std::to_string(p.y[0]); }
    static std::uint64_t hash(CTArg const& p) { return vf::mix(p.x[0], p.y[0]); }
    static void const* arg0(CTArg const&) { return nullptr; }
};

template <typename C>
struct F_ct_move {
    static constexpr char const* name = "char_traits::move";
    constexpr auto operator()(CTArg const& p) const
    {
        using Tr = etl::char_traits<C>;
        C buf[8]{};
        for (int i = 0; i < 8; ++i) { buf[i] = cu<C>(p.x[i]); }
        C* r = Tr::move(buf + p.d, buf + p.s, static_cast<etl::size_t>(p.n));
        Acc acc;
        acc.range(buf, buf + 8);
        return D2{{acc.h, static_cast<std::uint64_t>(r - buf)}};
    }
};
template <typename C>
struct F_ct_counted {
    static constexpr char const* name = "char_traits::compare/find/copy/assign/length";
    constexpr auto operator()(CTArg const& p) const
    {
        using Tr = etl::char_traits<C>;
        return with_size<D2>(p.n, [&]<std::size_t N>() {
            Exact<C, N> a;
            Exact<C, N> b;
            Exact<C, N> d1;
            Exact<C, N> d2;
            Exact<C, N + 1> z; // terminated copy of a for length()
            for (std::size_t i = 0; i < N; ++i) {
                a.p()[i] = cu<C>(p.x[i]);
                b.p()[i] = cu<C>(p.y[i]);
                z.p()[i] = cu<C>(p.x[i]);
            }
            z.p()[N] = C{};
            Acc acc;
            acc.add(Tr::compare(a.p(), b.p(), N));
            acc.add(Tr::compare(b.p(), a.p(), N));
            C const tok  = cu<C>(p.c);
            auto const f = Tr::find(a.p(), N, tok);
            acc.add(f == nullptr ? -1 : f - a.p());
            auto const g = Tr::find(b.p(), N, cu<C>('z'));
            acc.add(g == nullptr ? -1 : g - b.p());
            acc.add(Tr::copy(d1.p(), a.p(), N) - d1.p());
            acc.range(d1.p(), d1.p() + N);
            acc.add(Tr::assign(d2.p(), N, tok) - d2.p());
            acc.range(d2.p(), d2.p() + N);
            acc.add(static_cast<long long>(Tr::length(z.p())));
            return D2{{acc.h, N}};
        });
    }
};
template <typename C>
struct F_ct_scalar {
    static constexpr char const* name = "char_traits::assign/eq/lt/to_char_type/to_int_type/eq_int_type/eof/not_eof";
    constexpr auto operator()(CTArg const& p) const
    {
        using Tr = etl::char_traits<C>;
        using IT = typename Tr::int_type;
        C const a = cu<C>(p.x[0]);
        C const b = cu<C>(p.y[0]);
        IT const i = static_cast<IT>(p.x[0]);
        IT const j = static_cast<IT>(p.y[0]);
        C t{};
        Tr::assign(t, b);
        Acc acc;
        acc.add(static_cast<long long>(t));
        acc.add(Tr::eq(a, b) ? 1 : 0);
        acc.add(Tr::lt(a, b) ? 1 : 0);
        acc.add(Tr::lt(b, a) ? 1 : 0);
        acc.add(static_cast<long long>(Tr::to_char_type(i)));
        acc.add(static_cast<long long>(Tr::to_int_type(a)));
        acc.add(Tr::eq_int_type(i, j) ? 1 : 0);
        acc.add(Tr::eq_int_type(Tr::to_int_type(a), Tr::eof()) ? 1 : 0);
        acc.add(static_cast<long long>(Tr::eof()));
        acc.add(static_cast<long long>(Tr::not_eof(i)));
        acc.add(static_cast<long long>(Tr::not_eof(Tr::eof())));
        return D2{{acc.h, 0}};
    }
};

// =================================================================== group 1: overlap inside one buffer
struct NT { // not trivially copyable: forces the element-wise branch of any type-keyed dispatch
    int v{};
    constexpr NT() = default;
    constexpr NT(int x) : v(x) { }
    constexpr NT(NT const& o) : v(o.v) { }
    constexpr NT& operator=(NT const& o)
    {
        v = o.v;
        return *this;
    }
    constexpr explicit operator long long() const { return v; }
};
template <typename E>
constexpr char const* oname()
{
    if constexpr (std::is_same_v<E, char>) { return "char"; }
    else if constexpr (std::is_same_v<E, int>) { return "int"; }
    else if constexpr (std::is_same_v<E, wchar_t>) { return "wchar_t"; }
    else { return "non-trivial struct"; }
}
template <typename E>
constexpr void fill_iota(E (&b)[8])
{
    for (int i = 0; i < 8; ++i) { b[i] = E(static_cast<int>('a') + i); }
}
// the copy family: each algorithm only where its precondition on the destination holds
template <typename E>
struct F_ov_forward {
    static constexpr char const* name = "copy/copy_n/move (same buffer, destination not inside the source)";
    static constexpr bool dom(CTArg const& p) { return p.n == 0 || p.d < p.s || p.d >= p.s + p.n; }
    static bool in_domain(CTArg const& p) { return dom(p); }
    constexpr auto operator()(CTArg const& p) const
    {
        if (!dom(p)) { return D2{}; }
        Acc acc;
        E b1[8];
        fill_iota(b1);
        auto r1 = etl::copy(b1 + p.s, b1 + p.s + p.n, b1 + p.d);
        acc.range(b1, b1 + 8);
        E b2[8];
        fill_iota(b2);
        auto r2 = etl::copy_n(b2 + p.s, p.n, b2 + p.d);
        acc.range(b2, b2 + 8);
        E b3[8];
        fill_iota(b3);
        auto r3 = etl::move(b3 + p.s, b3 + p.s + p.n, b3 + p.d);
        acc.range(b3, b3 + 8);
        return D2{{acc.h, static_cast<std::uint64_t>((r1 - b1) * 100 + (r2 - b2) * 10 + (r3 - b3))}};
    }
};
template <typename E>
struct F_ov_backward {
    static constexpr char const* name = "copy_backward/move_backward (same buffer, destination end not inside the source)";
    static constexpr bool dom(CTArg const& p) { return p.n == 0 || p.d + p.n <= p.s || p.d > p.s; }
    static bool in_domain(CTArg const& p) { return dom(p); }
    constexpr auto operator()(CTArg const& p) const
    {
        if (!dom(p)) { return D2{}; }
        Acc acc;
        E b1[8];
        fill_iota(b1);
        auto r1 = etl::copy_backward(b1 + p.s, b1 + p.s + p.n, b1 + p.d + p.n);
        acc.range(b1, b1 + 8);
        E b2[8];
        fill_iota(b2);
        auto r2 = etl::move_backward(b2 + p.s, b2 + p.s + p.n, b2 + p.d + p.n);
        acc.range(b2, b2 + 8);
        return D2{{acc.h, static_cast<std::uint64_t>((r1 - b1) * 10 + (r2 - b2))}};
    }
};
// shift / rotate / reverse: n = s + count is the range length, d the amount / middle (all combinations are valid)
template <typename E>
struct F_ov_shift {
    static constexpr char const* name = "shift_left/shift_right/rotate/reverse";
    constexpr auto operator()(CTArg const& p) const
    {
        int const n = p.s + p.n; // 0..8
        int const k = p.d;       // 0..8
        Acc acc;
        E b1[8];
        fill_iota(b1);
        auto l = etl::shift_left(b1, b1 + n, k);
        acc.range(b1, l); // the tail is valid-but-unspecified
        acc.range(b1 + n, b1 + 8);
        E b2[8];
        fill_iota(b2);
        auto r = etl::shift_right(b2, b2 + n, k);
        acc.range(r, b2 + n);
        acc.range(b2 + n, b2 + 8);
        long long ret = (l - b1) * 10 + (r - b2);
        if (k <= n) {
            E b3[8];
            fill_iota(b3);
            auto m = etl::rotate(b3, b3 + k, b3 + n);
            acc.range(b3, b3 + 8);
            ret = ret * 10 + (m - b3);
        }
        E b4[8];
        fill_iota(b4);
        etl::reverse(b4 + (k <= n ? k : n), b4 + n);
        acc.range(b4, b4 + 8);
        return D2{{acc.h, static_cast<std::uint64_t>(ret)}};
    }
};
struct F_wmemmove {
    static constexpr char const* name = "wmemmove";
    constexpr auto operator()(CTArg const& p) const
    {
        Acc acc;
        wchar_t b1[8];
        fill_iota(b1);
        auto r1 = etl::wmemmove(b1 + p.d, b1 + p.s, static_cast<etl::size_t>(p.n)); // any overlap
        acc.range(b1, b1 + 8);
        return D2{{acc.h, static_cast<std::uint64_t>(r1 - b1)}};
    }
};
struct F_wmemcpy_set {
    static constexpr char const* name = "wmemcpy/wmemset";
    constexpr auto operator()(CTArg const& p) const
    {
        Acc acc;
        long long ret = 0;
        if (p.n == 0 || p.d + p.n <= p.s || p.s + p.n <= p.d) { // wmemcpy: disjoint only
            wchar_t b2[8];
            fill_iota(b2);
            auto r2 = etl::wmemcpy(b2 + p.d, b2 + p.s, static_cast<etl::size_t>(p.n));
            acc.range(b2, b2 + 8);
            ret = (r2 - b2) + 1;
        }
        wchar_t b3[8];
        fill_iota(b3);
        auto r3 = etl::wmemset(b3 + p.d, L'#', static_cast<etl::size_t>(p.n));
        acc.range(b3, b3 + 8);
        return D2{{acc.h, static_cast<std::uint64_t>(ret * 10 + (r3 - b3))}};
    }
};
// inplace_string<8>: "abcdef" cut to length s (0..6), insert "XY" / erase count at position d
struct F_istr_ins_erase {
    static constexpr char const* name = "inplace_string<8> insert/erase (every position)";
    static constexpr bool dom(CTArg const& p) { return p.s <= 6 && p.d <= p.s; }
    static bool in_domain(CTArg const& p) { return dom(p); }
    constexpr auto operator()(CTArg const& p) const
    {
        if (!dom(p)) { return D2{}; }
        using Str = etl::inplace_string<8>;
        char const src[7] = {'a', 'b', 'c', 'd', 'e', 'f', 0};
        Str base{src, static_cast<etl::size_t>(p.s)};
        Acc acc;
        auto dump = [&acc](Str const& x) {
            acc.add(static_cast<long long>(x.size()));
            acc.range(x.begin(), x.end());
            acc.add(x.c_str()[x.size()]);
        };
        Str a = base;
        a.insert(static_cast<etl::size_t>(p.d), Str{"XY"});
        dump(a);
        Str b = base;
        b.insert(static_cast<etl::size_t>(p.d), static_cast<etl::size_t>(p.n > 2 ? 2 : p.n), '#');
        dump(b);
        Str c = base;
        c.erase(static_cast<etl::size_t>(p.d), static_cast<etl::size_t>(p.n));
        dump(c);
        return D2{{acc.h, static_cast<std::uint64_t>(c.size())}};
    }
};
#if C13_GRP == 1
inline constexpr auto tabOv = move_rows();
#endif
struct ClsShift {
    static char const* sit(CTArg const& p)
    {
        static char buf[64];
        int const n = p.s + p.n, k = p.d;
        std::snprintf(buf, sizeof buf, "%s,%s", n == 0 ? "range-empty" : n == 8 ? "range-full" : "range-some", k == 0 ? "k=0" : k < n ? "0<k<n" : k == n ? "k=n" : "k>n");
        return buf;
    }
    static std::string show(CTArg const& p) { return "n=" + std::to_string(p.s + p.n) + " k=" + std::to_string(p.d); }
    static std::uint64_t hash(CTArg const& p) { return vf::mix(vf::mix((std::uint64_t)p.s, (std::uint64_t)p.d), (std::uint64_t)p.n + 99); }
    static void const* arg0(CTArg const&) { return nullptr; }
};

// =================================================================== group 2: exact-size destinations
// ---- integer -> text
struct WArg {
    long long v;
    int base;
    int cap;  // size of the destination array
    int need; // characters (incl. sign) the value needs in this base
};
constexpr int chars_needed(long long v, int base)
{
    int n = v < 0 ? 1 : 0;
    unsigned long long m = v < 0 ? 0ull - static_cast<unsigned long long>(v) : static_cast<unsigned long long>(v);
    do {
        ++n;
        m /= static_cast<unsigned long long>(base);
    } while (m != 0);
    return n;
}
constexpr long long w_values[] = {0, 1, 5, 9, 10, 11, 99, 100, -1, -9, -10, -99, -100, 127, -128, 255, 256, 32767, -32768, 65535, 2147483647LL, -2147483647LL - 1,
    4294967295LL, 9223372036854775807LL, -9223372036854775807LL - 1};
constexpr auto w_table()
{
    constexpr std::size_t NV = sizeof w_values / sizeof w_values[0];
    std::array<WArg, NV * 3 * 6> t{};
    std::size_t o = 0;
    for (long long v : w_values) {
        for (int base : {2, 10, 16}) {
            int const need = chars_needed(v, base);
            for (int cap : {0, need - 1, need, need + 1, need + 2, 1}) { t[o++] = WArg{v, base, cap, need}; }
        }
    }
    return t;
}
struct ClsW {
    static char const* sit(WArg const& p)
    {
        static char buf[80];
        char const* vc = p.v == 0 ? "zero" : (p.v > -10 && p.v < 10) ? "single-digit" : p.v < 0 ? "neg" : "pos";
        int const d    = p.cap - p.need;
        std::snprintf(buf, sizeof buf, "%s,base=%d,%s", vc, p.base, p.cap == 0 ? "cap=0" : d < 0 ? "cap<need" : d == 0 ? "cap=need" : d == 1 ? "cap=need+1" : "cap=need+2");
        return buf;
    }
    static std::string show(WArg const& p) { return std::to_string(p.v) + ", base " + std::to_string(p.base) + ", cap " + std::to_string(p.cap); }
    static std::uint64_t hash(WArg const& p) { return vf::mix(vf::mix((std::uint64_t)p.v, (std::uint64_t)p.base), (std::uint64_t)p.cap); }
    static void const* arg0(WArg const&) { return nullptr; }
};
template <typename Int>
constexpr bool w_dom(WArg const& p)
{
    return p.cap >= 0 && p.cap <= kMaxExact && static_cast<__int128>(p.v) >= static_cast<__int128>(std::numeric_limits<Int>::min())
        && static_cast<__int128>(p.v) <= static_cast<__int128>(std::numeric_limits<Int>::max());
}
template <typename Int, bool Term>
struct F_from_integer {
    static constexpr char const* name = "strings::from_integer";
    static bool in_domain(WArg const& p) { return w_dom<Int>(p); }
    constexpr auto operator()(WArg const& p) const
    {
        if (!w_dom<Int>(p)) { return Digest<3>{}; }
        return with_size<Digest<3>>(p.cap, [&]<std::size_t N>() {
            Exact<char, N> b;
            for (std::size_t i = 0; i < N; ++i) { b.p()[i] = 0x7E; }
            constexpr auto opt = etl::strings::from_integer_options{.terminate_with_null = Term};
            auto const r       = etl::strings::from_integer<Int, opt>(static_cast<Int>(p.v), b.p(), N, p.base);
            Acc acc;
            acc.range(b.p(), b.p() + N);
            // on failure only the error is specified (end / buffer content are not)
            bool const ok = r.error == etl::strings::from_integer_error::none;
            return Digest<3>{{static_cast<std::uint64_t>(r.error), ok ? static_cast<std::uint64_t>(r.end - b.p()) : 99u, ok ? acc.h : 0u}};
        });
    }
};
template <typename Int>
struct F_to_chars_exact {
    static constexpr char const* name = "to_chars";
    static bool in_domain(WArg const& p) { return w_dom<Int>(p); }
    constexpr auto operator()(WArg const& p) const
    {
        if (!w_dom<Int>(p)) { return Digest<3>{}; }
        return with_size<Digest<3>>(p.cap, [&]<std::size_t N>() {
            Exact<char, N> b;
            for (std::size_t i = 0; i < N; ++i) { b.p()[i] = 0x7E; }
            auto const r = etl::to_chars(b.p(), b.p() + N, static_cast<Int>(p.v), p.base);
            Acc acc;
            bool const ok = r.ec == etl::errc{};
            // success: [first, ptr) holds the text; failure: ptr == last, content unspecified
            if (ok) { acc.range(static_cast<char const*>(b.p()), r.ptr); }
            return Digest<3>{{static_cast<std::uint64_t>(static_cast<int>(r.ec)), static_cast<std::uint64_t>(r.ptr - b.p()), acc.h}};
        });
    }
};
template <typename Int>
struct F_to_string_exact {
    static constexpr char const* name = "to_string<Capacity>";
    // the value must fit the capacity (a too small capacity is a precondition violation, C05's subject); base 10 only
    static constexpr bool dom(WArg const& p) { return w_dom<Int>(p) && p.base == 10 && p.cap >= 1 && p.cap >= p.need; }
    static bool in_domain(WArg const& p) { return dom(p); }
    constexpr auto operator()(WArg const& p) const
    {
        if (!dom(p)) { return D2{}; }
        return with_size<D2>(p.cap, [&]<std::size_t N>() {
            if constexpr (N == 0) {
                return D2{};
            } else {
                auto const s = etl::to_string<N>(static_cast<Int>(p.v));
                Acc acc;
                acc.range(s.begin(), s.end());
                acc.add(s.c_str()[s.size()]);
                return D2{{acc.h, s.size()}};
            }
        });
    }
};
// ---- C strings into exact destinations
struct SXArg {
    char a[4];
    char b[4];
    int n;
};
constexpr auto sx_table()
{
    constexpr char const* ss[] = {"", "a", "ab", "abc", "\xE9", "b\xE9"};
    std::array<SXArg, 6 * 6 * 5> t{};
    std::size_t o = 0;
    for (auto x : ss) {
        for (auto y : ss) {
            for (int n = 0; n < 5; ++n) {
                SXArg p{};
                for (int i = 0; x[i] != 0; ++i) { p.a[i] = x[i]; }
                for (int i = 0; y[i] != 0; ++i) { p.b[i] = y[i]; }
                p.n    = n;
                t[o++] = p;
            }
        }
    }
    return t;
}
constexpr int slen(char const* s)
{
    int n = 0;
    while (s[n] != 0) { ++n; }
    return n;
}
struct ClsSX {
    static char const* sit(SXArg const& p)
    {
        static char buf[64];
        int const la = slen(p.a), lb = slen(p.b);
        std::snprintf(buf, sizeof buf, "a:%s,b:%s,%s", la == 0 ? "empty" : "some", lb == 0 ? "empty" : "some", p.n == 0 ? "n=0" : p.n < lb ? "n<len(b)" : p.n == lb ? "n=len(b)" : "n>len(b)");
        return buf;
    }
    static std::string show(SXArg const& p) { return std::string("\"") + p.a + "\", \"" + p.b + "\", n=" + std::to_string(p.n); }
    static std::uint64_t hash(SXArg const& p) { return vf::fnv_bytes(&p, sizeof p); }
    static void const* arg0(SXArg const&) { return nullptr; }
};
struct F_strcpy_exact {
    static constexpr char const* name = "strcpy/strncpy/strcat/strncat (exact-size destination)";
    constexpr auto operator()(SXArg const& p) const
    {
        int const la = slen(p.a), lb = slen(p.b);
        Acc acc;
        // strcpy: exactly len(b) + 1
        acc.add(with_size<long long>(lb + 1, [&]<std::size_t N>() -> long long {
            Exact<char, N> d;
            auto r = etl::strcpy(d.p(), p.b);
            Acc a2;
            a2.range(d.p(), d.p() + N);
            return static_cast<long long>(a2.h % 1000003) * 16 + (r - d.p());
        }));
        // strncpy: exactly n (pads with NUL up to n, no terminator if len(b) >= n)
        acc.add(with_size<long long>(p.n, [&]<std::size_t N>() -> long long {
            Exact<char, N> d;
            for (std::size_t i = 0; i < N; ++i) { d.p()[i] = 0x7E; }
            auto r = etl::strncpy(d.p(), p.b, N);
            Acc a2;
            a2.range(d.p(), d.p() + N);
            return static_cast<long long>(a2.h % 1000003) * 16 + (r - d.p());
        }));
        // strcat: exactly len(a) + len(b) + 1
        acc.add(with_size<long long>(la + lb + 1, [&]<std::size_t N>() -> long long {
            Exact<char, N> d;
            for (int i = 0; i <= la; ++i) { d.p()[i] = p.a[i]; }
            auto r = etl::strcat(d.p(), p.b);
            Acc a2;
            a2.range(d.p(), d.p() + N);
            return static_cast<long long>(a2.h % 1000003) * 16 + (r - d.p());
        }));
        // strncat: exactly len(a) + min(len(b), n) + 1
        acc.add(with_size<long long>(la + (lb < p.n ? lb : p.n) + 1, [&]<std::size_t N>() -> long long {
            Exact<char, N> d;
            for (int i = 0; i <= la; ++i) { d.p()[i] = p.a[i]; }
            auto r = etl::strncat(d.p(), p.b, static_cast<etl::size_t>(p.n));
            Acc a2;
            a2.range(d.p(), d.p() + N);
            return static_cast<long long>(a2.h % 1000003) * 16 + (r - d.p());
        }));
        return D2{{acc.h, 0}};
    }
};
// ---- algorithms into arrays of exactly the result size
struct AXArg {
    int a[8];
    int b[4];
    int n; // 0..8
    int k;
};
constexpr auto ax_table()
{
    constexpr int rows[][8] = {{1, 2, 3, 4, 5, 6, 7, 8}, {3, 3, 1, 1, 2, 2, 2, 5}, {8, 7, 6, 5, 4, 3, 2, 1}, {4, 4, 4, 4, 4, 4, 4, 4}};
    std::array<AXArg, 4 * 9 * 3> t{};
    std::size_t o = 0;
    for (auto const& r : rows) {
        for (int n = 0; n <= 8; ++n) {
            for (int k : {2, 4, 9}) {
                AXArg p{};
                for (int i = 0; i < 8; ++i) { p.a[i] = r[i]; }
                p.b[0] = 0;
                p.b[1] = 2;
                p.b[2] = 4;
                p.b[3] = 9;
                p.n    = n;
                p.k    = k;
                t[o++] = p;
            }
        }
    }
    return t;
}
struct ClsAX {
    static char const* sit(AXArg const& p)
    {
        static char buf[48];
        std::snprintf(buf, sizeof buf, "%s,k=%d", p.n == 0 ? "n=0" : p.n == 1 ? "n=1" : p.n == 8 ? "n=8" : "n=some", p.k);
        return buf;
    }
    static std::string show(AXArg const& p)
    {
        std::string s = "{";
        for (int i = 0; i < p.n; ++i) { s += (i ? "," : "") + std::to_string(p.a[i]); }
        return s + "} k=" + std::to_string(p.k);
    }
    static std::uint64_t hash(AXArg const& p) { return vf::fnv_bytes(&p, sizeof p); }
    static void const* arg0(AXArg const&) { return nullptr; }
};
struct F_algo_exact {
    static constexpr char const* name = "copy/copy_n/copy_backward/move/fill_n/generate_n/transform/reverse_copy/rotate_copy/partial_sum (exact-size destination)";
    constexpr auto operator()(AXArg const& p) const
    {
        return with_size<D2>(p.n, [&]<std::size_t N>() {
            int const* a = p.a;
            Acc acc;
            long long ret = 0;
            auto run = [&](auto&& f) {
                Exact<int, N> d;
                ret = ret * 3 + f(d.p());
                acc.range(d.p(), d.p() + N);
            };
            run([&](int* d) { return etl::copy(a, a + N, d) - d == static_cast<long long>(N) ? 1 : 0; });
            run([&](int* d) { return etl::copy_n(a, N, d) - d == static_cast<long long>(N) ? 1 : 0; });
            run([&](int* d) { return etl::copy_backward(a, a + N, d + N) == d ? 1 : 0; });
            run([&](int* d) { return etl::move(a, a + N, d) - d == static_cast<long long>(N) ? 1 : 0; });
            run([&](int* d) { return etl::move_backward(a, a + N, d + N) == d ? 1 : 0; });
            run([&](int* d) { return etl::fill_n(d, N, p.k) - d == static_cast<long long>(N) ? 1 : 0; });
            run([&](int* d) {
                int c = 0;
                return etl::generate_n(d, N, [&c] { return ++c; }) - d == static_cast<long long>(N) ? 1 : 0;
            });
            run([&](int* d) { return etl::transform(a, a + N, d, [](int x) { return x * 2; }) - d == static_cast<long long>(N) ? 1 : 0; });
            run([&](int* d) { return etl::reverse_copy(a, a + N, d) - d == static_cast<long long>(N) ? 1 : 0; });
            run([&](int* d) { return etl::rotate_copy(a, a + N / 2, a + N, d) - d == static_cast<long long>(N) ? 1 : 0; });
            run([&](int* d) { return etl::partial_sum(a, a + N, d) - d == static_cast<long long>(N) ? 1 : 0; });
            run([&](int* d) { return etl::adjacent_difference(a, a + N, d) - d == static_cast<long long>(N) ? 1 : 0; });
            return D2{{acc.h, static_cast<std::uint64_t>(ret)}};
        });
    }
};
// results whose size depends on the data: the expected size is computed on the harness side, the destination has
// exactly that many elements
constexpr void h_sort(int* f, int n)
{
    for (int i = 1; i < n; ++i) {
        for (int j = i; j > 0 && f[j] < f[j - 1]; --j) {
            int t    = f[j];
            f[j]     = f[j - 1];
            f[j - 1] = t;
        }
    }
}
constexpr int h_union_size(int const* a, int n, int const* b, int m)
{
    int i = 0, j = 0, c = 0;
    while (i < n && j < m) {
        if (a[i] < b[j]) {
            ++i;
        } else if (b[j] < a[i]) {
            ++j;
        } else {
            ++i;
            ++j;
        }
        ++c;
    }
    return c + (n - i) + (m - j);
}
struct F_algo_exact_var {
    static constexpr char const* name = "remove_copy/unique_copy/copy_if/merge/set_union (exact-size destination)";
    constexpr auto operator()(AXArg const& p) const
    {
        int const n = p.n;
        int const* a = p.a;
        Acc acc;
        int keep = 0, runs = 0, odd = 0;
        for (int i = 0; i < n; ++i) {
            keep += a[i] != p.k ? 1 : 0;
            runs += (i == 0 || a[i] != a[i - 1]) ? 1 : 0;
            odd += (a[i] & 1) != 0 ? 1 : 0;
        }
        acc.add(with_size<long long>(keep, [&]<std::size_t N>() -> long long {
            Exact<int, N> d;
            auto r = etl::remove_copy(a, a + n, d.p(), p.k);
            Acc a2;
            a2.range(d.p(), d.p() + N);
            return static_cast<long long>(a2.h % 1000003) * 16 + (r - d.p());
        }));
        acc.add(with_size<long long>(runs, [&]<std::size_t N>() -> long long {
            Exact<int, N> d;
            auto r = etl::unique_copy(a, a + n, d.p());
            Acc a2;
            a2.range(d.p(), d.p() + N);
            return static_cast<long long>(a2.h % 1000003) * 16 + (r - d.p());
        }));
        acc.add(with_size<long long>(odd, [&]<std::size_t N>() -> long long {
            Exact<int, N> d;
            auto r = etl::copy_if(a, a + n, d.p(), [](int x) { return (x & 1) != 0; });
            Acc a2;
            a2.range(d.p(), d.p() + N);
            return static_cast<long long>(a2.h % 1000003) * 16 + (r - d.p());
        }));
        int sa[8] = {a[0], a[1], a[2], a[3], a[4], a[5], a[6], a[7]};
        h_sort(sa, n);
        acc.add(with_size<long long>(n + 4, [&]<std::size_t N>() -> long long {
            Exact<int, N> d;
            auto r = etl::merge(sa, sa + n, p.b, p.b + 4, d.p());
            Acc a2;
            a2.range(d.p(), d.p() + N);
            return static_cast<long long>(a2.h % 1000003) * 16 + (r - d.p());
        }));
        acc.add(with_size<long long>(h_union_size(sa, n, p.b, 4), [&]<std::size_t N>() -> long long {
            Exact<int, N> d;
            auto r = etl::set_union(sa, sa + n, p.b, p.b + 4, d.p());
            Acc a2;
            a2.range(d.p(), d.p() + N);
            return static_cast<long long>(a2.h % 1000003) * 16 + (r - d.p());
        }));
        return D2{{acc.h, 0}};
    }
};
// inplace_string<4> filled to exactly its capacity
struct F_istr_full {
    static constexpr char const* name = "inplace_string<4> filled to capacity";
    constexpr auto operator()(SXArg const& p) const
    {
        using Str    = etl::inplace_string<4>;
        int const la = slen(p.a), lb = slen(p.b);
        Acc acc;
        auto dump = [&acc](Str const& x) {
            acc.add(static_cast<long long>(x.size()));
            acc.add(x.full() ? 1 : 0);
            acc.range(x.begin(), x.end());
            acc.add(x.c_str()[x.size()]);
        };
        Str s{p.a};
        if (la + lb <= 4) {
            s.append(p.b);
            dump(s);
        }
        Str t = s;
        while (t.size() < 4) { t.push_back('z'); }
        dump(t);
        Str u = s;
        u.append(4 - u.size(), 'q');
        dump(u);
        Str v = s;
        v.resize(4, 'x');
        dump(v);
        Str w = s;
        if (w.size() + static_cast<etl::size_t>(lb) <= 4) {
            w.insert(0, p.b);
            dump(w);
        }
        Str x = s;
        x.insert(x.size() / 2, 4 - x.size(), '#');
        dump(x);
        Str y;
        y.assign(static_cast<etl::size_t>(4), 'k');
        dump(y);
        y.pop_back();
        y += 'm';
        dump(y);
        Str z{t.begin(), t.end()};
        dump(z);
        return D2{{acc.h, static_cast<std::uint64_t>(t.size())}};
    }
};
#if C13_GRP == 2
inline constexpr auto tabW  = w_table();
inline constexpr auto tabSX = sx_table();
inline constexpr auto tabAX = ax_table();
#endif

// =================================================================== registry
template <typename C>
void add_char_traits([[maybe_unused]] std::vector<Entry>& es)
{
#if C13_GRP == 0
    std::string const t = std::string("<") + cname<C>() + ">";
    es.push_back(make_entry<F_ct_move<C>, tabMove, ClsMove, 64>(F_ct_move<C>::name + t));
    es.push_back(make_entry<F_ct_counted<C>, tabPairs<C>, ClsPairsC<C>, 82>(F_ct_counted<C>::name + t));
    es.push_back(make_entry<F_ct_scalar<C>, tabScalar, ClsScalar, 72>(F_ct_scalar<C>::name + t));
#endif
}
template <typename E>
void add_overlap([[maybe_unused]] std::vector<Entry>& es)
{
#if C13_GRP == 1
    std::string const t = std::string("<") + oname<E>() + ">";
    es.push_back(make_entry<F_ov_forward<E>, tabOv, ClsMove, 64>(std::string("copy/copy_n/move within one buffer") + t));
    es.push_back(make_entry<F_ov_backward<E>, tabOv, ClsMove, 64>(std::string("copy_backward/move_backward within one buffer") + t));
    es.push_back(make_entry<F_ov_shift<E>, tabOv, ClsShift, 64>(F_ov_shift<E>::name + t));
#endif
}
template <typename Int>
void add_writers([[maybe_unused]] std::vector<Entry>& es, [[maybe_unused]] char const* tn)
{
#if C13_GRP == 2
    std::string const t = std::string("<") + tn + ">";
    es.push_back(make_entry<F_from_integer<Int, true>, tabW, ClsW, 90>("strings::from_integer[terminated,exact buffer]" + t));
    es.push_back(make_entry<F_from_integer<Int, false>, tabW, ClsW, 90>("strings::from_integer[unterminated,exact buffer]" + t));
    es.push_back(make_entry<F_to_chars_exact<Int>, tabW, ClsW, 90>("to_chars[exact buffer]" + t));
#endif
}
std::vector<Entry> const& entries()
{
    static std::vector<Entry> const es = [] {
        std::vector<Entry> v;
#if C13_GRP == 0
        add_char_traits<char>(v);
        add_char_traits<wchar_t>(v);
        add_char_traits<char8_t>(v);
        add_char_traits<char16_t>(v);
        add_char_traits<char32_t>(v);
#elif C13_GRP == 1
        add_overlap<char>(v);
        add_overlap<int>(v);
        add_overlap<NT>(v);
        v.push_back(make_entry<F_wmemmove, tabOv, ClsMove, 64>(F_wmemmove::name));
        v.push_back(make_entry<F_wmemcpy_set, tabOv, ClsMove, 64>(F_wmemcpy_set::name));
        v.push_back(make_entry<F_istr_ins_erase, tabOv, ClsMove, 64>(F_istr_ins_erase::name));
#else
        add_writers<signed char>(v, "int8");
        add_writers<unsigned char>(v, "uint8");
        add_writers<int>(v, "int32");
        add_writers<long long>(v, "int64");
        add_writers<unsigned>(v, "uint32"); // compiles since the from_integer<unsigned> fix (/repo c02e715)
        add_writers<unsigned long long>(v, "uint64");
        v.push_back(make_entry<F_to_string_exact<int>, tabW, ClsW, 90>("to_string<Capacity>(int)"));
        v.push_back(make_entry<F_to_string_exact<long long>, tabW, ClsW, 90>("to_string<Capacity>(long long)"));
        v.push_back(make_entry<F_strcpy_exact, tabSX, ClsSX, 60>(F_strcpy_exact::name));
        v.push_back(make_entry<F_istr_full, tabSX, ClsSX, 60>(F_istr_full::name));
        v.push_back(make_entry<F_algo_exact, tabAX, ClsAX, 54>("copy/move/fill_n/generate_n/transform/..._copy/partial_sum (exact-size destination)"));
        v.push_back(make_entry<F_algo_exact_var, tabAX, ClsAX, 54>(F_algo_exact_var::name));
#endif
        return v;
    }();
    return es;
}

vf::Spec spec(vf::Tier)
{
    vf::Spec s;
    s.n_enum     = total_cases(entries());
    s.n_random   = 0;
    s.batch      = 1;
    s.exhaustive = true;
    return s;
}
void run_case(vf::Case& c) { run_case_index(entries(), c.index); }

} // namespace

VF_MAIN("C13", "C13_buf", spec, run_case)
