// C05 - contract checks stop every precondition violation before damage (DESIGN 4, C05 half (a))
// Fault enumeration at the API boundary: every scenario = (subject, state, violating call); each runs
// in its own forked process with the object under test snapshotted; the contract trap (cfg/tetl_config.hpp)
// must be entered (exit 77, filled assert_msg) before any sanitizer/canary fires, and for violations visible
// from the arguments alone the object must be byte-identical to its snapshot when the handler runs.
#include "vf.hpp"
#include "vf_contract.hpp"
#include "vf_tracked.hpp"

#include <etl/array.hpp>
#include <etl/bit.hpp>
#include <etl/bitset.hpp>
#include <etl/chrono.hpp>
#include <etl/cstring.hpp>
#include <etl/expected.hpp>
#include <etl/cwchar.hpp>
#include <etl/inplace_vector.hpp>
#include <etl/linalg.hpp>
#include <etl/mdspan.hpp>
#include <etl/numeric.hpp>
#include <etl/optional.hpp>
#include <etl/set.hpp>
#include <etl/span.hpp>
#include <etl/string.hpp>
#include <etl/string_view.hpp>
#include <etl/variant.hpp>
#include <etl/vector.hpp>

#include <string>
#include <vector>

#if defined(TETL_ENABLE_CONTRACT_CHECKS_SAFE)
    #define VF_SAFE 1
#else
    #define VF_SAFE 0
#endif

namespace {
constexpr std::size_t SMAX = static_cast<std::size_t>(-1);

struct Meta {
    char subject[64];
    char op[96];
    char sit[96];
    bool args_only;
    bool undocumented; // no precondition documented/declared: listed in the evidence, not a violation when missed
    bool valid;        // a VALID boundary call: the handler must NOT be entered (the same operations called with valid arguments never invoke it)
};

// The scenario table is a function whose statements are numbered as they are passed; running it with
// want == N executes exactly the N-th scenario, running it with want == NONE counts them.
constexpr unsigned NONE = 0xFFFFFFFFu;
struct Tab {
    unsigned want;
    unsigned k = 0;
    bool run;
    Meta* meta;
    bool hit = false;
};

template <typename V>
void fill_vec(V& v, std::size_t n)
{
    for (std::size_t i = 0; i < n; ++i) { v.emplace_back((int)i + 1); }
}

// clang-format off
#define SCN(SUBJ, OP, SITFMT, SITARG, ARGSONLY, ...)                                                                   \
    do {                                                                                                               \
        if (t.k++ == t.want) {                                                                                         \
            t.hit = true;                                                                                              \
            std::snprintf(t.meta->subject, sizeof t.meta->subject, "%s", SUBJ);                                        \
            std::snprintf(t.meta->op, sizeof t.meta->op, "%s", OP);                                                    \
            std::snprintf(t.meta->sit, sizeof t.meta->sit, SITFMT, SITARG);                                            \
            t.meta->args_only = ARGSONLY;                                                                              \
            t.meta->undocumented = false;                                                                              \
            t.meta->valid = false;                                                                                     \
            if (t.run) { __VA_ARGS__ }                                                                                 \
            return;                                                                                                    \
        }                                                                                                              \
    } while (0)
// a valid call at the edge of the precondition: must return normally without the handler
#define VSCN(SUBJ, OP, SITFMT, SITARG, ...)                                                                            \
    do {                                                                                                               \
        if (t.k++ == t.want) {                                                                                         \
            t.hit = true;                                                                                              \
            std::snprintf(t.meta->subject, sizeof t.meta->subject, "%s", SUBJ);                                        \
            std::snprintf(t.meta->op, sizeof t.meta->op, "%s", OP);                                                    \
            std::snprintf(t.meta->sit, sizeof t.meta->sit, "valid:" SITFMT, SITARG);                                   \
            t.meta->args_only = false;                                                                                 \
            t.meta->undocumented = false;                                                                              \
            t.meta->valid = true;                                                                                      \
            if (t.run) { __VA_ARGS__ }                                                                                 \
            return;                                                                                                    \
        }                                                                                                              \
    } while (0)
#define WATCH(OBJ) vf::watch_object(&(OBJ), sizeof(OBJ))
// clang-format on

char const* bcls(std::size_t v, std::size_t bound)
{
    if (v == bound) { return "at-bound"; }
    if (v == bound + 1) { return "bound+1"; }
    if (v == SMAX) { return "SIZE_MAX"; }
    if (v == SMAX / 2 + 1) { return "SIZE_MAX/2+1"; }
    return "beyond";
}
volatile std::size_t g_sink;
template <typename X>
void use(X const& x)
{
    g_sink = g_sink + (std::size_t) reinterpret_cast<std::uintptr_t>(&x);
}

void table(Tab& t)
{
    using SV  = etl::static_vector<int, 3>;
    using SVT = etl::static_vector<vf::TCM, 3>;
    using IV  = etl::inplace_vector<int, 3>;
    std::size_t const beyond[] = {0, 1, SMAX / 2 + 1, SMAX}; // added to the bound (0 -> at the bound)

    // ---------------------------------------------------------------- static_vector
    for (std::size_t n = 0; n <= 3; ++n) {
        for (std::size_t b : beyond) {
            std::size_t idx = b >= SMAX / 2 ? b : n + b;
            char sb[64];
            std::snprintf(sb, sizeof sb, "size=%zu,pos=%s", n, bcls(idx, n));
            SCN("static_vector<int,3>", "operator[](pos)", "%s", sb, true, { SV v; fill_vec(v, n); WATCH(v); use(v[idx]); });
        }
        for (std::size_t b : beyond) {
            std::size_t idx = b >= SMAX / 2 ? b : n + b;
            char sb[64];
            std::snprintf(sb, sizeof sb, "size=%zu,pos=%s", n, bcls(idx, n));
            SCN("static_vector<int,3>", "operator[](pos) const", "%s", sb, true, { SV v; fill_vec(v, n); SV const& c = v; WATCH(v); use(c[idx]); });
        }
    }
    SCN("static_vector<int,3>", "front()", "%s", "empty", true, { SV v; WATCH(v); use(v.front()); });
    SCN("static_vector<int,3>", "back()", "%s", "empty", true, { SV v; WATCH(v); use(v.back()); });
    SCN("static_vector<int,3>", "front() const", "%s", "empty", true, { SV const v; WATCH(v); use(v.front()); });
    SCN("static_vector<int,3>", "back() const", "%s", "empty", true, { SV const v; WATCH(v); use(v.back()); });
    SCN("static_vector<int,3>", "pop_back()", "%s", "empty", true, { SV v; WATCH(v); v.pop_back(); });
    SCN("static_vector<tracked,3>", "pop_back()", "%s", "empty", true, { SVT v; WATCH(v); v.pop_back(); });
    SCN("static_vector<int,3>", "push_back(T&&)", "%s", "full", true, { SV v; fill_vec(v, 3); WATCH(v); v.push_back(9); });
    SCN("static_vector<int,3>", "emplace_back(args)", "%s", "full", true, { SV v; fill_vec(v, 3); WATCH(v); v.emplace_back(9); });
    SCN("static_vector<tracked,3>", "emplace_back(args)", "%s", "full", true, { SVT v; fill_vec(v, 3); WATCH(v); v.emplace_back(9); });
    SCN("static_vector<tracked,3>", "push_back(T const&)", "%s", "full", true, { SVT v; fill_vec(v, 3); vf::TCM x(9); WATCH(v); v.push_back(x); });
    SCN("static_vector<int,0>", "push_back(T&&)", "%s", "capacity-0", true, { etl::static_vector<int, 0> v; v.push_back(9); });
    SCN("static_vector<int,0>", "pop_back()", "%s", "capacity-0", true, { etl::static_vector<int, 0> v; v.pop_back(); });
    for (std::size_t pos = 0; pos <= 3; ++pos) {
        SCN("static_vector<int,3>", "emplace(pos,args)", "full,pos=%zu", pos, true, { SV v; fill_vec(v, 3); WATCH(v); v.emplace(v.cbegin() + pos, 9); });
        SCN("static_vector<int,3>", "insert(pos,T&&)", "full,pos=%zu", pos, true, { SV v; fill_vec(v, 3); WATCH(v); v.insert(v.cbegin() + pos, 9); });
        SCN("static_vector<int,3>", "insert(pos,T const&)", "full,pos=%zu", pos, true, { SV v; fill_vec(v, 3); int x = 9; WATCH(v); v.insert(v.cbegin() + pos, x); });
    }
    for (std::size_t n = 0; n <= 3; ++n) {
        for (std::size_t over : {std::size_t(1), std::size_t(2), SMAX / 2, SMAX - 3}) {
            std::size_t cnt = over >= SMAX / 2 ? over : 3 - n + over;
            SCN("static_vector<int,3>", "insert(pos,n,x)", "size=%zu,count-exceeds-room", n, true, { SV v; fill_vec(v, n); int x = 9; WATCH(v); v.insert(v.cbegin(), cnt, x); });
        }
        for (std::size_t cnt : {SMAX, SMAX - 1, SMAX - n + 1}) { // size() + count wraps around
            if (cnt == 0) { continue; }
            SCN("static_vector<int,3>", "insert(pos,n,x)", "size=%zu,count-wraps", n, true, { SV v; fill_vec(v, n); int x = 9; WATCH(v); v.insert(v.cbegin(), cnt, x); });
            SCN("static_vector<tracked,3>", "insert(pos,n,x)", "size=%zu,count-wraps", n, true, { SVT v; fill_vec(v, n); vf::TCM x(9); WATCH(v); v.insert(v.cbegin(), cnt, x); });
        }
        SCN("static_vector<int,3>", "insert(pos,first,last)", "size=%zu,range-exceeds-room", n, true, {
            SV v; fill_vec(v, n); vf::Buf<int> src(4 - n); for (std::size_t i = 0; i < src.size(); ++i) { src[i] = 7; }
            int const* f = src.data(); int const* l = src.data() + src.size(); WATCH(v); v.insert(v.cbegin(), f, l); });
        for (std::size_t back : {std::size_t(1), std::size_t(2), std::size_t(3)}) { // reversed ranges whose length does not exceed size(): "size() + (last - first)" wraps
            char sb[64];
            std::snprintf(sb, sizeof sb, "size=%zu,first>last-by-%zu", n, back);
            SCN("static_vector<int,3>", "insert(pos,first,last)", "%s", sb, true, {
                SV v; fill_vec(v, n); vf::Buf<int> src(4); for (std::size_t i = 0; i < 4; ++i) { src[i] = 7; }
                int const* f = src.data() + back; int const* l = src.data(); WATCH(v); v.insert(v.cbegin(), f, l); });
            SCN("static_vector<int,3>", "move_insert(pos,first,last)", "%s", sb, true, {
                SV v; fill_vec(v, n); vf::Buf<int> src(4); for (std::size_t i = 0; i < 4; ++i) { src[i] = 7; }
                WATCH(v); v.move_insert(v.cbegin(), src.data() + back, src.data()); });
            SCN("static_vector<int,3>", "assign(first,last)", "%s", sb, true, {
                SV v; fill_vec(v, n); vf::Buf<int> src(4); for (std::size_t i = 0; i < 4; ++i) { src[i] = 7; }
                int const* f = src.data() + back; int const* l = src.data(); WATCH(v); v.assign(f, l); });
            SCN("static_vector<tracked,3>", "insert(pos,first,last)", "%s", sb, true, {
                SVT v; fill_vec(v, n); vf::Buf<vf::TCM> src(4); for (std::size_t i = 0; i < 4; ++i) { new (src.data() + i) vf::TCM(7); }
                vf::TCM const* f = src.data() + back; vf::TCM const* l = src.data(); WATCH(v); v.insert(v.cbegin(), f, l); });
        }
        SCN("static_vector<int,3>", "move_insert(pos,first,last)", "size=%zu,range-exceeds-room", n, true, {
            SV v; fill_vec(v, n); vf::Buf<int> src(4 - n); for (std::size_t i = 0; i < src.size(); ++i) { src[i] = 7; }
            WATCH(v); v.move_insert(v.cbegin(), src.data(), src.data() + src.size()); });
        SCN("static_vector<int,3>", "insert(pos,T&&)", "size=%zu,pos-past-end", n, true, { SV v; fill_vec(v, n); if (n < 3) { WATCH(v); v.insert(v.cbegin() + n + 1, 9); } else { WATCH(v); v.insert(v.cbegin() + 4, 9); } });
        SCN("static_vector<int,3>", "insert(pos,T&&)", "size=%zu,pos-before-begin", n, true, { SV v; fill_vec(v, n); WATCH(v); v.insert(v.cbegin() - 1, 9); });
        SCN("static_vector<int,3>", "erase(pos)", "size=%zu,pos=end", n, true, { SV v; fill_vec(v, n); WATCH(v); v.erase(v.cend()); });
        SCN("static_vector<int,3>", "erase(first,last)", "size=%zu,last-past-end", n, true, { SV v; fill_vec(v, n); WATCH(v); v.erase(v.cbegin(), v.cend() + 1); });
        if (n >= 1) {
            SCN("static_vector<int,3>", "erase(first,last)", "size=%zu,first>last", n, true, { SV v; fill_vec(v, n); WATCH(v); v.erase(v.cbegin() + 1, v.cbegin()); });
        }
        for (std::size_t over : {std::size_t(1), SMAX / 2, SMAX - 3}) {
            std::size_t cnt = over >= SMAX / 2 ? over : 3 + over;
            SCN("static_vector<int,3>", "resize(n)", "size=%zu,n>capacity", n, true, { SV v; fill_vec(v, n); WATCH(v); v.resize(cnt); });
            SCN("static_vector<int,3>", "resize(n,value)", "size=%zu,n>capacity", n, true, { SV v; fill_vec(v, n); int x = 9; WATCH(v); v.resize(cnt, x); });
            SCN("static_vector<int,3>", "assign(n,value)", "size=%zu,n>capacity", n, true, { SV v; fill_vec(v, n); int x = 9; WATCH(v); v.assign(cnt, x); });
        }
        SCN("static_vector<int,3>", "assign(first,last)", "size=%zu,range>capacity", n, true, {
            SV v; fill_vec(v, n); vf::Buf<int> src(4); for (std::size_t i = 0; i < 4; ++i) { src[i] = 7; }
            int const* f = src.data(); int const* l = f + 4; WATCH(v); v.assign(f, l); });
    }
    SCN("static_vector<int,3>", "ctor(n)", "%s", "n>capacity", true, { SV v(4); use(v); });
    SCN("static_vector<int,3>", "ctor(n,value)", "%s", "n>capacity", true, { int x = 1; SV v(std::size_t(4), x); use(v); });
    SCN("static_vector<int,3>", "ctor(first,last)", "%s", "range>capacity", true, { vf::Buf<int> src(4); for (int i = 0; i < 4; ++i) { src[i] = 7; } int const* f = src.data(); SV v(f, f + 4); use(v); });
    SCN("static_vector<int,3>", "ctor(first,last)", "%s", "first>last", true, { vf::Buf<int> src(4); for (int i = 0; i < 4; ++i) { src[i] = 7; } int const* f = src.data(); SV v(f + 2, f); use(v); });

    // ---------------------------------------------------------------- capacities at the maximum of the internal size type (255, 65535): a check written
    // as "new size <= capacity" is vacuous there when the size wraps
    {
        auto boundary = [&]<typename T, std::size_t N>(char const* name, etl::static_vector<T, N>*) {
            using V = etl::static_vector<T, N>;
            SCN(name, "pop_back()", "%s", "empty,capacity=size-type-max", true, { V v{}; WATCH(v); v.pop_back(); });
            SCN(name, "front()", "%s", "empty,capacity=size-type-max", true, { V v{}; WATCH(v); use(v.front()); });
            SCN(name, "back()", "%s", "empty,capacity=size-type-max", true, { V v{}; WATCH(v); use(v.back()); });
            SCN(name, "operator[](pos)", "%s", "empty,pos=0,capacity=size-type-max", true, { V v{}; WATCH(v); use(v[0]); });
            SCN(name, "operator[](pos)", "%s", "full,pos=size,capacity=size-type-max", true, { V v{}; for (std::size_t i = 0; i < N; ++i) { v.emplace_back(); } WATCH(v); use(v[N]); });
            SCN(name, "emplace_back(args)", "%s", "full,capacity=size-type-max", true, { V v{}; for (std::size_t i = 0; i < N; ++i) { v.emplace_back(); } WATCH(v); v.emplace_back(); });
            SCN(name, "push_back(T const&)", "%s", "full,capacity=size-type-max", true, { V v{}; for (std::size_t i = 0; i < N; ++i) { v.emplace_back(); } typename V::value_type x{}; WATCH(v); v.push_back(x); });
            SCN(name, "resize(n)", "%s", "n=capacity+1,capacity=size-type-max", true, { V v{}; WATCH(v); v.resize(N + 1); });
            SCN(name, "assign(n,value)", "%s", "n=capacity+1,capacity=size-type-max", true, { V v{}; v.emplace_back(); typename V::value_type x{}; WATCH(v); v.assign(N + 1, x); });
            SCN(name, "erase(pos)", "%s", "empty,pos=end,capacity=size-type-max", true, { V v{}; WATCH(v); v.erase(v.cend()); });
            VSCN(name, "pop_back()", "%s", "one-element,capacity=size-type-max", { V v{}; v.emplace_back(); v.pop_back(); use(v); });
            VSCN(name, "emplace_back(args)", "%s", "fills-last-slot,capacity=size-type-max", { V v{}; for (std::size_t i = 0; i < N; ++i) { v.emplace_back(); } use(v[N - 1]); use(v.back()); });
            VSCN(name, "resize(n)", "%s", "n=capacity,capacity=size-type-max", { V v{}; v.resize(N); v.resize(0); use(v); });
        };
        boundary("static_vector<uint8,255>", static_cast<etl::static_vector<unsigned char, 255>*>(nullptr));
        boundary("static_vector<tracked,255>", static_cast<etl::static_vector<vf::TCM, 255>*>(nullptr));
        boundary("static_vector<uint8,65535>", static_cast<etl::static_vector<unsigned char, 65535>*>(nullptr));
        boundary("static_vector<uint8,256>", static_cast<etl::static_vector<unsigned char, 256>*>(nullptr));
    }
    {
        using IB = etl::inplace_vector<unsigned char, 255>;
        SCN("inplace_vector<uint8,255>", "pop_back()", "%s", "empty,capacity=size-type-max", true, { IB v{}; WATCH(v); v.pop_back(); });
        SCN("inplace_vector<uint8,255>", "front()", "%s", "empty,capacity=size-type-max", true, { IB v{}; WATCH(v); use(v.front()); });
        SCN("inplace_vector<uint8,255>", "unchecked_emplace_back(args)", "%s", "full,capacity=size-type-max", true, { IB v{}; for (int i = 0; i < 255; ++i) { v.unchecked_emplace_back(); } WATCH(v); v.unchecked_emplace_back(); });
        SCN("inplace_vector<uint8,255>", "operator[](n)", "%s", "full,pos=size,capacity=size-type-max", true, { IB v{}; for (int i = 0; i < 255; ++i) { v.unchecked_emplace_back(); } WATCH(v); use(v[255]); });
        using S255 = etl::inplace_string<255>;
        SCN("inplace_string<255>", "pop_back()", "%s", "empty,capacity=size-type-max", true, { S255 x; WATCH(x); x.pop_back(); });
        SCN("inplace_string<255>", "push_back(ch)", "%s", "full,capacity=size-type-max", true, { S255 x(std::size_t(255), 'a'); WATCH(x); x.push_back('b'); });
        SCN("inplace_string<255>", "front()", "%s", "empty,capacity=size-type-max", true, { S255 x; WATCH(x); use(x.front()); });
        VSCN("inplace_string<255>", "push_back(ch)", "%s", "fills-last-slot", { S255 x(std::size_t(254), 'a'); x.push_back('b'); use(x.back()); });
    }

    // ---------------------------------------------------------------- valid calls at the edge of every family: the handler must stay silent
    {
        VSCN("static_vector<int,3>", "operator[](pos)", "%s", "pos=size-1", { SV v; fill_vec(v, 3); use(v[2]); SV const& c = v; use(c[2]); use(v.front()); use(v.back()); });
        VSCN("static_vector<int,3>", "insert/erase", "%s", "pos=end,last-slot", { SV v; fill_vec(v, 2); v.insert(v.cend(), 9); v.erase(v.cend() - 1); v.erase(v.cbegin(), v.cbegin()); v.erase(v.cend(), v.cend()); use(v); });
        VSCN("static_vector<int,3>", "resize/assign", "%s", "n=capacity", { SV v; v.resize(3); int x = 1; v.assign(std::size_t(3), x); v.resize(3, x); v.insert(v.cbegin(), std::size_t(0), x); use(v); });
        VSCN("inplace_vector<int,3>", "accessors", "%s", "pos=size-1", { IV v{}; for (int i = 0; i < 3; ++i) { v.unchecked_emplace_back(i); } use(v[2]); use(v.front()); use(v.back()); v.pop_back(); use(v); });
        VSCN("inplace_string<7>", "accessors/insert/erase", "%s", "index=size", { etl::inplace_string<7> x(std::size_t(3), 'a'); use(x[2]); use(x.front()); use(x.back()); x.insert(3, 1, 'b'); x.insert(0, 0, 'c'); x.erase(4, 0); x.erase(3); use(x.substr(3)); use(x.compare(3, 0, x)); });
        VSCN("string_view", "substr/copy/compare/remove_*", "%s", "pos=size", { vf::Buf<char> h(3); std::memset(h.data(), 'a', 3); vf::Buf<char> d(2); etl::string_view v(h.data(), 3); use(v.substr(3)); use(v.substr(3, 0)); use(v.copy(d.data(), 0, 3)); use(v.copy(d.data(), 2, 3)); use(v.compare(3, 0, v)); use(v.compare(3, 1, v, 3, 1)); use(v[2]); use(v.front()); use(v.back()); etl::string_view w = v; w.remove_prefix(3); w = v; w.remove_suffix(3); use(w); });
        VSCN("span<int>", "first/last/subspan/operator[]", "%s", "count=size,offset=size", { vf::Buf<int> h(3); h[0] = h[1] = h[2] = 0; etl::span<int> sp(h.data(), 3); use(sp.first(3)); use(sp.last(3)); use(sp.first(0)); use(sp.subspan(3)); use(sp.subspan(3, 0)); use(sp.subspan(1, 2)); use(sp.subspan(0, etl::dynamic_extent)); use(sp[2]); use(sp.front()); use(sp.back()); });
        VSCN("optional<int>", "operator*() all value categories", "%s", "engaged", { etl::optional<int> o(3); use(*o); use(*etl::as_const(o)); int a = *static_cast<etl::optional<int>&&>(o); int b = *static_cast<etl::optional<int> const&&>(o); use(a); use(b); use(*o.operator->()); });
        VSCN("optional<tracked>", "operator*()/operator->()", "%s", "engaged", { etl::optional<vf::TCM> o(3); use(*o); use(o->value()); use(*etl::as_const(o)); });
        VSCN("expected<int,char>", "operator*()/operator->() all value categories", "%s", "has-value", { etl::expected<int, char> e(etl::in_place, 3); use(*e); use(*etl::as_const(e)); int a = *static_cast<etl::expected<int, char>&&>(e); int b = *static_cast<etl::expected<int, char> const&&>(e); use(a); use(b); use(*e.operator->()); });
        VSCN("expected<int,char>", "error() all value categories", "%s", "has-error", { etl::expected<int, char> e(etl::unexpect, 'x'); use(e.error()); use(etl::as_const(e).error()); char a = static_cast<etl::expected<int, char>&&>(e).error(); char b = static_cast<etl::expected<int, char> const&&>(e).error(); use(a); use(b); });
        VSCN("expected<tracked,tracked2>", "error()/operator*() all value categories", "%s", "matching-state", { using X = etl::expected<vf::TCM, vf::Tracked<vf::kCopyMove, 1>>; X e(etl::unexpect, 4); use(e.error()); use(etl::as_const(e).error()); auto a = static_cast<X const&&>(e).error(); use(a); auto b = static_cast<X&&>(e).error(); use(b); X v(etl::in_place, 5); use(*v); use(*etl::as_const(v)); auto c = *static_cast<X const&&>(v); use(c); auto d = *static_cast<X&&>(v); use(d); });
        VSCN("variant<int,char>", "operator[]/get_if/unchecked access", "%s", "active-alternative", { etl::variant<int, char> v(etl::in_place_index<1>, 'x'); use(v[etl::index_v<1>]); use(etl::as_const(v)[etl::index_v<1>]); use(*etl::get_if<1>(&v)); use(etl::get_if<0>(&v)); });
        VSCN("bitset<9>", "test/set/reset/flip/operator[]", "%s", "pos=size-1", { etl::bitset<9> b; b.set(8); use(b.test(8)); b.reset(8); b.flip(8); use(b[8]); });
        VSCN("array<int,3>", "operator[]/front/back", "%s", "pos=size-1", { etl::array<int, 3> a{1, 2, 3}; use(a[2]); use(etl::as_const(a)[2]); use(a.front()); use(a.back()); });
    }

    // ---------------------------------------------------------------- inplace_vector
    for (std::size_t n = 0; n <= 3; ++n) {
        for (std::size_t b : beyond) {
            std::size_t idx = b >= SMAX / 2 ? b : n + b;
            char sb[64];
            std::snprintf(sb, sizeof sb, "size=%zu,pos=%s", n, bcls(idx, n));
            SCN("inplace_vector<int,3>", "operator[](n)", "%s", sb, true, { IV v{}; for (std::size_t i = 0; i < n; ++i) { v.unchecked_emplace_back((int)i); } WATCH(v); use(v[idx]); });
            SCN("inplace_vector<int,3>", "operator[](n) const", "%s", sb, true, { IV v{}; for (std::size_t i = 0; i < n; ++i) { v.unchecked_emplace_back((int)i); } IV const& c = v; WATCH(v); use(c[idx]); });
        }
    }
    for (std::size_t n = 1; n <= 3; ++n) {
        // indices that alias a valid index when narrowed to 8 or 16 bits (the size is stored in a narrow type)
        for (std::size_t idx : {std::size_t(256), std::size_t(256) + n - 1, std::size_t(65536) + n - 1, (std::size_t(1) << 32) + n - 1}) {
            char sb[64];
            std::snprintf(sb, sizeof sb, "size=%zu,pos=valid-index+2^k", n);
            SCN("inplace_vector<int,3>", "operator[](n)", "%s", sb, true, { IV v{}; for (std::size_t i = 0; i < n; ++i) { v.unchecked_emplace_back((int)i); } WATCH(v); use(v[idx]); });
            SCN("static_vector<int,3>", "operator[](pos)", "%s", sb, true, { SV v; fill_vec(v, n); WATCH(v); use(v[idx]); });
            SCN("inplace_string<7>", "operator[](index)", "%s", sb, true, { etl::inplace_string<7> s7(n, 'a'); WATCH(s7); use(s7[idx]); });
            SCN("span<int>", "operator[](idx)", "%s", sb, true, { vf::Buf<int> h(n); etl::span<int> sp(h.data(), n); WATCH(sp); use(sp[idx]); });
            SCN("string_view", "operator[](pos)", "%s", sb, true, { vf::Buf<char> h(n); std::memset(h.data(), 'a', n); etl::string_view sv(h.data(), n); WATCH(sv); use(sv[idx]); });
        }
    }
    SCN("inplace_vector<int,3>", "front()", "%s", "empty", true, { IV v{}; WATCH(v); use(v.front()); });
    SCN("inplace_vector<int,3>", "back()", "%s", "empty", true, { IV v{}; WATCH(v); use(v.back()); });
    SCN("inplace_vector<int,3>", "front() const", "%s", "empty", true, { IV const v{}; WATCH(v); use(v.front()); });
    SCN("inplace_vector<int,3>", "back() const", "%s", "empty", true, { IV const v{}; WATCH(v); use(v.back()); });
    SCN("inplace_vector<int,3>", "pop_back()", "%s", "empty", true, { IV v{}; WATCH(v); v.pop_back(); });
    SCN("inplace_vector<int,3>", "unchecked_emplace_back(args)", "%s", "full", true, { IV v{}; for (int i = 0; i < 3; ++i) { v.unchecked_emplace_back(i); } WATCH(v); v.unchecked_emplace_back(9); });
    SCN("inplace_vector<int,3>", "unchecked_push_back(T const&)", "%s", "full", true, { IV v{}; for (int i = 0; i < 3; ++i) { v.unchecked_emplace_back(i); } int x = 9; WATCH(v); v.unchecked_push_back(x); });
    SCN("inplace_vector<int,3>", "unchecked_push_back(T&&)", "%s", "full", true, { IV v{}; for (int i = 0; i < 3; ++i) { v.unchecked_emplace_back(i); } WATCH(v); v.unchecked_push_back(9); });

    // ---------------------------------------------------------------- inplace_string (tiny and normal layout)
    {
        using S7  = etl::inplace_string<7>;
        using S20 = etl::inplace_string<20>;
        SCN("inplace_string<7>", "ctor(ptr,len)", "%s", "len>capacity", true, { vf::Buf<char> b(9); std::memset(b.data(), 'a', 9); S7 s(b.data(), 8); use(s); });
        SCN("inplace_string<20>", "ctor(ptr,len)", "%s", "len>capacity", true, { vf::Buf<char> b(22); std::memset(b.data(), 'a', 22); S20 s(b.data(), 21); use(s); });
        SCN("inplace_string<7>", "ctor(ptr)", "%s", "len>capacity", true, { vf::Buf<char> b(9); std::memset(b.data(), 'a', 8); b[8] = 0; S7 s(b.data()); use(s); });
        SCN("inplace_string<7>", "ctor(count,ch)", "%s", "count>capacity", true, { S7 s(std::size_t(8), 'a'); use(s); });
        SCN("inplace_string<7>", "ctor(count,ch)", "%s", "count=SIZE_MAX", true, { S7 s(SMAX, 'a'); use(s); });
        SCN("inplace_string<7>", "operator=(ptr)", "%s", "len>capacity", true, { vf::Buf<char> b(9); std::memset(b.data(), 'a', 8); b[8] = 0; S7 s; WATCH(s); s = b.data(); });
        SCN("inplace_string<7>", "assign(count,ch)", "%s", "count>capacity", true, { S7 s; WATCH(s); s.assign(std::size_t(8), 'a'); });
        SCN("inplace_string<20>", "assign(count,ch)", "%s", "count=SIZE_MAX", true, { S20 s; WATCH(s); s.assign(SMAX, 'a'); });
        SCN("inplace_string<7>", "assign(ptr,count)", "%s", "count>capacity", true, { vf::Buf<char> b(8); std::memset(b.data(), 'a', 8); S7 s; WATCH(s); s.assign(b.data(), 8); });
        SCN("inplace_string<7>", "front()", "%s", "empty", true, { S7 s; WATCH(s); use(s.front()); });
        SCN("inplace_string<7>", "back()", "%s", "empty", true, { S7 s; WATCH(s); use(s.back()); });
        SCN("inplace_string<20>", "front() const", "%s", "empty", true, { S20 const s; WATCH(s); use(s.front()); });
        SCN("inplace_string<20>", "back() const", "%s", "empty", true, { S20 const s; WATCH(s); use(s.back()); });
        SCN("inplace_string<7>", "pop_back()", "%s", "empty", true, { S7 s; WATCH(s); s.pop_back(); });
        SCN("inplace_string<20>", "pop_back()", "%s", "empty", true, { S20 s; WATCH(s); s.pop_back(); });
        SCN("inplace_string<7>", "push_back(ch)", "%s", "full", true, { S7 s(std::size_t(7), 'a'); WATCH(s); s.push_back('b'); });
        SCN("inplace_string<20>", "push_back(ch)", "%s", "full", true, { S20 s(std::size_t(20), 'a'); WATCH(s); s.push_back('b'); });
        for (std::size_t n : {std::size_t(0), std::size_t(3), std::size_t(7)}) {
            for (std::size_t b : {std::size_t(1), std::size_t(2), SMAX / 2 + 1, SMAX - 1}) {
                std::size_t idx = b >= SMAX / 2 ? b : n + b;
                SCN("inplace_string<7>", "operator[](index)", "size=%zu,index>size", n, true, { S7 s(n, 'a'); WATCH(s); use(s[idx]); });
            }
            SCN("inplace_string<7>", "erase(first,last)", "size=%zu,last-past-end", n, true, { S7 s(n, 'a'); WATCH(s); s.erase(s.cbegin(), s.cend() + 1); });
        }
        SCN("inplace_string<7>", "append(first,last)", "%s", "exceeds-capacity", false, { vf::Buf<char> b(3); std::memset(b.data(), 'x', 3); S7 s(std::size_t(6), 'a'); s.append(b.data(), b.data() + 3); });
        SCN("to_string<4>", "to_string(int)", "%s", "digits-exceed-capacity", true, { auto s = etl::to_string<4>(123456); use(s); });
    }

    // ---------------------------------------------------------------- string_view
    for (std::size_t n : {std::size_t(0), std::size_t(1), std::size_t(4)}) {
        for (std::size_t b : beyond) {
            std::size_t idx = b >= SMAX / 2 ? b : n + b;
            char sb[64];
            std::snprintf(sb, sizeof sb, "size=%zu,pos=%s", n, bcls(idx, n));
            SCN("string_view", "operator[](pos)", "%s", sb, true, { vf::Buf<char> h(n); std::memset(h.data(), 'a', n); etl::string_view v(h.data(), n); WATCH(v); use(v[idx]); });
        }
        for (std::size_t b : {std::size_t(1), std::size_t(2), SMAX / 2 + 1, SMAX}) {
            std::size_t k = b >= SMAX / 2 ? b : n + b;
            SCN("string_view", "remove_prefix(n)", "size=%zu,n>size", n, true, { vf::Buf<char> h(n); std::memset(h.data(), 'a', n); etl::string_view v(h.data(), n); WATCH(v); v.remove_prefix(k); });
            SCN("string_view", "remove_suffix(n)", "size=%zu,n>size", n, true, { vf::Buf<char> h(n); std::memset(h.data(), 'a', n); etl::string_view v(h.data(), n); WATCH(v); v.remove_suffix(k); });
            SCN("string_view", "substr(pos,count)", "size=%zu,pos>size", n, true, { vf::Buf<char> h(n); std::memset(h.data(), 'a', n); etl::string_view v(h.data(), n); WATCH(v); use(v.substr(k, 1)); });
            SCN("string_view", "copy(dest,count,pos)", "size=%zu,pos>size", n, true, { vf::Buf<char> h(n); std::memset(h.data(), 'a', n); vf::Buf<char> d(2); etl::string_view v(h.data(), n); WATCH(v); use(v.copy(d.data(), 1, k)); });
            SCN("string_view", "compare(pos1,count1,sv)", "size=%zu,pos1>size", n, true, { vf::Buf<char> h(n); std::memset(h.data(), 'a', n); etl::string_view v(h.data(), n); WATCH(v); use(v.compare(k, 1, v)); });
        }
    }
    // a violated position precondition must fire whatever the OTHER arguments are (count 0, 1, npos): a "nothing to do" shortcut must not
    // come before the check
    for (std::size_t n : {std::size_t(0), std::size_t(2), std::size_t(5)}) {
        for (std::size_t cnt : {std::size_t(0), std::size_t(1), SMAX}) {
            for (std::size_t b : {std::size_t(1), SMAX / 2 + 1}) {
                std::size_t k = b >= SMAX / 2 ? b : n + b;
                char sb[64];
                std::snprintf(sb, sizeof sb, "size=%zu,pos>size,count=%s", n, cnt == 0 ? "0" : (cnt == SMAX ? "npos" : "1"));
                SCN("string_view", "substr(pos,count)", "%s", sb, true, { vf::Buf<char> h(n); std::memset(h.data(), 'a', n); etl::string_view v(h.data(), n); WATCH(v); use(v.substr(k, cnt)); });
                SCN("string_view", "copy(dest,count,pos)", "%s", sb, true, { vf::Buf<char> h(n); std::memset(h.data(), 'a', n); vf::Buf<char> d(8); etl::string_view v(h.data(), n); WATCH(v); use(v.copy(d.data(), cnt == SMAX ? 8 : cnt, k)); });
                SCN("string_view", "compare(pos1,count1,sv)", "%s", sb, true, { vf::Buf<char> h(n); std::memset(h.data(), 'a', n); etl::string_view v(h.data(), n); WATCH(v); use(v.compare(k, cnt, v)); });
                SCN("string_view", "compare(pos1,count1,ptr,count2)", "%s", sb, true, { vf::Buf<char> h(n + 1); std::memset(h.data(), 'a', n + 1); etl::string_view v(h.data(), n); WATCH(v); use(v.compare(k, cnt, h.data(), 1)); });
                SCN("inplace_string<7>", "compare(pos,count,str)", "%s", sb, true, { etl::inplace_string<7> x(n, 'a'); WATCH(x); use(x.compare(k, cnt, x)); });
                SCN("inplace_string<7>", "insert(index,count,ch)", "%s", sb, true, { etl::inplace_string<7> x(n, 'a'); WATCH(x); x.insert(k, cnt == SMAX ? 1 : cnt, 'b'); });
                SCN("inplace_string<20>", "insert(index,count,ch)", "%s", sb, true, { etl::inplace_string<20> x(n, 'a'); WATCH(x); x.insert(k, cnt == SMAX ? 1 : cnt, 'b'); });
            }
        }
    }
    // (inplace_string::substr documents "pos > size() returns an empty string", so substr and the members built on it - append/assign/constructor
    // from (str,pos,count) - have no position precondition and are not scenarios)
    // preconditions on a position inside the OTHER object: the two objects have different sizes (both orders) and the position lies
    // between the two sizes or behind both
    for (std::size_t n : {std::size_t(1), std::size_t(6)}) {       // size of *this
        for (std::size_t m : {std::size_t(1), std::size_t(6)}) {   // size of the argument
            if (n == m) { continue; }
            for (std::size_t p2 : {m + 1, m + 3, SMAX / 2 + 1}) {
                char sb[64];
                std::snprintf(sb, sizeof sb, "size=%zu,arg-size=%zu,pos2=%s", n, m, p2 > SMAX / 2 ? "SIZE_MAX/2+1" : (p2 <= n ? "arg-size<pos2<=size" : "beyond-both"));
                SCN("string_view", "compare(pos1,count1,sv,pos2,count2)", "%s", sb, true, { vf::Buf<char> h(8); std::memset(h.data(), 'a', 8); etl::string_view v(h.data(), n); etl::string_view w(h.data(), m); WATCH(v); use(v.compare(0, 1, w, p2, 1)); });
                SCN("inplace_string<7>", "compare(pos1,count1,str,pos2,count2)", "%s", sb, true, { etl::inplace_string<7> x(n, 'a'); etl::inplace_string<7> y(m, 'b'); WATCH(x); use(x.compare(0, 1, y, p2, 1)); });
                SCN("inplace_string<7>", "insert(index,str,index_str,count)", "%s", sb, true, { etl::inplace_string<7> x(std::size_t(1), 'a'); etl::inplace_string<7> y(m, 'b'); (void)n; WATCH(x); x.insert(0, y, p2, 1); });
                SCN("inplace_string<20>", "replace(pos,count,str,pos2,count2)", "%s", sb, true, { etl::inplace_string<20> x(n + 3, 'a'); etl::inplace_string<20> y(m, 'b'); WATCH(x); x.replace(0, 1, y, p2, 1); });
            }
        }
    }
    SCN("string_view", "front()", "%s", "empty", true, { etl::string_view v; WATCH(v); use(v.front()); });
    SCN("string_view", "back()", "%s", "empty", true, { etl::string_view v; WATCH(v); use(v.back()); });

    // ---------------------------------------------------------------- span
    for (std::size_t n : {std::size_t(0), std::size_t(1), std::size_t(3)}) {
        for (std::size_t b : beyond) {
            std::size_t idx = b >= SMAX / 2 ? b : n + b;
            char sb[64];
            std::snprintf(sb, sizeof sb, "size=%zu,idx=%s", n, bcls(idx, n));
            SCN("span<int>", "operator[](idx)", "%s", sb, true, { vf::Buf<int> h(n); etl::span<int> s(h.data(), n); WATCH(s); use(s[idx]); });
        }
        for (std::size_t b : {std::size_t(1), std::size_t(2), SMAX / 2 + 1, SMAX - 1}) {
            std::size_t k = b >= SMAX / 2 ? b : n + b;
            SCN("span<int>", "first(count)", "size=%zu,count>size", n, true, { vf::Buf<int> h(n); etl::span<int> s(h.data(), n); WATCH(s); use(s.first(k)); });
            SCN("span<int>", "last(count)", "size=%zu,count>size", n, true, { vf::Buf<int> h(n); etl::span<int> s(h.data(), n); WATCH(s); use(s.last(k)); });
            SCN("span<int>", "subspan(offset,count)", "size=%zu,offset>size", n, true, { vf::Buf<int> h(n); etl::span<int> s(h.data(), n); WATCH(s); use(s.subspan(k)); });
            SCN("span<int>", "subspan(offset,count)", "size=%zu,count>size-offset", n, true, { vf::Buf<int> h(n); etl::span<int> s(h.data(), n); WATCH(s); use(s.subspan(n / 2, k)); });
        }
    }
    for (std::size_t n : {std::size_t(2), std::size_t(3), std::size_t(6)}) {
        for (std::size_t off : {std::size_t(1), std::size_t(2), n}) {
            // counts whose sum with the offset wraps around SIZE_MAX: the check must not be written as offset + count <= size()
            for (std::size_t k : {SMAX - 1, SMAX - off + 1, SMAX - off, SMAX / 2 + 1}) {
                if (k == SMAX) { continue; } // dynamic_extent means "rest"
                char sb[64];
                std::snprintf(sb, sizeof sb, "size=%zu,offset=%zu,count-wraps", n, off);
                SCN("span<int>", "subspan(offset,count)", "%s", sb, true, { vf::Buf<int> h(n); etl::span<int> s(h.data(), n); WATCH(s); use(s.subspan(off, k)); });
            }
        }
    }
    SCN("span<int>", "front()", "%s", "empty", true, { etl::span<int> s; WATCH(s); use(s.front()); });
    SCN("span<int>", "back()", "%s", "empty", true, { etl::span<int> s; WATCH(s); use(s.back()); });
#if VF_SAFE
    for (std::size_t b : beyond) {
        std::size_t idx = b >= SMAX / 2 ? b : 3 + b;
        SCN("array<int,3>", "operator[](pos)", "%s", "SAFE-mode,pos>=size", true, { etl::array<int, 3> a{1, 2, 3}; WATCH(a); use(a[idx]); });
        SCN("array<int,3>", "operator[](pos) const", "%s", "SAFE-mode,pos>=size", true, { etl::array<int, 3> const a{1, 2, 3}; WATCH(a); use(a[idx]); });
    }
#endif

    // ---------------------------------------------------------------- optional / expected / variant
    SCN("optional<int>", "operator*() &", "%s", "empty", true, { etl::optional<int> o; WATCH(o); use(*o); });
    SCN("optional<int>", "operator*() const&", "%s", "empty", true, { etl::optional<int> const o; WATCH(o); use(*o); });
    SCN("optional<int>", "operator*() &&", "%s", "empty", true, { etl::optional<int> o; WATCH(o); int x = *static_cast<etl::optional<int>&&>(o); use(x); });
    SCN("optional<int>", "operator*() const&&", "%s", "empty", true, { etl::optional<int> const o; WATCH(o); int x = *static_cast<etl::optional<int> const&&>(o); use(x); });
    SCN("optional<tracked>", "operator*() &", "%s", "empty-after-reset", true, { etl::optional<vf::TCM> o(3); o.reset(); WATCH(o); use(*o); });
    SCN("optional<int&>", "operator*()", "%s", "empty", true, { etl::optional<int&> o; WATCH(o); use(*o); });
    {
        using X = etl::expected<int, int>;
        SCN("expected<int,int>", "operator*() &", "%s", "holds-error", true, { X e(etl::unexpect, 3); WATCH(e); use(*e); });
        SCN("expected<int,int>", "operator*() const&", "%s", "holds-error", true, { X const e(etl::unexpect, 3); WATCH(e); use(*e); });
        SCN("expected<int,int>", "operator*() &&", "%s", "holds-error", true, { X e(etl::unexpect, 3); WATCH(e); int x = *static_cast<X&&>(e); use(x); });
        SCN("expected<int,int>", "operator*() const&&", "%s", "holds-error", true, { X const e(etl::unexpect, 3); WATCH(e); int x = *static_cast<X const&&>(e); use(x); });
        SCN("expected<int,int>", "error() &", "%s", "holds-value", true, { X e(etl::in_place, 3); WATCH(e); use(e.error()); });
        SCN("expected<int,int>", "error() const&", "%s", "holds-value", true, { X const e(etl::in_place, 3); WATCH(e); use(e.error()); });
        SCN("expected<int,int>", "error() &&", "%s", "holds-value", true, { X e(etl::in_place, 3); WATCH(e); int x = static_cast<X&&>(e).error(); use(x); });
        SCN("expected<int,int>", "error() const&&", "%s", "holds-value", true, { X const e(etl::in_place, 3); WATCH(e); int x = static_cast<X const&&>(e).error(); use(x); });
    }
    {
        using V = etl::variant<int, char, long>;
        // every (active, requested) pair with active != requested
#define VPAIR(A, R)                                                                                                    \
    SCN("variant<int,char,long>", "operator[](index_v<I>) &", "active=" #A ",requested=%s", #R, true, { V v(etl::in_place_index<A>, 1); WATCH(v); use(v[etl::index_v<R>]); });          \
    SCN("variant<int,char,long>", "operator[](index_v<I>) const&", "active=" #A ",requested=%s", #R, true, { V const v(etl::in_place_index<A>, 1); WATCH(v); use(v[etl::index_v<R>]); }); \
    SCN("variant<int,char,long>", "unchecked_get<I>(v&)", "active=" #A ",requested=%s", #R, true, { V v(etl::in_place_index<A>, 1); WATCH(v); use(etl::unchecked_get<R>(v)); });        \
    SCN("variant<int,char,long>", "unchecked_get<I>(v const&)", "active=" #A ",requested=%s", #R, true, { V const v(etl::in_place_index<A>, 1); WATCH(v); use(etl::unchecked_get<R>(v)); }); \
    SCN("variant<int,char,long>", "operator[](index_v<I>) &&", "active=" #A ",requested=%s", #R, true, { V v(etl::in_place_index<A>, 1); WATCH(v); auto&& r = static_cast<V&&>(v)[etl::index_v<R>]; use(r); }); \
    SCN("variant<int,char,long>", "operator[](index_v<I>) const&&", "active=" #A ",requested=%s", #R, true, { V const v(etl::in_place_index<A>, 1); WATCH(v); auto&& r = static_cast<V const&&>(v)[etl::index_v<R>]; use(r); }); \
    SCN("variant<int,char,long>", "unchecked_get<I>(v&&)", "active=" #A ",requested=%s", #R, true, { V v(etl::in_place_index<A>, 1); WATCH(v); auto&& r = etl::unchecked_get<R>(static_cast<V&&>(v)); use(r); }); \
    SCN("variant<int,char,long>", "unchecked_get<I>(v const&&)", "active=" #A ",requested=%s", #R, true, { V const v(etl::in_place_index<A>, 1); WATCH(v); auto&& r = etl::unchecked_get<R>(static_cast<V const&&>(v)); use(r); });
        VPAIR(0, 1)
        VPAIR(0, 2)
        VPAIR(1, 0)
        VPAIR(1, 2)
        VPAIR(2, 0)
        VPAIR(2, 1)
#undef VPAIR
    }

    // ---------------------------------------------------------------- bitset / bit ops / numeric / chrono / mdspan / cstring / set
    for (std::size_t b : beyond) {
        std::size_t p8 = b >= SMAX / 2 ? b : 8 + b, p65 = b >= SMAX / 2 ? b : 65 + b;
        SCN("bitset<8>", "set(pos,value)", "%s", bcls(p8, 8), true, { etl::bitset<8> x; WATCH(x); x.set(p8, true); });
        SCN("bitset<8>", "reset(pos)", "%s", bcls(p8, 8), true, { etl::bitset<8> x; WATCH(x); x.reset(p8); });
        SCN("bitset<8>", "flip(pos)", "%s", bcls(p8, 8), true, { etl::bitset<8> x; WATCH(x); x.flip(p8); });
        SCN("bitset<8>", "test(pos)", "%s", bcls(p8, 8), true, { etl::bitset<8> x; WATCH(x); use(x.test(p8)); });
        SCN("bitset<8>", "operator[](pos) const", "%s", bcls(p8, 8), true, { etl::bitset<8> const x; WATCH(x); bool r = x[p8]; use(r); });
        SCN("bitset<8>", "operator[](pos)", "%s", bcls(p8, 8), true, { etl::bitset<8> x; WATCH(x); x[p8] = true; });
        SCN("bitset<65>", "set(pos,value)", "%s", bcls(p65, 65), true, { etl::bitset<65> x; WATCH(x); x.set(p65, true); });
        SCN("bitset<65>", "test(pos)", "%s", bcls(p65, 65), true, { etl::bitset<65> x; WATCH(x); use(x.test(p65)); });
        SCN("basic_bitset<9,uint8>", "unchecked_set(pos,value)", "%s", bcls(b >= SMAX / 2 ? b : 9 + b, 9), true, { etl::basic_bitset<9, unsigned char> x; WATCH(x); x.unchecked_set(b >= SMAX / 2 ? b : 9 + b, true); });
        SCN("basic_bitset<9,uint8>", "unchecked_reset(pos)", "%s", bcls(b >= SMAX / 2 ? b : 9 + b, 9), true, { etl::basic_bitset<9, unsigned char> x; WATCH(x); x.unchecked_reset(b >= SMAX / 2 ? b : 9 + b); });
        SCN("basic_bitset<9,uint8>", "unchecked_flip(pos)", "%s", bcls(b >= SMAX / 2 ? b : 9 + b, 9), true, { etl::basic_bitset<9, unsigned char> x; WATCH(x); x.unchecked_flip(b >= SMAX / 2 ? b : 9 + b); });
        SCN("basic_bitset<9,uint8>", "unchecked_test(pos)", "%s", bcls(b >= SMAX / 2 ? b : 9 + b, 9), true, { etl::basic_bitset<9, unsigned char> x; WATCH(x); use(x.unchecked_test(b >= SMAX / 2 ? b : 9 + b)); });
        SCN("basic_bitset<9,uint8>", "operator[](pos) const", "%s", bcls(b >= SMAX / 2 ? b : 9 + b, 9), true, { etl::basic_bitset<9, unsigned char> const x; WATCH(x); bool r = x[b >= SMAX / 2 ? b : 9 + b]; use(r); });
    }
    for (unsigned pos : {8u, 9u, 255u}) {
        SCN("set_bit<uint8>", "set_bit(word,pos)", "pos=%u", pos, true, { use(etl::set_bit<unsigned char>(1, (unsigned char)pos)); });
        SCN("set_bit<uint8>", "set_bit(word,pos,value)", "pos=%u", pos, true, { use(etl::set_bit<unsigned char>(1, (unsigned char)pos, true)); });
        SCN("reset_bit<uint8>", "reset_bit(word,pos)", "pos=%u", pos, true, { use(etl::reset_bit<unsigned char>(1, (unsigned char)pos)); });
        SCN("flip_bit<uint8>", "flip_bit(word,pos)", "pos=%u", pos, true, { use(etl::flip_bit<unsigned char>(1, (unsigned char)pos)); });
        SCN("test_bit<uint8>", "test_bit(word,pos)", "pos=%u", pos, true, { use(etl::test_bit<unsigned char>(1, (unsigned char)pos)); });
    }
    for (unsigned pos : {32u, 33u, 0xFFFFFFFFu}) {
        SCN("set_bit<uint32>", "set_bit(word,pos)", "pos=%u", pos, true, { use(etl::set_bit<unsigned>(1u, pos)); });
        SCN("test_bit<uint32>", "test_bit(word,pos)", "pos=%u", pos, true, { use(etl::test_bit<unsigned>(1u, pos)); });
    }
    SCN("div_sat<int>", "div_sat(x,y)", "%s", "y=0", true, { volatile int z = 0; use(etl::div_sat(7, (int)z)); });
    SCN("div_sat<unsigned>", "div_sat(x,y)", "%s", "y=0", true, { volatile unsigned z = 0; use(etl::div_sat(7u, (unsigned)z)); });
    for (unsigned d : {256u, 257u, 100000u}) { // 255 is a valid (not ok) stored value: "may hold any number in [0, 255]"
        SCN("chrono::day", "day(unsigned)", "d=%u", d, true, { etl::chrono::day x(d); use(x); });
        SCN("chrono::month", "month(unsigned)", "m=%u", d, true, { etl::chrono::month x(d); use(x); });
    }
    {
        using Ext = etl::extents<int, 2, 3>;
        for (unsigned r : {2u, 3u, 255u}) {
            SCN("layout_left::mapping<extents<int,2,3>>", "stride(r)", "r=%u", r, true, { etl::layout_left::mapping<Ext> mp{Ext{}}; WATCH(mp); use(mp.stride((unsigned char)r)); });
            SCN("layout_right::mapping<extents<int,2,3>>", "stride(r)", "r=%u", r, true, { etl::layout_right::mapping<Ext> mp{Ext{}}; WATCH(mp); use(mp.stride((unsigned char)r)); });
        }
    }
    SCN("cstring", "strcpy(dest,src)", "%s", "dest=null", true, { vf::Buf<char> s(2); s[0] = 'a'; s[1] = 0; char* volatile d = nullptr; etl::strcpy(d, s.data()); });
    SCN("cstring", "strcpy(dest,src)", "%s", "src=null", true, { vf::Buf<char> d(2); char const* volatile s = nullptr; etl::strcpy(d.data(), s); });
    SCN("cstring", "strncpy(dest,src,n)", "%s", "src=null", true, { vf::Buf<char> d(2); char const* volatile s = nullptr; etl::strncpy(d.data(), s, 1); });
    SCN("cstring", "strchr(str,ch)", "%s", "str=null", true, { char const* volatile s = nullptr; use(etl::strchr((char const*)s, 'a')); });
    SCN("cstring", "memmove(dest,src,n)", "%s", "dest=null", true, { vf::Buf<char> s(2); void* volatile d = nullptr; etl::memmove(d, s.data(), 1); });
    SCN("cstring", "memmove(dest,src,n)", "%s", "src=null", true, { vf::Buf<char> d(2); void const* volatile s = nullptr; etl::memmove(d.data(), s, 1); });
    SCN("cstring", "strncpy(dest,src,n)", "%s", "dest=null", true, { vf::Buf<char> s(2); s[0] = 'a'; s[1] = 0; char* volatile d = nullptr; etl::strncpy(d, s.data(), 1); });
    SCN("cstring", "strchr(char*,ch)", "%s", "str=null", true, { char* volatile s = nullptr; use(etl::strchr((char*)s, 'a')); });
    SCN("cwchar", "wcscpy(dest,src)", "%s", "dest=null", true, { vf::Buf<wchar_t> s(2); s[0] = L'a'; s[1] = 0; wchar_t* volatile d = nullptr; etl::wcscpy(d, s.data()); });
    SCN("cwchar", "wcscpy(dest,src)", "%s", "src=null", true, { vf::Buf<wchar_t> d(2); wchar_t const* volatile s = nullptr; etl::wcscpy(d.data(), s); });
    SCN("cwchar", "wcsncpy(dest,src,n)", "%s", "dest=null", true, { vf::Buf<wchar_t> s(2); s[0] = L'a'; s[1] = 0; wchar_t* volatile d = nullptr; etl::wcsncpy(d, s.data(), 1); });
    SCN("cwchar", "wcsncpy(dest,src,n)", "%s", "src=null", true, { vf::Buf<wchar_t> d(2); wchar_t const* volatile s = nullptr; etl::wcsncpy(d.data(), s, 1); });
    // (bitset string constructors accept more characters than bits, like std::bitset: no precondition to violate)
    for (std::size_t b : beyond) {
        std::size_t p9 = b >= SMAX / 2 ? b : 9 + b;
        SCN("basic_bitset<9,uint8>", "operator[](pos)", "%s", bcls(p9, 9), true, { etl::basic_bitset<9, unsigned char> x; WATCH(x); x[p9] = true; });
    }
    {
        using E3 = etl::extents<int, etl::dynamic_extent>;
        using E2 = etl::extents<int, etl::dynamic_extent, etl::dynamic_extent>;
        SCN("linalg", "add(x,y,z)", "%s", "x.extents!=y.extents", true, { vf::Buf<int> a(3), b(4), c(3); etl::mdspan<int, E3> x(a.data(), 3), y(b.data(), 4), z(c.data(), 3); for (int i = 0; i < 3; ++i) { a[i] = c[i] = 0; } for (int i = 0; i < 4; ++i) { b[i] = 0; } etl::linalg::add(x, y, z); });
        SCN("linalg", "add(x,y,z)", "%s", "x.extents!=z.extents", true, { vf::Buf<int> a(3), b(3), c(2); etl::mdspan<int, E3> x(a.data(), 3), y(b.data(), 3), z(c.data(), 2); for (int i = 0; i < 3; ++i) { a[i] = b[i] = 0; } c[0] = c[1] = 0; etl::linalg::add(x, y, z); });
        SCN("linalg", "copy(x,y)", "%s", "extents-differ", true, { vf::Buf<int> a(3), b(2); etl::mdspan<int, E3> x(a.data(), 3), y(b.data(), 2); for (int i = 0; i < 3; ++i) { a[i] = 0; } b[0] = b[1] = 0; etl::linalg::copy(x, y); });
        SCN("linalg", "swap_elements(x,y)", "%s", "extents-differ", true, { vf::Buf<int> a(3), b(2); etl::mdspan<int, E3> x(a.data(), 3), y(b.data(), 2); for (int i = 0; i < 3; ++i) { a[i] = 0; } b[0] = b[1] = 0; etl::linalg::swap_elements(x, y); });
        SCN("linalg", "matrix_vector_product(a,x,y)", "%s", "a.extent(1)!=x.extent(0)", true, { vf::Buf<int> a(6), b(2), c(2); for (int i = 0; i < 6; ++i) { a[i] = 1; } b[0] = b[1] = c[0] = c[1] = 0; etl::mdspan<int, E2> m(a.data(), 2, 3); etl::mdspan<int, E3> x(b.data(), 2), y(c.data(), 2); etl::linalg::matrix_vector_product(m, x, y); });
        SCN("linalg", "matrix_vector_product(a,x,y)", "%s", "a.extent(0)!=y.extent(0)", true, { vf::Buf<int> a(6), b(3), c(3); for (int i = 0; i < 6; ++i) { a[i] = 1; } for (int i = 0; i < 3; ++i) { b[i] = c[i] = 0; } etl::mdspan<int, E2> m(a.data(), 2, 3); etl::mdspan<int, E3> x(b.data(), 3), y(c.data(), 3); etl::linalg::matrix_vector_product(m, x, y); });
    }
    {
        using Ext = etl::extents<int, 2, 3>;
        for (unsigned r : {2u, 3u, 255u}) {
            SCN("layout_stride::mapping<extents<int,2,3>>", "stride(r)", "r=%u", r, true, { etl::array<int, 2> st{3, 1}; etl::layout_stride::mapping<Ext> mp(Ext{}, st); WATCH(mp); use(mp.stride((unsigned char)r)); });
        }
    }
    SCN("static_set<int,3>", "ctor(first,last)", "%s", "range>capacity", true, { vf::Buf<int> src(4); for (int i = 0; i < 4; ++i) { src[i] = i; } int const* f = src.data(); etl::static_set<int, 3> s(f, f + 4); use(s); });
    SCN("static_set<int,3>", "ctor(first,last)", "%s", "first>last", true, { vf::Buf<int> src(4); for (int i = 0; i < 4; ++i) { src[i] = i; } int const* f = src.data(); etl::static_set<int, 3> s(f + 2, f); use(s); });
}

unsigned count_scenarios()
{
    Meta m{};
    Tab t{NONE, 0, false, &m};
    table(t);
    return t.k;
}

vf::Spec spec(vf::Tier)
{
    vf::Spec s;
    s.n_enum     = count_scenarios();
    s.n_random   = 0;
    s.batch      = 16;
    s.timeout_s  = 120;
    s.exhaustive = true;
    return s;
}

void run_case(vf::Case& c)
{
    Meta meta{};
    {
        Tab t{(unsigned)c.index, 0, false, &meta};
        table(t); // fetch the scenario's identity
        if (!t.hit) { return; }
    }
    vf::crumb(meta.subject, meta.op, meta.sit, "scenario %llu", (unsigned long long)c.index);
    vf::Shared* sh        = vf::g().sh;
    sh->contract_fired    = 0;
    sh->contract_expected = 1;
    sh->c_unmodified      = -1;
    sh->c_file[0] = sh->c_func[0] = sh->c_expr[0] = 0;
    sh->c_line            = 0;
    vf::ForkOutcome o = vf::fork_call([&] {
        Tab t{(unsigned)c.index, 0, true, &meta};
        table(t);
    });
    sh->contract_expected = 0;
    vf::cover(meta.op, vf::mix(c.index, 7), true);
    if (vf::want_sample(meta.subject)) {
        vf::sample(meta.subject, "%s %s [%s] -> exit=%d sig=%d handler=%d at %s:%d expr=%s unmodified=%d", meta.subject, meta.op, meta.sit, o.code, o.sig,
            sh->contract_fired, sh->c_file, sh->c_line, sh->c_expr, sh->c_unmodified);
    }
    if (meta.valid) {
        if (o.timeout) {
            vf::record("hang", "timeout", "valid boundary call did not return", "normal return");
        } else if (o.exited && o.code == 77 && sh->contract_fired) {
            char obs[200];
            std::snprintf(obs, sizeof obs, "handler entered at %s:%d (%s)", sh->c_file, sh->c_line, sh->c_expr);
            vf::record("contract-spurious", "handler-on-valid-call", obs, "normal return (valid arguments never invoke the handler)");
        } else if (!(o.exited && o.code == 5)) {
            char obs[96];
            std::snprintf(obs, sizeof obs, "exit=%d signal=%d", o.code, o.sig);
            vf::record("crash", "valid-boundary-call", obs, "normal return");
        }
        return;
    }
    if (o.timeout) {
        vf::record("hang", "timeout", "violating call did not return and did not reach the handler", "handler");
        return;
    }
    if (o.exited && o.code == 77 && sh->contract_fired) {
        if (sh->c_file[0] == 0 || sh->c_line <= 0 || sh->c_expr[0] == 0) {
            vf::record("contract-missed", "handler-without-location", "assert_msg file/line/expression empty", "failing location reported");
        }
        if (meta.args_only && sh->c_unmodified == 0) {
            vf::record("contract-damage", "object-modified-before-handler", "object bytes differ from the pre-call snapshot", "unmodified (violation visible from the arguments)");
        }
        // which check site fired (evidence: sites fired vs sites present in the tree)
        vf::Json j;
        j.str("k", "site").str("file", sh->c_file).num("line", (std::uint64_t)sh->c_line).str("expr", sh->c_expr).emit();
        return;
    }
    char obs[128];
    if (o.exited && o.code == 5) {
        vf::record("contract-missed", "returned-normally", "call returned without entering the assertion handler", "handler entered (exit 77)");
    } else if (o.exited && (o.code == 66 || o.code == 67)) {
        std::snprintf(obs, sizeof obs, "sanitizer report (exit %d) before/without the handler", o.code);
        vf::record("contract-late", o.code == 66 ? "asan-first" : "ubsan-first", obs, "handler entered first");
    } else if (!o.exited) {
        std::snprintf(obs, sizeof obs, "signal %d before/without the handler", o.sig);
        vf::record("contract-late", "signal-first", obs, "handler entered first");
    } else {
        std::snprintf(obs, sizeof obs, "exit status %d", o.code);
        vf::record("contract-missed", "other-exit", obs, "handler entered (exit 77)");
    }
}
} // namespace

VF_MAIN("C05", "C05_contracts", spec, run_case)
