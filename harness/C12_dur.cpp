// C12 - duration / time_point arithmetic and rounding casts are exact rational arithmetic.      (DESIGN 4, C12)
//
// Cells = ordered pairs of the 10 periods of the property x representation combinations.  Every cell runs
//   duration_cast, floor, ceil, round (ties to even), abs, unary +/-, ++/--, *= /= %= (scalar), implicit conversion,
//   conversion to the common type, + - / % == != < <= > >= between the two durations, compound += -= %=,
//   time_point floor/ceil/round, += -=, ++/--, comparisons,
// on counts [-200,200]+strided (quick) / [-2000,2000] (thorough), values near +-2^15, +-2^31, +-2^53, +-2^62 and the limits
// of the representation (those that stay representable), explicit exact multiples, exact ties and their neighbours.
// Oracle = std::chrono AND exact __int128 rational arithmetic; a call is only issued when the exact result and every
// intermediate of the standard's own formulation are representable (checked in __int128 first).
// Result *types* (common period, common rep, convertibility) are compared through compile-time booleans recorded at run time.
//
// Build-time selection (one source, many units so that the instantiations compile in parallel and a cell that does not
// compile on some tree only costs its own unit):
//   -DC12_FROM_LO=a -DC12_FROM_HI=b   From-period indices of this unit (all 10 To periods)
//   -DC12_REPSET=0..3                 0: i64/i64   1: i32/i32   2: i32->i64, i64->i32   3: f64/f64, i64->f64, f64->i64
//   -DC12_X=1                         only the nano x ratio<5,7> cells (need etl::lcm without the m*n overflow), all repsets
#include "vf.hpp"
#include "vf_contract.hpp"

#include <etl/chrono.hpp>
#include <etl/ratio.hpp>

#include <chrono>
#include <cmath>
#include <limits>
#include <ratio>
#include <type_traits>

#ifndef C12_FROM_LO
    #define C12_FROM_LO 0
#endif
#ifndef C12_FROM_HI
    #define C12_FROM_HI 9
#endif
#ifndef C12_REPSET
    #define C12_REPSET 0
#endif
#ifndef C12_X
    #define C12_X 0
#endif
#define C12_STR2(x) #x
#define C12_STR(x) C12_STR2(x)

namespace {
namespace ec = etl::chrono;
namespace sc = std::chrono;
using i128   = __int128;
using i32    = std::int32_t;
using i64    = std::int64_t;
using f64    = double;

// ------------------------------------------------------------------ periods of the property
template <int I> struct Per;
template <> struct Per<0> { static constexpr long long n = 1, d = 1000000000; };
template <> struct Per<1> { static constexpr long long n = 1, d = 1000000; };
template <> struct Per<2> { static constexpr long long n = 1, d = 1000; };
template <> struct Per<3> { static constexpr long long n = 1, d = 1; };
template <> struct Per<4> { static constexpr long long n = 60, d = 1; };
template <> struct Per<5> { static constexpr long long n = 3600, d = 1; };
template <> struct Per<6> { static constexpr long long n = 86400, d = 1; };
template <> struct Per<7> { static constexpr long long n = 1, d = 3; };
template <> struct Per<8> { static constexpr long long n = 5, d = 7; };
template <> struct Per<9> { static constexpr long long n = 1001, d = 30000; };
template <int I> using EP = etl::ratio<Per<I>::n, Per<I>::d>;
template <int I> using SP = std::ratio<Per<I>::n, Per<I>::d>;

template <typename R> struct RepName;
template <> struct RepName<i32> { static constexpr char const* s = "i32"; };
template <> struct RepName<i64> { static constexpr char const* s = "i64"; };
template <> struct RepName<f64> { static constexpr char const* s = "f64"; };

constexpr i128 gcd128(i128 a, i128 b)
{
    if (a < 0) { a = -a; }
    if (b < 0) { b = -b; }
    while (b != 0) {
        i128 t = a % b;
        a      = b;
        b      = t;
    }
    return a;
}
struct Fac {
    long long fn, fd; // From -> To conversion factor (reduced)
    long long f1, f2; // From / To -> common type factors (integers)
    long long cn, cd; // period of the common type
};
constexpr Fac fac(long long n1, long long d1, long long n2, long long d2)
{
    i128 a = (i128)n1 * d2, b = (i128)d1 * n2;
    i128 g = gcd128(a, b);
    Fac f{};
    f.fn   = (long long)(a / g);
    f.fd   = (long long)(b / g);
    i128 gn = gcd128(n1, n2);
    i128 ld = (i128)d1 / gcd128(d1, d2) * d2;
    f.f1   = (long long)(((i128)n1 / gn) * (ld / d1));
    f.f2   = (long long)(((i128)n2 / gn) * (ld / d2));
    f.cn   = (long long)gn;
    f.cd   = (long long)ld;
    return f;
}
template <typename R> constexpr bool fits(i128 x)
{
    return x >= (i128)std::numeric_limits<R>::min() && x <= (i128)std::numeric_limits<R>::max();
}
constexpr i128 fdiv(i128 a, i128 b) { return a / b - ((a % b != 0) && ((a < 0) != (b < 0))); } // b > 0
constexpr i128 cdiv(i128 a, i128 b) { return -fdiv(-a, b); }
constexpr i128 rdiv_even(i128 a, i128 b) // b > 0 ; nearest, ties to even
{
    i128 q = fdiv(a, b), r = a - q * b;
    if (2 * r < b) { return q; }
    if (2 * r > b) { return q + 1; }
    return (q % 2 == 0) ? q : q + 1;
}
std::string s128(i128 v)
{
    if (v == 0) { return "0"; }
    bool neg = v < 0;
    unsigned __int128 u = neg ? (unsigned __int128)0 - (unsigned __int128)v : (unsigned __int128)v;
    std::string s;
    while (u) {
        s.insert(s.begin(), (char)('0' + (int)(u % 10)));
        u /= 10;
    }
    return neg ? "-" + s : s;
}

// ------------------------------------------------------------------ per-cell context
struct Ctx {
    vf::Case* cs;
    bool random;
    char subj[96];
    std::uint64_t cellhash;
};

void oracle_disagree(Ctx& c, char const* op, i128 stdv, i128 exact, char const* args)
{
    vf::crumb("oracle", op, "std-vs-exact", "%s %s", c.subj, args);
    vf::diverge("oracles-disagree", "std=" + s128(stdv), "exact=" + s128(exact));
}

char const* dir_sit(Fac const& F)
{
    if (F.fn == 1 && F.fd == 1) { return "same-period"; }
    if (F.fd == 1) { return "to-finer"; }
    if (F.fn == 1) { return "to-coarser"; }
    return "incommensurable";
}
char const* sign_sit(i128 c) { return c < 0 ? "neg" : (c == 0 ? "zero" : "pos"); }
char const* mag_sit(i128 c) { return (c >= -2000 && c <= 2000) ? "small" : "large"; }
// where c*fn/fd sits between two integers
char const* frac_sit(i128 num, i128 den)
{
    i128 q = fdiv(num, den), r = num - q * den;
    if (r == 0) { return "exact"; }
    if (2 * r < den) { return "below-half"; }
    if (2 * r > den) { return "above-half"; }
    return "tie";
}

// one compared evaluation of an integer-valued observable
#define EVAL(OP, SIT, ARGS, EXACT, SEXPR, EEXPR)                                                                       \
    do {                                                                                                               \
        i128 const x_      = (EXACT);                                                                                  \
        long long const s_ = (long long)(SEXPR);                                                                       \
        if ((i128)s_ != x_) { oracle_disagree(c, OP, s_, x_, ARGS); }                                                  \
        vf::crumb(c.subj, OP, SIT, "%s", ARGS);                                                                        \
        long long const e_ = (long long)(EEXPR);                                                                       \
        vf::cover(OP, vf::mix(c.cellhash, argh), true);                                                                \
        vf::eq_int("count", e_, s_);                                                                                   \
    } while (0)

#define EVALB(OP, SIT, ARGS, EXACT, SEXPR, EEXPR)                                                                      \
    do {                                                                                                               \
        bool const x_ = (EXACT);                                                                                       \
        bool const s_ = (SEXPR);                                                                                       \
        if (s_ != x_) { oracle_disagree(c, OP, s_, x_, ARGS); }                                                        \
        vf::crumb(c.subj, OP, SIT, "%s", ARGS);                                                                        \
        bool const e_ = (EEXPR);                                                                                       \
        vf::cover(OP, vf::mix(c.cellhash, argh), true);                                                                \
        vf::eq_bool("ret", e_, s_);                                                                                    \
    } while (0)

void type_fact(Ctx& c, char const* what, bool etl_side, bool std_side)
{
    vf::crumb(c.subj, what, "type-level", "compile-time boolean");
    vf::cover("type-level", vf::mix(c.cellhash, vf::fnv(what)), true);
    vf::eq_bool("value", etl_side, std_side);
}

template <typename A, typename B> constexpr bool can_mul = requires(A a, B b) { a * b; };
template <typename A, typename B> constexpr bool can_div = requires(A a, B b) { a / b; };
template <typename A, typename B> constexpr bool can_mod = requires(A a, B b) { a % b; };
template <typename A, typename B> constexpr bool can_add = requires(A a, B b) { a + b; };
template <typename A, typename B> constexpr bool can_sub = requires(A a, B b) { a - b; };
template <typename A, typename B> constexpr bool can_3way = requires(A a, B b) { a <=> b; };

void absent(char const* what, bool present)
{
    if (!present) {
        char label[72];
        std::snprintf(label, sizeof label, "absent-api: %s", what);
        vf::sample(label, "%s is not provided by tetl (skipped, not a divergence)", what);
    }
}

// ------------------------------------------------------------------ count generators
void push_unique(std::vector<i128>& v, i128 x)
{
    for (i128 y : v) {
        if (y == x) { return; }
    }
    v.push_back(x);
}

template <typename R1, typename R2>
std::vector<i128> unary_counts(Ctx& c, Fac const& F)
{
    std::vector<i128> v;
    auto add = [&](i128 x) {
        if (fits<R1>(x)) { v.push_back(x); }
    };
    if (c.random) {
        vf::Rng& r = c.cs->rng;
        for (int i = 0; i < 96; ++i) {
            int bits  = (int)r.below(std::numeric_limits<R1>::digits + 1);
            i128 mag  = bits == 0 ? 0 : (i128)(r.next() >> (64 - bits));
            add(r.coin() ? mag : -mag);
        }
        for (int i = 0; i < 32; ++i) { add(r.range(-100000, 100000)); }
        return v;
    }
    int const dense = c.cs->tier == vf::Tier::thorough ? 2000 : 200;
    for (int k = -dense; k <= dense; ++k) { add(k); }
    for (int k = dense + 1; k <= 2000; k += 37) {
        add(k);
        add(-k);
    }
    // exact multiples, their neighbours, exact ties and their neighbours (of the From -> To conversion)
    for (int k = -40; k <= 40; ++k) {
        i128 m = (i128)k * F.fd;
        add(m);
        add(m + 1);
        add(m - 1);
        i128 x = (i128)(2 * k + 1) * F.fd;
        if (x % (2 * (i128)F.fn) == 0) {
            i128 t = x / (2 * (i128)F.fn);
            add(t);
            add(t + 1);
            add(t - 1);
        }
    }
    // values near powers of two and the limits, directly and scaled by the factors so that results / intermediates land there
    i128 const bases[] = {(i128)1 << 15, (i128)1 << 31, (i128)1 << 53, (i128)1 << 62, (i128)1 << 63, (i128)std::numeric_limits<R1>::max(),
        (i128)std::numeric_limits<R2>::max()};
    long long const scales[] = {1, F.fn, F.fd, F.f1, F.f2};
    for (i128 b : bases) {
        for (int dlt = -3; dlt <= 3; ++dlt) {
            for (long long sc_ : scales) {
                i128 x = (b + dlt);
                add(x / sc_);
                add(-(x / sc_));
                add(x / sc_ + 1);
                add(-(x / sc_) - 1);
                if (F.fn != 1) {
                    add(x * F.fd / F.fn);
                    add(-(x * F.fd / F.fn));
                }
            }
        }
    }
    add((i128)std::numeric_limits<R1>::min());
    add((i128)std::numeric_limits<R1>::min() + 1);
    return v;
}

// ------------------------------------------------------------------ integer cell
template <typename R1, int I1, typename R2, int I2>
struct IntCell {
    using EF   = ec::duration<R1, EP<I1>>;
    using ET   = ec::duration<R2, EP<I2>>;
    using SF   = sc::duration<R1, SP<I1>>;
    using ST   = sc::duration<R2, SP<I2>>;
    using CRep = std::common_type_t<R1, R2>;
    using ECD  = etl::common_type_t<EF, ET>;
    using SCD  = std::common_type_t<SF, ST>;
    using ETPF = ec::time_point<ec::system_clock, EF>;
    using ETPT = ec::time_point<ec::system_clock, ET>;
    using STPF = sc::time_point<sc::system_clock, SF>;
    using STPT = sc::time_point<sc::system_clock, ST>;
    static constexpr Fac F = fac(Per<I1>::n, Per<I1>::d, Per<I2>::n, Per<I2>::d);

    static bool cast_ok(i128 cc)
    {
        // the standard's formulation: CR = common_type<ToRep, FromRep, intmax_t> = 64 bit; num==1: c/den ; den==1: c*num ; else c*num/den
        if (!fits<i64>(cc * F.fn)) { return false; }
        return fits<R2>(cc * F.fn / F.fd);
    }
    static bool common_ok1(i128 cc) { return fits<i64>(cc * F.f1) && fits<CRep>(cc * F.f1); }
    static bool common_ok2(i128 cc) { return fits<i64>(cc * F.f2) && fits<CRep>(cc * F.f2); }

    static void types(Ctx& c)
    {
        type_fact(c, "common_type::period::num", (long long)ECD::period::num == F.cn, (long long)SCD::period::num == F.cn);
        type_fact(c, "common_type::period::den", (long long)ECD::period::den == F.cd, (long long)SCD::period::den == F.cd);
        type_fact(c, "common_type::rep", std::is_same_v<typename ECD::rep, CRep>, std::is_same_v<typename SCD::rep, CRep>);
        type_fact(c, "common_type symmetric", std::is_same_v<ECD, etl::common_type_t<ET, EF>>, std::is_same_v<SCD, std::common_type_t<ST, SF>>);
        type_fact(c, "decltype(a+b)", std::is_same_v<decltype(EF{} + ET{}), ECD>, std::is_same_v<decltype(SF{} + ST{}), SCD>);
        type_fact(c, "decltype(a-b)", std::is_same_v<decltype(EF{} - ET{}), ECD>, std::is_same_v<decltype(SF{} - ST{}), SCD>);
        type_fact(c, "decltype(a%b)", std::is_same_v<decltype(EF{} % ET{}), ECD>, std::is_same_v<decltype(SF{} % ST{}), SCD>);
        type_fact(c, "decltype(a/b)", std::is_same_v<decltype(EF{} / ET{}), CRep>, std::is_same_v<decltype(SF{} / ST{}), CRep>);
        type_fact(c, "is_convertible<From,To>", etl::is_convertible_v<EF, ET>, std::is_convertible_v<SF, ST>);
        type_fact(c, "is_convertible<To,From>", etl::is_convertible_v<ET, EF>, std::is_convertible_v<ST, SF>);
        type_fact(c, "is_constructible<To,From>", std::is_constructible_v<ET, EF>, std::is_constructible_v<ST, SF>);
        type_fact(c, "period::num", (long long)EF::period::num == Per<I1>::n, (long long)SF::period::num == Per<I1>::n);
        type_fact(c, "period::den", (long long)EF::period::den == Per<I1>::d, (long long)SF::period::den == Per<I1>::d);
        type_fact(c, "decltype(duration_cast<To>)", std::is_same_v<decltype(ec::duration_cast<ET>(EF{})), ET>, std::is_same_v<decltype(sc::duration_cast<ST>(SF{})), ST>);
        type_fact(c, "decltype(floor<To>(tp))", std::is_same_v<decltype(ec::floor<ET>(ETPF{})), ETPT>, std::is_same_v<decltype(sc::floor<ST>(STPF{})), STPT>);
        type_fact(c, "common_type<time_point>", std::is_same_v<etl::common_type_t<ETPF, ETPT>, ec::time_point<ec::system_clock, ECD>>,
            std::is_same_v<std::common_type_t<STPF, STPT>, sc::time_point<sc::system_clock, SCD>>);
        absent("duration * rep", can_mul<EF, R1>);
        absent("rep * duration", can_mul<R1, EF>);
        absent("duration / rep", can_div<EF, R1>);
        absent("duration % rep", can_mod<EF, R1>);
        absent("duration <=> duration", can_3way<EF, ET>);
        absent("time_point + duration", can_add<ETPF, EF>);
        absent("duration + time_point", can_add<EF, ETPF>);
        absent("time_point - duration", can_sub<ETPF, EF>);
        absent("time_point - time_point", can_sub<ETPF, ETPF>);
        absent("time_point <=> time_point", can_3way<ETPF, ETPT>);
    }

    static void unary(Ctx& c, i128 cc)
    {
        char args[96];
        std::snprintf(args, sizeof args, "count=%s", s128(cc).c_str());
        std::uint64_t const argh = (std::uint64_t)(long long)cc;
        R1 const v               = (R1)cc;
        EF const ef{v};
        SF const sf{v};
        i128 const num = cc * F.fn; // exact value in To ticks = num / fd
        char sit[96];
        std::snprintf(sit, sizeof sit, "%s,%s,%s,%s", dir_sit(F), sign_sit(cc), frac_sit(num, F.fd), mag_sit(cc));
        char sit0[96];
        std::snprintf(sit0, sizeof sit0, "%s,%s", sign_sit(cc), mag_sit(cc));

        if (cast_ok(cc)) {
            i128 const tr = num / F.fd; // truncation toward zero
            EVAL("duration_cast<To>(from)", sit, args, tr, sc::duration_cast<ST>(sf).count(), ec::duration_cast<ET>(ef).count());
            bool const cmp_ok = common_ok1(cc) && common_ok2(tr);
            i128 const fl = fdiv(num, F.fd), ce = cdiv(num, F.fd);
            if (cmp_ok && fits<R2>(fl)) {
                EVAL("floor<To>(from)", sit, args, fl, sc::floor<ST>(sf).count(), ec::floor<ET>(ef).count());
                EVAL("floor<To>(time_point)", sit, args, fl, sc::floor<ST>(STPF{sf}).time_since_epoch().count(), ec::floor<ET>(ETPF{ef}).time_since_epoch().count());
            }
            if (cmp_ok && fits<R2>(ce)) {
                EVAL("ceil<To>(from)", sit, args, ce, sc::ceil<ST>(sf).count(), ec::ceil<ET>(ef).count());
                EVAL("ceil<To>(time_point)", sit, args, ce, sc::ceil<ST>(STPF{sf}).time_since_epoch().count(), ec::ceil<ET>(ETPF{ef}).time_since_epoch().count());
            }
            // round: low = floor, high = low + 1, (dur - low) and (high - dur) in the common type
            if (cmp_ok && fits<R2>(fl) && fits<R2>(fl + 1) && common_ok2(fl) && common_ok2(fl + 1) && fits<CRep>(cc * F.f1 - fl * F.f2)
                && fits<CRep>((fl + 1) * F.f2 - cc * F.f1)) {
                i128 const rd = rdiv_even(num, F.fd);
                EVAL("round<To>(from)", sit, args, rd, sc::round<ST>(sf).count(), ec::round<ET>(ef).count());
                EVAL("round<To>(time_point)", sit, args, rd, sc::round<ST>(STPF{sf}).time_since_epoch().count(), ec::round<ET>(ETPF{ef}).time_since_epoch().count());
            }
            if constexpr (std::is_convertible_v<SF, ST> && etl::is_convertible_v<EF, ET>) { // lossless: fd == 1
                EVAL("To(from) implicit", sit, args, num, ST(sf).count(), ET(ef).count());
            }
        }
        if (common_ok1(cc)) { EVAL("common_type(from)", sit0, args, cc * F.f1, SCD(sf).count(), ECD(ef).count()); }
        if (cc != (i128)std::numeric_limits<R1>::min()) {
            EVAL("abs(d)", sit0, args, cc < 0 ? -cc : cc, sc::abs(sf).count(), ec::abs(ef).count());
            EVAL("-d", sit0, args, -cc, (-sf).count(), (-ef).count());
        }
        EVAL("+d", sit0, args, cc, (+sf).count(), (+ef).count());
        if (fits<R1>(cc + 1)) {
            EVAL("++d", sit0, args, cc + 1, (++SF(sf)).count(), (++EF(ef)).count());
            { SF s2 = sf; EF e2 = ef; EVAL("d++ (returned)", sit0, args, cc, (s2++).count(), (e2++).count()); vf::eq_int("state", e2.count(), s2.count()); }
            { STPF s2{sf}; ETPF e2{ef}; EVAL("++time_point", sit0, args, cc + 1, (++s2).time_since_epoch().count(), (++e2).time_since_epoch().count()); }
            { STPF s2{sf}; ETPF e2{ef}; EVAL("time_point++ (returned)", sit0, args, cc, (s2++).time_since_epoch().count(), (e2++).time_since_epoch().count()); vf::eq_int("state", e2.time_since_epoch().count(), s2.time_since_epoch().count()); }
        }
        if (fits<R1>(cc - 1)) {
            EVAL("--d", sit0, args, cc - 1, (--SF(sf)).count(), (--EF(ef)).count());
            { SF s2 = sf; EF e2 = ef; EVAL("d-- (returned)", sit0, args, cc, (s2--).count(), (e2--).count()); vf::eq_int("state", e2.count(), s2.count()); }
            { STPF s2{sf}; ETPF e2{ef}; EVAL("--time_point", sit0, args, cc - 1, (--s2).time_since_epoch().count(), (--e2).time_since_epoch().count()); }
            { STPF s2{sf}; ETPF e2{ef}; EVAL("time_point-- (returned)", sit0, args, cc, (s2--).time_since_epoch().count(), (e2--).time_since_epoch().count()); vf::eq_int("state", e2.time_since_epoch().count(), s2.time_since_epoch().count()); }
        }
        // scalar compound assignment
        long long const ks[] = {-7, -1, 1, 2, 3, 1000};
        for (long long k : ks) {
            char a2[96];
            std::snprintf(a2, sizeof a2, "count=%s k=%lld", s128(cc).c_str(), k);
            char s2[96];
            std::snprintf(s2, sizeof s2, "%s,%s,%s", sign_sit(cc), mag_sit(cc), k < 0 ? "k<0" : "k>0");
            if (fits<R1>(cc * k)) { SF s3 = sf; EF e3 = ef; EVAL("d*=k", s2, a2, cc * k, (s3 *= (R1)k).count(), (e3 *= (R1)k).count()); }
            if (fits<R1>(cc / k)) { SF s3 = sf; EF e3 = ef; EVAL("d/=k", s2, a2, cc / k, (s3 /= (R1)k).count(), (e3 /= (R1)k).count()); }
            if (fits<R1>(cc / k)) { SF s3 = sf; EF e3 = ef; EVAL("d%=k", s2, a2, cc % k, (s3 %= (R1)k).count(), (e3 %= (R1)k).count()); }
        }
    }

    static void binary(Ctx& c, i128 c1, i128 c2)
    {
        if (!common_ok1(c1) || !common_ok2(c2)) { return; }
        i128 const a = c1 * F.f1, b = c2 * F.f2;
        char args[96];
        std::snprintf(args, sizeof args, "lhs=%s rhs=%s", s128(c1).c_str(), s128(c2).c_str());
        std::uint64_t const argh = vf::mix((std::uint64_t)(long long)c1, (std::uint64_t)(long long)c2);
        EF const ef{(R1)c1};
        SF const sf{(R1)c1};
        ET const et{(R2)c2};
        ST const st{(R2)c2};
        char sit[96];
        std::snprintf(sit, sizeof sit, "%s,lhs-%s,rhs-%s,%s", dir_sit(F), sign_sit(c1), sign_sit(c2), a == b ? "equal" : (a < b ? "lhs<rhs" : "lhs>rhs"));
        if (fits<CRep>(a + b)) { EVAL("a+b", sit, args, a + b, (sf + st).count(), (ef + et).count()); }
        if (fits<CRep>(a - b)) { EVAL("a-b", sit, args, a - b, (sf - st).count(), (ef - et).count()); }
        if (b != 0 && fits<CRep>(a / b)) {
            EVAL("a/b", sit, args, a / b, sf / st, ef / et);
            EVAL("a%b", sit, args, a % b, (sf % st).count(), (ef % et).count());
        }
        EVALB("a==b", sit, args, a == b, sf == st, ef == et);
        EVALB("a!=b", sit, args, a != b, sf != st, ef != et);
        EVALB("a<b", sit, args, a < b, sf < st, ef < et);
        EVALB("a<=b", sit, args, a <= b, sf <= st, ef <= et);
        EVALB("a>b", sit, args, a > b, sf > st, ef > et);
        EVALB("a>=b", sit, args, a >= b, sf >= st, ef >= et);
        {
            ETPF const etf{ef};
            ETPT const ett{et};
            STPF const stf{sf};
            STPT const stt{st};
            EVALB("tp==tp", sit, args, a == b, stf == stt, etf == ett);
            EVALB("tp!=tp", sit, args, a != b, stf != stt, etf != ett);
            EVALB("tp<tp", sit, args, a < b, stf < stt, etf < ett);
            EVALB("tp<=tp", sit, args, a <= b, stf <= stt, etf <= ett);
            EVALB("tp>tp", sit, args, a > b, stf > stt, etf > ett);
            EVALB("tp>=tp", sit, args, a >= b, stf >= stt, etf >= ett);
        }
    }

    // same-type compound assignment (second operand re-typed as From)
    static void compound(Ctx& c, i128 c1, i128 c2)
    {
        if (!fits<R1>(c2)) { return; }
        char args[96];
        std::snprintf(args, sizeof args, "lhs=%s rhs=%s", s128(c1).c_str(), s128(c2).c_str());
        std::uint64_t const argh = vf::mix((std::uint64_t)(long long)c1, (std::uint64_t)(long long)c2 + 99);
        char sit[96];
        std::snprintf(sit, sizeof sit, "lhs-%s,rhs-%s", sign_sit(c1), sign_sit(c2));
        EF const e1{(R1)c1}, e2{(R1)c2};
        SF const s1{(R1)c1}, s2{(R1)c2};
        if (fits<R1>(c1 + c2)) {
            { SF s = s1; EF e = e1; EVAL("d+=d", sit, args, c1 + c2, (s += s2).count(), (e += e2).count()); }
            { STPF s{s1}; ETPF e{e1}; EVAL("time_point+=d", sit, args, c1 + c2, (s += s2).time_since_epoch().count(), (e += e2).time_since_epoch().count()); }
        }
        if (fits<R1>(c1 - c2)) {
            { SF s = s1; EF e = e1; EVAL("d-=d", sit, args, c1 - c2, (s -= s2).count(), (e -= e2).count()); }
            { STPF s{s1}; ETPF e{e1}; EVAL("time_point-=d", sit, args, c1 - c2, (s -= s2).time_since_epoch().count(), (e -= e2).time_since_epoch().count()); }
        }
        if (c2 != 0 && fits<R1>(c1 / c2)) { SF s = s1; EF e = e1; EVAL("d%=d", sit, args, c1 % c2, (s %= s2).count(), (e %= e2).count()); }
    }

    static void run(Ctx& c)
    {
        std::snprintf(c.subj, sizeof c.subj, "dur<%s,%lld/%lld>,dur<%s,%lld/%lld>", RepName<R1>::s, Per<I1>::n, Per<I1>::d, RepName<R2>::s, Per<I2>::n, Per<I2>::d);
        c.cellhash = vf::fnv(c.subj);
        if (!c.random) { types(c); }
        std::vector<i128> const us = unary_counts<R1, R2>(c, F);
        for (i128 cc : us) { unary(c, cc); }
        // binary: a thinned list of left operands x right operands chosen around lhs (in common ticks) and around zero
        std::size_t const step = c.random ? 2 : (c.cs->tier == vf::Tier::thorough ? 3 : 9);
        for (std::size_t i = 0; i < us.size(); i += step) {
            i128 const c1 = us[i];
            std::vector<i128> rs;
            i128 const near = (c1 * F.f1) / F.f2;
            for (int dlt = -1; dlt <= 1; ++dlt) { push_unique(rs, near + dlt); }
            i128 const smalls[] = {-7, -2, -1, 0, 1, 2, 3, 60, 1000};
            for (i128 s : smalls) { push_unique(rs, s); }
            push_unique(rs, -near);
            push_unique(rs, near / 2);
            push_unique(rs, near * 2 + 1);
            if (c.random) { push_unique(rs, c.cs->rng.range(-100000, 100000)); }
            for (i128 c2 : rs) {
                if (fits<R2>(c2)) { binary(c, c1, c2); }
                compound(c, c1, c2);
            }
        }
        if (vf::want_sample("cell")) { vf::sample("cell", "%s: %zu counts x unary ops, %zu left operands x ~14 right operands x binary ops", c.subj, us.size(), us.size() / step + 1); }
    }
};

// ------------------------------------------------------------------ floating cells
// a count is the exact rational q/4
struct Q4 {
    i128 q;
    double value() const { return (double)(long long)q / 4.0; }
};
// exact rational p/r -> is it a double?  (r > 0)
bool representable(i128 p, i128 r, double& out)
{
    i128 g = gcd128(p, r);
    if (g != 0) {
        p /= g;
        r /= g;
    }
    if ((r & (r - 1)) != 0) { return false; } // denominator must be a power of two
    i128 ap = p < 0 ? -p : p;
    if (ap >= ((i128)1 << 53)) { return false; }
    if (r > ((i128)1 << 60)) { return false; }
    out = (double)(long long)p / (double)(long long)r;
    return true;
}
long long ulps(double a, double b)
{
    if (a == b) { return 0; }
    if (std::isnan(a) || std::isnan(b)) { return std::isnan(a) && std::isnan(b) ? 0 : 1000; }
    if (std::nextafter(a, b) == b) { return 1; }
    return 1000;
}
std::string sd(double v)
{
    char b[64];
    std::snprintf(b, sizeof b, "%.17g (%a)", v, v);
    return b;
}
// exact (p/r) where representable, otherwise within 1 ulp of std
void cmp_f(char const* name, double e, double s, bool has_exact, double exact)
{
    if (has_exact) {
        if (s != exact) {
            // std itself is not exact although the result is representable: only require tetl to be at least as good
            if (e == exact || e == s) { return; }
        } else if (e == exact) {
            return;
        }
        char sym[64];
        std::snprintf(sym, sizeof sym, "%s:%s", name, ulps(e, exact) == 1 ? "1ulp-off-exact" : (e > exact ? "greater" : "less"));
        vf::diverge(sym, sd(e), sd(exact));
        return;
    }
    if (ulps(e, s) <= 1) { return; }
    char sym[64];
    std::snprintf(sym, sizeof sym, "%s:%s", name, e > s ? "greater-by->1ulp" : "less-by->1ulp");
    vf::diverge(sym, sd(e), sd(s));
}
#define EVALF(OP, SIT, ARGS, P, R, SEXPR, EEXPR)                                                                       \
    do {                                                                                                               \
        double x_          = 0;                                                                                        \
        bool const hx_     = representable((P), (R), x_);                                                              \
        double const s_    = (SEXPR);                                                                                  \
        vf::crumb(c.subj, OP, SIT, "%s", ARGS);                                                                        \
        double const e_    = (EEXPR);                                                                                  \
        vf::cover(OP, vf::mix(c.cellhash, argh), true);                                                                \
        cmp_f("count", e_, s_, hx_, x_);                                                                               \
    } while (0)

std::vector<Q4> f_counts(Ctx& c, Fac const& F)
{
    std::vector<Q4> v;
    if (c.random) {
        for (int i = 0; i < 128; ++i) {
            int bits = (int)c.cs->rng.below(50);
            i128 mag = bits == 0 ? 0 : (i128)(c.cs->rng.next() >> (64 - bits));
            v.push_back(Q4{c.cs->rng.coin() ? mag : -mag});
        }
        return v;
    }
    int const dense = c.cs->tier == vf::Tier::thorough ? 8000 : 800;
    for (int k = -dense; k <= dense; ++k) { v.push_back(Q4{k}); }
    for (int k = -40; k <= 40; ++k) {
        v.push_back(Q4{(i128)k * F.fd * 4});
        v.push_back(Q4{(i128)k * F.fd * 4 + 1});
        v.push_back(Q4{(i128)(2 * k + 1) * F.fd * 2}); // (k + 1/2) * fd
    }
    i128 const big[] = {((i128)1 << 32) * 4 + 2, ((i128)1 << 40) * 4 + 1, ((i128)1 << 50) + 1, ((i128)1 << 52) - 1};
    for (i128 b : big) {
        v.push_back(Q4{b});
        v.push_back(Q4{-b});
    }
    return v;
}

// f64 -> f64 and i64 -> f64 (target is floating: every conversion is implicit; results may be fractional)
template <typename R1, int I1, int I2>
struct ToFloatCell {
    using EF  = ec::duration<R1, EP<I1>>;
    using ET  = ec::duration<f64, EP<I2>>;
    using SF  = sc::duration<R1, SP<I1>>;
    using ST  = sc::duration<f64, SP<I2>>;
    using ECD = etl::common_type_t<EF, ET>;
    using SCD = std::common_type_t<SF, ST>;
    static constexpr Fac F     = fac(Per<I1>::n, Per<I1>::d, Per<I2>::n, Per<I2>::d);
    static constexpr bool kInt = std::is_integral_v<R1>;

    static void run(Ctx& c)
    {
        std::snprintf(c.subj, sizeof c.subj, "dur<%s,%lld/%lld>,dur<f64,%lld/%lld>", RepName<R1>::s, Per<I1>::n, Per<I1>::d, Per<I2>::n, Per<I2>::d);
        c.cellhash = vf::fnv(c.subj);
        if (!c.random) {
            type_fact(c, "common_type::period::num", (long long)ECD::period::num == F.cn, (long long)SCD::period::num == F.cn);
            type_fact(c, "common_type::period::den", (long long)ECD::period::den == F.cd, (long long)SCD::period::den == F.cd);
            type_fact(c, "common_type::rep", std::is_same_v<typename ECD::rep, f64>, std::is_same_v<typename SCD::rep, f64>);
            type_fact(c, "is_convertible<From,To>", etl::is_convertible_v<EF, ET>, std::is_convertible_v<SF, ST>);
            type_fact(c, "is_convertible<To,From>", etl::is_convertible_v<ET, EF>, std::is_convertible_v<ST, SF>);
            type_fact(c, "treat_as_floating_point", ec::treat_as_floating_point_v<typename ET::rep>, sc::treat_as_floating_point_v<typename ST::rep>);
        }
        std::vector<Q4> const qs = f_counts(c, F);
        std::size_t nb           = 0;
        for (std::size_t i = 0; i < qs.size(); ++i) {
            Q4 q = qs[i];
            if (kInt) { q.q = (q.q / 4) * 4; } // integer source: whole ticks only
            if (kInt && i > 0 && qs[i - 1].q / 4 * 4 == q.q) { continue; }
            R1 const v = kInt ? (R1)(long long)(q.q / 4) : (R1)q.value();
            char args[96];
            std::snprintf(args, sizeof args, "count=%s/4", s128(q.q).c_str());
            std::uint64_t const argh = (std::uint64_t)(long long)q.q;
            EF const ef{v};
            SF const sf{v};
            i128 const p = q.q * F.fn, r = (i128)4 * F.fd; // exact value in To ticks
            double dummy;
            char sit[96];
            std::snprintf(sit, sizeof sit, "%s,%s,%s", dir_sit(F), sign_sit(q.q), representable(p, r, dummy) ? "result-representable" : "result-rounded");
            EVALF("duration_cast<To>(from)", sit, args, p, r, sc::duration_cast<ST>(sf).count(), ec::duration_cast<ET>(ef).count());
            EVALF("To(from) implicit", sit, args, p, r, ST(sf).count(), ET(ef).count());
            EVALF("common_type(from)", sit, args, q.q * F.f1, (i128)4, SCD(sf).count(), ECD(ef).count());
            if constexpr (!kInt) {
                EVALF("abs(d)", sit, args, q.q < 0 ? -q.q : q.q, (i128)4, sc::abs(sf).count(), ec::abs(ef).count());
                EVALF("-d", sit, args, -q.q, (i128)4, (-sf).count(), (-ef).count());
                { SF s2 = sf; EF e2 = ef; EVALF("d*=k", sit, args, q.q * 3, (i128)4, (s2 *= 3.0).count(), (e2 *= 3.0).count()); }
                { SF s2 = sf; EF e2 = ef; EVALF("d/=k", sit, args, q.q, (i128)32, (s2 /= 8.0).count(), (e2 /= 8.0).count()); }
            }
            // binary against a floating To operand
            if (i % (c.random ? 2 : 7) == 0) {
                ++nb;
                i128 const a4  = q.q * F.f1; // lhs in common ticks, times 4
                i128 const rq[] = {a4 / F.f2, a4 / F.f2 + 1, -a4 / F.f2, 0, 4, -6, 10, 1001};
                for (i128 r4 : rq) {
                    ET const et{(double)(long long)r4 / 4.0};
                    ST const st{(double)(long long)r4 / 4.0};
                    i128 const b4 = r4 * F.f2;
                    char a2[96];
                    std::snprintf(a2, sizeof a2, "lhs=%s/4 rhs=%s/4", s128(q.q).c_str(), s128(r4).c_str());
                    char s2[96];
                    std::snprintf(s2, sizeof s2, "%s,lhs-%s,rhs-%s,%s", dir_sit(F), sign_sit(q.q), sign_sit(r4), a4 == b4 ? "equal" : (a4 < b4 ? "lhs<rhs" : "lhs>rhs"));
                    EVALF("a+b", s2, a2, a4 + b4, (i128)4, (sf + st).count(), (ef + et).count());
                    EVALF("a-b", s2, a2, a4 - b4, (i128)4, (sf - st).count(), (ef - et).count());
                    if (b4 != 0) { EVALF("a/b", s2, a2, b4 < 0 ? -a4 : a4, b4 < 0 ? -b4 : b4, sf / st, ef / et); }
                    // comparisons are decided on the exactly converted operands whenever those are exact (< 2^53 quarter ticks)
                    double d1, d2;
                    if (representable(a4, 4, d1) && representable(b4, 4, d2)) {
                        bool const se = sf == st, sl = sf < st;
                        if (se != (a4 == b4) || sl != (a4 < b4)) { oracle_disagree(c, "compare", se, a4 == b4, a2); }
                        vf::crumb(c.subj, "compare", s2, "%s", a2);
                        vf::cover("compare (f64)", vf::mix(c.cellhash, vf::mix(argh, (std::uint64_t)(long long)r4)), true);
                        vf::eq_bool("==", ef == et, a4 == b4);
                        vf::eq_bool("!=", ef != et, a4 != b4);
                        vf::eq_bool("<", ef < et, a4 < b4);
                        vf::eq_bool("<=", ef <= et, a4 <= b4);
                        vf::eq_bool(">", ef > et, a4 > b4);
                        vf::eq_bool(">=", ef >= et, a4 >= b4);
                    }
                }
            }
        }
        if (vf::want_sample("cell")) { vf::sample("cell", "%s: %zu counts (quarters) x unary ops, %zu x 8 right operands x binary ops", c.subj, qs.size(), nb); }
    }
};

// f64 -> i64 : explicit casts only (duration_cast / floor / ceil / round)
template <int I1, int I2>
struct FromFloatCell {
    using EF = ec::duration<f64, EP<I1>>;
    using ET = ec::duration<i64, EP<I2>>;
    using SF = sc::duration<f64, SP<I1>>;
    using ST = sc::duration<i64, SP<I2>>;
    static constexpr Fac F = fac(Per<I1>::n, Per<I1>::d, Per<I2>::n, Per<I2>::d);

    static void one(Ctx& c, char const* op, char const* sit, char const* args, std::uint64_t argh, i128 exact, long long sv, long long ev_)
    {
        // the caller made the std call before the crumb and the etl call after it
        vf::cover(op, vf::mix(c.cellhash, argh), true);
        if (ev_ == sv || (i128)ev_ == exact) { return; } // same as std, or the exact value where std's double arithmetic rounded across an integer
        (void)sit;
        (void)args;
        vf::eq_int("count", ev_, (i128)sv == exact ? sv : (long long)exact);
    }
    static void run(Ctx& c)
    {
        std::snprintf(c.subj, sizeof c.subj, "dur<f64,%lld/%lld>,dur<i64,%lld/%lld>", Per<I1>::n, Per<I1>::d, Per<I2>::n, Per<I2>::d);
        c.cellhash = vf::fnv(c.subj);
        if (!c.random) {
            type_fact(c, "is_convertible<From,To>", etl::is_convertible_v<EF, ET>, std::is_convertible_v<SF, ST>);
            type_fact(c, "is_constructible<To,From>", std::is_constructible_v<ET, EF>, std::is_constructible_v<ST, SF>);
            type_fact(c, "is_constructible<dur<i64>,double>", std::is_constructible_v<ET, double>, std::is_constructible_v<ST, double>);
        }
        for (Q4 q : f_counts(c, F)) {
            i128 const p = q.q * F.fn, r = (i128)4 * F.fd;
            // keep every intermediate (count*num, the converted operands of the comparison) exactly representable
            i128 const lim = (i128)1 << 52;
            i128 const ap  = p < 0 ? -p : p;
            if (ap >= lim || ap / r >= ((i128)1 << 50)) { continue; }
            i128 const inCommon = q.q * F.f1;
            if ((inCommon < 0 ? -inCommon : inCommon) >= lim) { continue; }
            if ((fdiv(p, r) * F.f2 < 0 ? -(fdiv(p, r) * F.f2) : fdiv(p, r) * F.f2) >= lim / 8) { continue; }
            double const v = q.value();
            EF const ef{v};
            SF const sf{v};
            char args[96];
            std::snprintf(args, sizeof args, "count=%s/4", s128(q.q).c_str());
            std::uint64_t const argh = (std::uint64_t)(long long)q.q;
            char sit[96];
            std::snprintf(sit, sizeof sit, "%s,%s,%s", dir_sit(F), sign_sit(q.q), frac_sit(p, r));
            {
                long long const s = sc::duration_cast<ST>(sf).count();
                vf::crumb(c.subj, "duration_cast<To>(from)", sit, "%s", args);
                one(c, "duration_cast<To>(from)", sit, args, argh, p / r, s, ec::duration_cast<ET>(ef).count());
            }
            {
                long long const s = sc::floor<ST>(sf).count();
                vf::crumb(c.subj, "floor<To>(from)", sit, "%s", args);
                one(c, "floor<To>(from)", sit, args, argh, fdiv(p, r), s, ec::floor<ET>(ef).count());
            }
            {
                long long const s = sc::ceil<ST>(sf).count();
                vf::crumb(c.subj, "ceil<To>(from)", sit, "%s", args);
                one(c, "ceil<To>(from)", sit, args, argh, cdiv(p, r), s, ec::ceil<ET>(ef).count());
            }
            {
                long long const s = sc::round<ST>(sf).count();
                vf::crumb(c.subj, "round<To>(from)", sit, "%s", args);
                one(c, "round<To>(from)", sit, args, argh, rdiv_even(p, r), s, ec::round<ET>(ef).count());
            }
        }
    }
};

// ------------------------------------------------------------------ cell table
using CellFn = void (*)(Ctx&);
struct Cell {
    CellFn fn;
};
std::vector<Cell>& cells()
{
    static std::vector<Cell> v;
    return v;
}

constexpr bool x_pair(int a, int b) { return (a == 0 && b == 8) || (a == 8 && b == 0); }

template <int RS, int I1, int I2>
void add_cells()
{
    if constexpr (RS == 0) {
        cells().push_back({&IntCell<i64, I1, i64, I2>::run});
    } else if constexpr (RS == 1) {
        cells().push_back({&IntCell<i32, I1, i32, I2>::run});
    } else if constexpr (RS == 2) {
        cells().push_back({&IntCell<i32, I1, i64, I2>::run});
        cells().push_back({&IntCell<i64, I1, i32, I2>::run});
    } else {
        cells().push_back({&ToFloatCell<f64, I1, I2>::run});
        cells().push_back({&ToFloatCell<i64, I1, I2>::run});
        cells().push_back({&FromFloatCell<I1, I2>::run});
    }
}
template <int RS, int I1, int... I2s>
void add_row(std::integer_sequence<int, I2s...>)
{
    (([] {
        if constexpr (C12_X ? x_pair(I1, I2s) : !x_pair(I1, I2s)) { add_cells<RS, I1, I2s>(); }
    })(),
        ...);
}
template <int RS, int... I1s>
void add_rows(std::integer_sequence<int, I1s...>)
{
    (([] {
        if constexpr (I1s >= C12_FROM_LO && I1s <= C12_FROM_HI) { add_row<RS, I1s>(std::make_integer_sequence<int, 10>{}); }
    })(),
        ...);
}
void build_cells()
{
    if (!cells().empty()) { return; }
#if C12_X
    add_rows<0>(std::make_integer_sequence<int, 10>{});
    add_rows<1>(std::make_integer_sequence<int, 10>{});
    add_rows<2>(std::make_integer_sequence<int, 10>{});
    add_rows<3>(std::make_integer_sequence<int, 10>{});
#else
    add_rows<C12_REPSET>(std::make_integer_sequence<int, 10>{});
#endif
}

vf::Spec spec(vf::Tier t)
{
    build_cells();
    vf::Spec s;
    s.n_enum     = cells().size();
    s.n_random   = (t == vf::Tier::thorough ? 40 : 6) * cells().size();
    s.batch      = 1;
    s.timeout_s  = 600;
    s.exhaustive = true;
    return s;
}

void run_case(vf::Case& cs)
{
    build_cells();
    Ctx c{};
    c.cs     = &cs;
    c.random = !cs.enumerated;
    std::size_t cell = cs.enumerated ? (std::size_t)cs.index : (std::size_t)(cs.index % cells().size());
    cells()[cell].fn(c);
}
} // namespace

#if C12_X
VF_MAIN("C12", "C12_dur_x", spec, run_case)
#else
VF_MAIN("C12", "C12_dur_f" C12_STR(C12_FROM_LO) "_" C12_STR(C12_FROM_HI) "_r" C12_STR(C12_REPSET), spec, run_case)
#endif
