// C12 - duration / time_point arithmetic and rounding casts are exact rational arithmetic.      (DESIGN 4, C12)
//
// Cells = ordered pairs of the 10 periods of the property x representation combinations.  Every cell runs
//   duration_cast, floor, ceil, round (ties to even), abs, unary +/-, ++/--, *= /= %= (scalar), implicit conversion,
//   conversion to the common type, + - / % == != < <= > >= between the two durations, compound += -= %=,
//   time_point floor/ceil/round, += -=, ++/--, comparisons,
// on counts [-200,200]+strided (quick) / [-2000,2000] (thorough), values near +-2^15, +-2^31, +-2^53, +-2^62 and the limits
// of the representation (those that stay representable), explicit exact multiples, exact ties and their neighbours.
// Oracle = std::chrono AND exact __int128 rational arithmetic; a call is only issued when the exact result and every
// intermediate of the standard's own formulation are representable (checked in __int128 first).
// Result *types* (common period, common rep, convertibility) are compared through compile-time booleans recorded at run time.
//
// Structure: per cell only a table of tiny type-dependent functions (one per operation and library) is instantiated;
// the driver that generates counts, checks domains, leaves breadcrumbs and compares is ordinary non-template code.
//
// Build-time selection (one source, many units so that the instantiations compile in parallel and a cell that does not
// compile on some tree only costs its own unit):
//   -DC12_FROM_LO=a -DC12_FROM_HI=b   From-period indices of this unit (all 10 To periods)
//   -DC12_REPSET=0..5                 0: i64/i64   1: i32/i32   2: i32->i64, i64->i32   3: f64/f64, i64->f64, f64->i64
//                                     4: u32/u32, u64->i64, u16/u16   5: i64->u64, i32->u32, u32->i64, u16->i32
//   -DC12_PERSET=1                    second period family {4, 6, 9, 10, 15, 1/6, 1/10, 6/5, 4/7, 10/21} (numerators/denominators sharing factors)
//   -DC12_X=1                         only the nano x ratio<5,7> cells (need etl::lcm without the m*n overflow), all repsets
#include "vf.hpp"
#include "vf_contract.hpp"

#include <etl/chrono.hpp>
#include <etl/ratio.hpp>

#include <chrono>
#include <cmath>
#include <limits>
#include <ratio>
#include <type_traits>

#ifndef C12_FROM_LO
    #define C12_FROM_LO 0
#endif
#ifndef C12_FROM_HI
    #define C12_FROM_HI 9
#endif
#ifndef C12_REPSET
    #define C12_REPSET 0
#endif
#ifndef C12_X
    #define C12_X 0
#endif
#define C12_STR2(x) #x
#define C12_STR(x) C12_STR2(x)

namespace {
namespace ec = etl::chrono;
namespace sc = std::chrono;
using i128   = __int128;
using i32    = std::int32_t;
using i64    = std::int64_t;
using f64    = double;
using u16    = std::uint16_t;
using u32    = std::uint32_t;
using u64    = std::uint64_t;

// ------------------------------------------------------------------ periods of the property
template <int I> struct Per;
#ifndef C12_PERSET
    #define C12_PERSET 0
#endif
#if C12_PERSET == 0
template <> struct Per<0> { static constexpr long long n = 1, d = 1000000000; };
template <> struct Per<1> { static constexpr long long n = 1, d = 1000000; };
template <> struct Per<2> { static constexpr long long n = 1, d = 1000; };
template <> struct Per<3> { static constexpr long long n = 1, d = 1; };
template <> struct Per<4> { static constexpr long long n = 60, d = 1; };
template <> struct Per<5> { static constexpr long long n = 3600, d = 1; };
template <> struct Per<6> { static constexpr long long n = 86400, d = 1; };
template <> struct Per<7> { static constexpr long long n = 1, d = 3; };
template <> struct Per<8> { static constexpr long long n = 5, d = 7; };
template <> struct Per<9> { static constexpr long long n = 1001, d = 30000; };
#else
// second period family (-DC12_PERSET=1): composite numerators / denominators that share factors pairwise without dividing each other,
// so that the common type's period really needs gcd(num1, num2) / lcm(den1, den2) (4 with 6 -> 2, 6/5 with 4/7 -> 2/35, 1/6 with 1/10 -> 1/30 ...)
template <> struct Per<0> { static constexpr long long n = 4, d = 1; };
template <> struct Per<1> { static constexpr long long n = 6, d = 1; };
template <> struct Per<2> { static constexpr long long n = 9, d = 1; };
template <> struct Per<3> { static constexpr long long n = 10, d = 1; };
template <> struct Per<4> { static constexpr long long n = 15, d = 1; };
template <> struct Per<5> { static constexpr long long n = 1, d = 6; };
template <> struct Per<6> { static constexpr long long n = 1, d = 10; };
template <> struct Per<7> { static constexpr long long n = 6, d = 5; };
template <> struct Per<8> { static constexpr long long n = 4, d = 7; };
template <> struct Per<9> { static constexpr long long n = 10, d = 21; };
#endif
template <int I> using EP = etl::ratio<Per<I>::n, Per<I>::d>;
template <int I> using SP = std::ratio<Per<I>::n, Per<I>::d>;

template <typename R> struct RepName;
template <> struct RepName<i32> { static constexpr char const* s = "i32"; };
template <> struct RepName<i64> { static constexpr char const* s = "i64"; };
template <> struct RepName<f64> { static constexpr char const* s = "f64"; };
template <> struct RepName<u16> { static constexpr char const* s = "u16"; };
template <> struct RepName<u32> { static constexpr char const* s = "u32"; };
template <> struct RepName<u64> { static constexpr char const* s = "u64"; };

constexpr i128 gcd128(i128 a, i128 b)
{
    if (a < 0) { a = -a; }
    if (b < 0) { b = -b; }
    while (b != 0) {
        i128 t = a % b;
        a      = b;
        b      = t;
    }
    return a;
}
struct Fac {
    long long fn, fd; // From -> To conversion factor (reduced)
    long long f1, f2; // From / To -> common type factors (integers)
    long long cn, cd; // period of the common type
};
constexpr Fac fac(long long n1, long long d1, long long n2, long long d2)
{
    i128 a = (i128)n1 * d2, b = (i128)d1 * n2;
    i128 g = gcd128(a, b);
    Fac f{};
    f.fn    = (long long)(a / g);
    f.fd    = (long long)(b / g);
    i128 gn = gcd128(n1, n2);
    i128 ld = (i128)d1 / gcd128(d1, d2) * d2;
    f.f1    = (long long)(((i128)n1 / gn) * (ld / d1));
    f.f2    = (long long)(((i128)n2 / gn) * (ld / d2));
    f.cn    = (long long)gn;
    f.cd    = (long long)ld;
    return f;
}
struct Lim {
    i128 lo, hi;
    int digits;
    bool has(i128 x) const { return x >= lo && x <= hi; }
};
// counts travel through the type-erased tables as long long, so a u64 representation is exercised on [0, 2^63-1]
template <typename R> constexpr Lim lim_of()
{
    i128 const hi = (i128)std::numeric_limits<R>::max();
    i128 const cap = (i128)std::numeric_limits<i64>::max();
    return Lim{(i128)std::numeric_limits<R>::min(), hi > cap ? cap : hi, std::numeric_limits<R>::digits > 63 ? 63 : std::numeric_limits<R>::digits};
}
constexpr Lim kL64 = Lim{(i128)std::numeric_limits<i64>::min(), (i128)std::numeric_limits<i64>::max(), 63};

constexpr i128 iabs(i128 a) { return a < 0 ? -a : a; }
constexpr i128 fdiv(i128 a, i128 b) { return a / b - ((a % b != 0) && ((a < 0) != (b < 0))); } // b > 0
constexpr i128 cdiv(i128 a, i128 b) { return -fdiv(-a, b); }
constexpr i128 rdiv_even(i128 a, i128 b) // b > 0 ; nearest, ties to even
{
    i128 q = fdiv(a, b), r = a - q * b;
    if (2 * r < b) { return q; }
    if (2 * r > b) { return q + 1; }
    return (q % 2 == 0) ? q : q + 1;
}
std::string s128(i128 v)
{
    if (v == 0) { return "0"; }
    bool neg            = v < 0;
    unsigned __int128 u = neg ? (unsigned __int128)0 - (unsigned __int128)v : (unsigned __int128)v;
    std::string s;
    while (u) {
        s.insert(s.begin(), (char)('0' + (int)(u % 10)));
        u /= 10;
    }
    return neg ? "-" + s : s;
}

// ------------------------------------------------------------------ the two libraries behind one set of names
struct EL {
    template <typename T, typename D> static constexpr auto cast(D const& d) { return ec::duration_cast<T>(d); }
    template <typename T, typename D> static constexpr auto floor(D const& d) { return ec::floor<T>(d); }
    template <typename T, typename D> static constexpr auto ceil(D const& d) { return ec::ceil<T>(d); }
    template <typename T, typename D> static constexpr auto round(D const& d) { return ec::round<T>(d); }
    template <typename D> static constexpr auto abs(D const& d) { return ec::abs(d); }
    template <typename D> using tp = ec::time_point<ec::system_clock, D>;
    template <typename A, typename B> using common = etl::common_type_t<A, B>;
    template <typename A, typename B> static constexpr bool convertible = etl::is_convertible_v<A, B>;
};
struct SL {
    template <typename T, typename D> static constexpr auto cast(D const& d) { return sc::duration_cast<T>(d); }
    template <typename T, typename D> static constexpr auto floor(D const& d) { return sc::floor<T>(d); }
    template <typename T, typename D> static constexpr auto ceil(D const& d) { return sc::ceil<T>(d); }
    template <typename T, typename D> static constexpr auto round(D const& d) { return sc::round<T>(d); }
    template <typename D> static constexpr auto abs(D const& d) { return sc::abs(d); }
    template <typename D> using tp = sc::time_point<sc::system_clock, D>;
    template <typename A, typename B> using common = std::common_type_t<A, B>;
    template <typename A, typename B> static constexpr bool convertible = std::is_convertible_v<A, B>;
};

// ------------------------------------------------------------------ tiny type-dependent operations (L: library, F: From, T: To)
#define REPF typename F::rep
#define REPT typename T::rep
// unary: count of From -> integer observable
template <typename L, typename F, typename T> long long u_cast(long long c) { return L::template cast<T>(F{(REPF)c}).count(); }
template <typename L, typename F, typename T> long long u_floor(long long c) { return L::template floor<T>(F{(REPF)c}).count(); }
template <typename L, typename F, typename T> long long u_ceil(long long c) { return L::template ceil<T>(F{(REPF)c}).count(); }
template <typename L, typename F, typename T> long long u_round(long long c) { return L::template round<T>(F{(REPF)c}).count(); }
template <typename L, typename F, typename T> long long u_floor_tp(long long c) { return L::template floor<T>(typename L::template tp<F>{F{(REPF)c}}).time_since_epoch().count(); }
template <typename L, typename F, typename T> long long u_ceil_tp(long long c) { return L::template ceil<T>(typename L::template tp<F>{F{(REPF)c}}).time_since_epoch().count(); }
template <typename L, typename F, typename T> long long u_round_tp(long long c) { return L::template round<T>(typename L::template tp<F>{F{(REPF)c}}).time_since_epoch().count(); }
template <typename L, typename F, typename T> long long u_implicit(long long c)
{
    if constexpr (std::is_convertible_v<F, T>) {
        T t = F{(REPF)c};
        return t.count();
    } else {
        return 0;
    }
}
template <typename L, typename F, typename T> long long u_common(long long c) { return typename L::template common<F, T>(F{(REPF)c}).count(); }
template <typename L, typename F, typename T> long long u_abs(long long c)
{
    if constexpr (std::is_signed_v<REPF>) { // chrono::abs only participates for signed representations
        return L::abs(F{(REPF)c}).count();
    } else {
        return c;
    }
}
template <typename L, typename F, typename T> long long u_neg(long long c) { return (-F{(REPF)c}).count(); }
template <typename L, typename F, typename T> long long u_pos(long long c) { return (+F{(REPF)c}).count(); }
template <typename L, typename F, typename T> long long u_preinc(long long c) { F d{(REPF)c}; F& r = ++d; return &r == &d ? d.count() : d.count() + 1000003; }
template <typename L, typename F, typename T> long long u_predec(long long c) { F d{(REPF)c}; F& r = --d; return &r == &d ? d.count() : d.count() + 1000003; }
template <typename L, typename F, typename T> long long u_postinc_ret(long long c) { F d{(REPF)c}; return (d++).count(); }
template <typename L, typename F, typename T> long long u_postinc_state(long long c) { F d{(REPF)c}; d++; return d.count(); }
template <typename L, typename F, typename T> long long u_postdec_ret(long long c) { F d{(REPF)c}; return (d--).count(); }
template <typename L, typename F, typename T> long long u_postdec_state(long long c) { F d{(REPF)c}; d--; return d.count(); }
template <typename L, typename F, typename T> long long u_tp_preinc(long long c) { typename L::template tp<F> p{F{(REPF)c}}; return (++p).time_since_epoch().count(); }
template <typename L, typename F, typename T> long long u_tp_predec(long long c) { typename L::template tp<F> p{F{(REPF)c}}; return (--p).time_since_epoch().count(); }
template <typename L, typename F, typename T> long long u_tp_postinc_ret(long long c) { typename L::template tp<F> p{F{(REPF)c}}; return (p++).time_since_epoch().count(); }
template <typename L, typename F, typename T> long long u_tp_postinc_state(long long c) { typename L::template tp<F> p{F{(REPF)c}}; p++; return p.time_since_epoch().count(); }
template <typename L, typename F, typename T> long long u_tp_postdec_ret(long long c) { typename L::template tp<F> p{F{(REPF)c}}; return (p--).time_since_epoch().count(); }
template <typename L, typename F, typename T> long long u_tp_postdec_state(long long c) { typename L::template tp<F> p{F{(REPF)c}}; p--; return p.time_since_epoch().count(); }
// scalar compound
template <typename L, typename F, typename T> long long k_muleq(long long c, long long k) { F d{(REPF)c}; return (d *= (REPF)k).count(); }
template <typename L, typename F, typename T> long long k_diveq(long long c, long long k) { F d{(REPF)c}; return (d /= (REPF)k).count(); }
template <typename L, typename F, typename T> long long k_modeq(long long c, long long k) { F d{(REPF)c}; return (d %= (REPF)k).count(); }
// binary From x To
template <typename L, typename F, typename T> long long b_add(long long a, long long b) { return (F{(REPF)a} + T{(REPT)b}).count(); }
template <typename L, typename F, typename T> long long b_sub(long long a, long long b) { return (F{(REPF)a} - T{(REPT)b}).count(); }
template <typename L, typename F, typename T> long long b_div(long long a, long long b) { return F{(REPF)a} / T{(REPT)b}; }
template <typename L, typename F, typename T> long long b_mod(long long a, long long b) { return (F{(REPF)a} % T{(REPT)b}).count(); }
template <typename L, typename F, typename T> long long b_eq(long long a, long long b) { return F{(REPF)a} == T{(REPT)b}; }
template <typename L, typename F, typename T> long long b_ne(long long a, long long b) { return F{(REPF)a} != T{(REPT)b}; }
template <typename L, typename F, typename T> long long b_lt(long long a, long long b) { return F{(REPF)a} < T{(REPT)b}; }
template <typename L, typename F, typename T> long long b_le(long long a, long long b) { return F{(REPF)a} <= T{(REPT)b}; }
template <typename L, typename F, typename T> long long b_gt(long long a, long long b) { return F{(REPF)a} > T{(REPT)b}; }
template <typename L, typename F, typename T> long long b_ge(long long a, long long b) { return F{(REPF)a} >= T{(REPT)b}; }
#define TPF typename L::template tp<F>{F{(REPF)a}}
#define TPT typename L::template tp<T>{T{(REPT)b}}
template <typename L, typename F, typename T> long long b_tp_eq(long long a, long long b) { return TPF == TPT; }
template <typename L, typename F, typename T> long long b_tp_ne(long long a, long long b) { return TPF != TPT; }
template <typename L, typename F, typename T> long long b_tp_lt(long long a, long long b) { return TPF < TPT; }
template <typename L, typename F, typename T> long long b_tp_le(long long a, long long b) { return TPF <= TPT; }
template <typename L, typename F, typename T> long long b_tp_gt(long long a, long long b) { return TPF > TPT; }
template <typename L, typename F, typename T> long long b_tp_ge(long long a, long long b) { return TPF >= TPT; }
// non-member time_point arithmetic and duration (op) tick-count value ([time.point.nonmember], [time.duration.nonmember]).
// Guarded by presence so that a tree without them costs only the probe units C12_ops_tp / C12_ops_scalar (compile-failure), not this table.
// (on such a tree `sys_days + days` still "compiles" - through weekday's implicit constructor - hence the .time_since_epoch())
template <typename L, typename F, typename T>
constexpr bool has_tp_ops = requires(typename L::template tp<F> p, typename L::template tp<T> q, T d) {
    (p + d).time_since_epoch();
    (d + p).time_since_epoch();
    (p - d).time_since_epoch();
    (p - q).count();
};
template <typename L, typename F, typename T>
constexpr bool has_scalar_ops = requires(F d, REPT k) {
    (d * k).count();
    (k * d).count();
    (d / k).count();
    (d % k).count();
};
template <typename L, typename F, typename T> long long b_tp_add(long long a, long long b) { if constexpr (has_tp_ops<L, F, T>) { return (TPF + T{(REPT)b}).time_since_epoch().count(); } else { return 0; } }
template <typename L, typename F, typename T> long long b_tp_radd(long long a, long long b) { if constexpr (has_tp_ops<L, F, T>) { return (T{(REPT)b} + TPF).time_since_epoch().count(); } else { return 0; } }
template <typename L, typename F, typename T> long long b_tp_sub(long long a, long long b) { if constexpr (has_tp_ops<L, F, T>) { return (TPF - T{(REPT)b}).time_since_epoch().count(); } else { return 0; } }
template <typename L, typename F, typename T> long long b_tp_diff(long long a, long long b) { if constexpr (has_tp_ops<L, F, T>) { return (TPF - TPT).count(); } else { return 0; } }
// the scalar has the To representation, so mixed-representation cells compute in common_type<Rep1, Rep2>
template <typename L, typename F, typename T> long long b_mul_ds(long long a, long long b) { if constexpr (has_scalar_ops<L, F, T>) { return (F{(REPF)a} * (REPT)b).count(); } else { return 0; } }
template <typename L, typename F, typename T> long long b_mul_sd(long long a, long long b) { if constexpr (has_scalar_ops<L, F, T>) { return ((REPT)b * F{(REPF)a}).count(); } else { return 0; } }
template <typename L, typename F, typename T> long long b_div_ds(long long a, long long b) { if constexpr (has_scalar_ops<L, F, T>) { return (F{(REPF)a} / (REPT)b).count(); } else { return 0; } }
template <typename L, typename F, typename T> long long b_mod_ds(long long a, long long b) { if constexpr (has_scalar_ops<L, F, T>) { return (F{(REPF)a} % (REPT)b).count(); } else { return 0; } }
// declared result types (true when the operators are absent: absence is the probe unit's business)
template <typename L, typename F, typename T>
constexpr bool tp_ops_types_ok()
{
    if constexpr (has_tp_ops<L, F, T>) {
        using P  = typename L::template tp<F>;
        using Q  = typename L::template tp<T>;
        using CD = typename L::template common<F, T>;
        using R  = typename L::template tp<CD>;
        return std::is_same_v<decltype(std::declval<P>() + std::declval<T>()), R> && std::is_same_v<decltype(std::declval<T>() + std::declval<P>()), R>
            && std::is_same_v<decltype(std::declval<P>() - std::declval<T>()), R> && std::is_same_v<decltype(std::declval<P>() - std::declval<Q>()), CD>;
    } else {
        return true;
    }
}
template <typename L, typename F, typename T, template <typename, typename> class Dur>
constexpr bool scalar_ops_types_ok()
{
    if constexpr (has_scalar_ops<L, F, T>) {
        using R = Dur<std::common_type_t<REPF, REPT>, typename F::period>;
        return std::is_same_v<decltype(std::declval<F>() * std::declval<REPT>()), R> && std::is_same_v<decltype(std::declval<REPT>() * std::declval<F>()), R>
            && std::is_same_v<decltype(std::declval<F>() / std::declval<REPT>()), R> && std::is_same_v<decltype(std::declval<F>() % std::declval<REPT>()), R>;
    } else {
        return true;
    }
}

// compound From x From
template <typename L, typename F, typename T> long long c_addeq(long long a, long long b) { F d{(REPF)a}; return (d += F{(REPF)b}).count(); }
template <typename L, typename F, typename T> long long c_subeq(long long a, long long b) { F d{(REPF)a}; return (d -= F{(REPF)b}).count(); }
template <typename L, typename F, typename T> long long c_modeq(long long a, long long b) { F d{(REPF)a}; return (d %= F{(REPF)b}).count(); }
template <typename L, typename F, typename T> long long c_tp_addeq(long long a, long long b) { typename L::template tp<F> p{F{(REPF)a}}; return (p += F{(REPF)b}).time_since_epoch().count(); }
template <typename L, typename F, typename T> long long c_tp_subeq(long long a, long long b) { typename L::template tp<F> p{F{(REPF)a}}; return (p -= F{(REPF)b}).time_since_epoch().count(); }

// lvalue semantics of every compound / increment operator of duration and time_point (depend on From only, so one
// instantiation per From type serves all ten To cells).  *_id : the expression designates the object itself
// (bound with auto&& so that an operator returning a copy still compiles and is seen as a different address);
// *_ch : a chained use `++(x op= y)` (`--(--x)` for decrement) - the final state of x is the observable.
#define LV_DUR F x{(REPF)a}; F const y{(REPF)b}; (void)y;
#define LV_TP typename L::template tp<F> x{F{(REPF)a}}; F const y{(REPF)b}; (void)y;
#define LV_ID(NAME, DECL, EXPR) template <typename L, typename F> long long NAME(long long a, long long b) { DECL auto&& r = (EXPR); return static_cast<void const*>(&r) == static_cast<void const*>(&x); }
#define LV_CH(NAME, DECL, STMT, OBS) template <typename L, typename F> long long NAME(long long a, long long b) { DECL STMT; return OBS; }
LV_ID(l_d_addeq_id, LV_DUR, x += y) LV_CH(l_d_addeq_ch, LV_DUR, ++(x += y), x.count())
LV_ID(l_d_subeq_id, LV_DUR, x -= y) LV_CH(l_d_subeq_ch, LV_DUR, ++(x -= y), x.count())
LV_ID(l_d_modeq_id, LV_DUR, x %= y) LV_CH(l_d_modeq_ch, LV_DUR, ++(x %= y), x.count())
LV_ID(l_d_mulk_id, LV_DUR, x *= (REPF)3) LV_CH(l_d_mulk_ch, LV_DUR, ++(x *= (REPF)3), x.count())
LV_ID(l_d_divk_id, LV_DUR, x /= (REPF)3) LV_CH(l_d_divk_ch, LV_DUR, ++(x /= (REPF)3), x.count())
LV_ID(l_d_modk_id, LV_DUR, x %= (REPF)7) LV_CH(l_d_modk_ch, LV_DUR, ++(x %= (REPF)7), x.count())
LV_ID(l_d_inc_id, LV_DUR, ++x) LV_CH(l_d_inc_ch, LV_DUR, ++(++x), x.count())
LV_ID(l_d_dec_id, LV_DUR, --x) LV_CH(l_d_dec_ch, LV_DUR, --(--x), x.count())
LV_ID(l_tp_addeq_id, LV_TP, x += y) LV_CH(l_tp_addeq_ch, LV_TP, ++(x += y), x.time_since_epoch().count())
LV_ID(l_tp_subeq_id, LV_TP, x -= y) LV_CH(l_tp_subeq_ch, LV_TP, ++(x -= y), x.time_since_epoch().count())
LV_ID(l_tp_inc_id, LV_TP, ++x) LV_CH(l_tp_inc_ch, LV_TP, ++(++x), x.time_since_epoch().count())
LV_ID(l_tp_dec_id, LV_TP, --x) LV_CH(l_tp_dec_ch, LV_TP, --(--x), x.time_since_epoch().count())
// a second chain shape per time_point/duration compound assignment: (x op= y) op'= y  (the result used as the left operand again)
LV_CH(l_d_addsub_ch, LV_DUR, (x += y) -= y, x.count()) LV_CH(l_d_subadd_ch, LV_DUR, (x -= y) += y, x.count())
LV_CH(l_tp_addsub_ch, LV_TP, (x += y) -= y, x.time_since_epoch().count()) LV_CH(l_tp_subadd_ch, LV_TP, (x -= y) += y, x.time_since_epoch().count())
#undef LV_ID
#undef LV_CH

enum LOp { L_D_ADDEQ, L_D_SUBEQ, L_D_MODEQ, L_D_MULK, L_D_DIVK, L_D_MODK, L_D_INC, L_D_DEC, L_TP_ADDEQ, L_TP_SUBEQ, L_TP_INC, L_TP_DEC, L_N };
char const* const kLIdName[L_N] = {"&(d+=d)==&d", "&(d-=d)==&d", "&(d%=d)==&d", "&(d*=k)==&d", "&(d/=k)==&d", "&(d%=k)==&d", "&(++d)==&d", "&(--d)==&d",
    "&(tp+=d)==&tp", "&(tp-=d)==&tp", "&(++tp)==&tp", "&(--tp)==&tp"};
char const* const kLChName[L_N] = {"++(d+=d)", "++(d-=d)", "++(d%=d)", "++(d*=k)", "++(d/=k)", "++(d%=k)", "++(++d)", "--(--d)", "++(tp+=d)", "++(tp-=d)",
    "++(++tp)", "--(--tp)"};
enum XOp { X_D_ADDSUB, X_D_SUBADD, X_TP_ADDSUB, X_TP_SUBADD, X_N };
char const* const kXName[X_N] = {"(d+=a)-=a", "(d-=a)+=a", "(tp+=a)-=a", "(tp-=a)+=a"};

enum UOp { U_CAST, U_FLOOR, U_CEIL, U_ROUND, U_FLOOR_TP, U_CEIL_TP, U_ROUND_TP, U_IMPLICIT, U_COMMON, U_ABS, U_NEG, U_POS, U_PREINC, U_PREDEC,
    U_POSTINC_RET, U_POSTINC_STATE, U_POSTDEC_RET, U_POSTDEC_STATE, U_TP_PREINC, U_TP_PREDEC, U_TP_POSTINC_RET, U_TP_POSTINC_STATE,
    U_TP_POSTDEC_RET, U_TP_POSTDEC_STATE, U_N };
char const* const kUName[U_N] = {"duration_cast<To>(from)", "floor<To>(from)", "ceil<To>(from)", "round<To>(from)", "floor<To>(time_point)",
    "ceil<To>(time_point)", "round<To>(time_point)", "To(from) implicit", "common_type(from)", "abs(d)", "-d", "+d", "++d", "--d", "d++ (returned)",
    "d++ (state)", "d-- (returned)", "d-- (state)", "++time_point", "--time_point", "time_point++ (returned)", "time_point++ (state)",
    "time_point-- (returned)", "time_point-- (state)"};
enum KOp { K_MULEQ, K_DIVEQ, K_MODEQ, K_N };
char const* const kKName[K_N] = {"d*=k", "d/=k", "d%=k"};
enum BOp { B_ADD, B_SUB, B_DIV, B_MOD, B_EQ, B_NE, B_LT, B_LE, B_GT, B_GE, B_TP_EQ, B_TP_NE, B_TP_LT, B_TP_LE, B_TP_GT, B_TP_GE, B_TP_ADD, B_TP_RADD, B_TP_SUB,
    B_TP_DIFF, B_MUL_DS, B_MUL_SD, B_DIV_DS, B_MOD_DS, B_N };
char const* const kBName[B_N] = {"a+b", "a-b", "a/b", "a%b", "a==b", "a!=b", "a<b", "a<=b", "a>b", "a>=b", "tp==tp", "tp!=tp", "tp<tp", "tp<=tp", "tp>tp", "tp>=tp",
    "tp+d", "d+tp", "tp-d", "tp-tp", "d*k", "k*d", "d/k", "d%k"};
enum COp { C_ADDEQ, C_SUBEQ, C_MODEQ, C_TP_ADDEQ, C_TP_SUBEQ, C_N };
char const* const kCName[C_N] = {"d+=d", "d-=d", "d%=d", "time_point+=d", "time_point-=d"};

using Fn1 = long long (*)(long long);
using Fn2 = long long (*)(long long, long long);
struct TypeFact {
    char const* what;
    bool e, s;
};
struct Absent {
    char const* what;
    bool present;
};
struct IntDesc {
    char subj[96];
    Fac F;
    Lim l1, l2, lc; // From rep, To rep, common rep
    Lim lcr;        // the computation type of duration_cast: common_type<ToRep, FromRep, intmax_t> (unsigned when a u64 is involved)
    bool implicit;  // From -> To is a lossless implicit conversion (both libraries agree on that, see type facts)
    Fn1 ue[U_N], us[U_N];
    Fn2 ke[K_N], ks[K_N], be[B_N], bs[B_N], ce[C_N], cs[C_N];
    Fn2 lide[L_N], lids[L_N], lche[L_N], lchs[L_N], xe[X_N], xs[X_N];
    bool tp_ops, scalar_ops; // the non-member operators exist in tetl (their absence is reported by the probe units C12_ops_*)
    bool diag; // From period == To period: the cell that runs the From-only lvalue checks
    std::vector<TypeFact> facts;
    std::vector<Absent> absent;
};

template <typename A, typename B> constexpr bool can_mul = requires(A a, B b) { a * b; };
template <typename A, typename B> constexpr bool can_div = requires(A a, B b) { a / b; };
template <typename A, typename B> constexpr bool can_mod = requires(A a, B b) { a % b; };
template <typename A, typename B> constexpr bool can_add = requires(A a, B b) { a + b; };
template <typename A, typename B> constexpr bool can_sub = requires(A a, B b) { a - b; };
template <typename A, typename B> constexpr bool can_3way = requires(A a, B b) { a <=> b; };

template <typename R1, int I1, typename R2, int I2>
IntDesc const& int_desc()
{
    using EF   = ec::duration<R1, EP<I1>>;
    using ET   = ec::duration<R2, EP<I2>>;
    using SF   = sc::duration<R1, SP<I1>>;
    using ST   = sc::duration<R2, SP<I2>>;
    using CRep = std::common_type_t<R1, R2>;
    using ECD  = etl::common_type_t<EF, ET>;
    using SCD  = std::common_type_t<SF, ST>;
    using ETPF = ec::time_point<ec::system_clock, EF>;
    using ETPT = ec::time_point<ec::system_clock, ET>;
    using STPF = sc::time_point<sc::system_clock, SF>;
    using STPT = sc::time_point<sc::system_clock, ST>;
    static IntDesc const d = [] {
        IntDesc x{};
        std::snprintf(x.subj, sizeof x.subj, "dur<%s,%lld/%lld>,dur<%s,%lld/%lld>", RepName<R1>::s, Per<I1>::n, Per<I1>::d, RepName<R2>::s, Per<I2>::n, Per<I2>::d);
        x.F        = fac(Per<I1>::n, Per<I1>::d, Per<I2>::n, Per<I2>::d);
        x.l1       = lim_of<R1>();
        x.l2       = lim_of<R2>();
        x.lc       = lim_of<CRep>();
        x.lcr      = lim_of<std::common_type_t<R2, R1, std::intmax_t>>();
        x.implicit = std::is_convertible_v<SF, ST> && etl::is_convertible_v<EF, ET>;
#define BOTH(ARR, IDX, FN)                                                                                             \
    x.ARR##e[IDX] = &FN<EL, EF, ET>;                                                                                   \
    x.ARR##s[IDX] = &FN<SL, SF, ST>;
        BOTH(u, U_CAST, u_cast) BOTH(u, U_FLOOR, u_floor) BOTH(u, U_CEIL, u_ceil) BOTH(u, U_ROUND, u_round)
        BOTH(u, U_FLOOR_TP, u_floor_tp) BOTH(u, U_CEIL_TP, u_ceil_tp) BOTH(u, U_ROUND_TP, u_round_tp) BOTH(u, U_IMPLICIT, u_implicit)
        BOTH(u, U_COMMON, u_common) BOTH(u, U_ABS, u_abs) BOTH(u, U_NEG, u_neg) BOTH(u, U_POS, u_pos) BOTH(u, U_PREINC, u_preinc)
        BOTH(u, U_PREDEC, u_predec) BOTH(u, U_POSTINC_RET, u_postinc_ret) BOTH(u, U_POSTINC_STATE, u_postinc_state)
        BOTH(u, U_POSTDEC_RET, u_postdec_ret) BOTH(u, U_POSTDEC_STATE, u_postdec_state) BOTH(u, U_TP_PREINC, u_tp_preinc)
        BOTH(u, U_TP_PREDEC, u_tp_predec) BOTH(u, U_TP_POSTINC_RET, u_tp_postinc_ret) BOTH(u, U_TP_POSTINC_STATE, u_tp_postinc_state)
        BOTH(u, U_TP_POSTDEC_RET, u_tp_postdec_ret) BOTH(u, U_TP_POSTDEC_STATE, u_tp_postdec_state)
        BOTH(k, K_MULEQ, k_muleq) BOTH(k, K_DIVEQ, k_diveq) BOTH(k, K_MODEQ, k_modeq)
        BOTH(b, B_ADD, b_add) BOTH(b, B_SUB, b_sub) BOTH(b, B_DIV, b_div) BOTH(b, B_MOD, b_mod) BOTH(b, B_EQ, b_eq) BOTH(b, B_NE, b_ne)
        BOTH(b, B_LT, b_lt) BOTH(b, B_LE, b_le) BOTH(b, B_GT, b_gt) BOTH(b, B_GE, b_ge) BOTH(b, B_TP_EQ, b_tp_eq) BOTH(b, B_TP_NE, b_tp_ne)
        BOTH(b, B_TP_LT, b_tp_lt) BOTH(b, B_TP_LE, b_tp_le) BOTH(b, B_TP_GT, b_tp_gt) BOTH(b, B_TP_GE, b_tp_ge)
        BOTH(b, B_TP_ADD, b_tp_add) BOTH(b, B_TP_RADD, b_tp_radd) BOTH(b, B_TP_SUB, b_tp_sub) BOTH(b, B_TP_DIFF, b_tp_diff)
        BOTH(b, B_MUL_DS, b_mul_ds) BOTH(b, B_MUL_SD, b_mul_sd) BOTH(b, B_DIV_DS, b_div_ds) BOTH(b, B_MOD_DS, b_mod_ds)
        x.tp_ops     = has_tp_ops<EL, EF, ET>;
        x.scalar_ops = has_scalar_ops<EL, EF, ET>;
        BOTH(c, C_ADDEQ, c_addeq) BOTH(c, C_SUBEQ, c_subeq) BOTH(c, C_MODEQ, c_modeq) BOTH(c, C_TP_ADDEQ, c_tp_addeq) BOTH(c, C_TP_SUBEQ, c_tp_subeq)
#undef BOTH
        x.diag = I1 == I2;
#define LV(IDX, STEM)                                                                                                  \
    x.lide[IDX] = &STEM##_id<EL, EF>;                                                                                  \
    x.lids[IDX] = &STEM##_id<SL, SF>;                                                                                  \
    x.lche[IDX] = &STEM##_ch<EL, EF>;                                                                                  \
    x.lchs[IDX] = &STEM##_ch<SL, SF>;
        LV(L_D_ADDEQ, l_d_addeq) LV(L_D_SUBEQ, l_d_subeq) LV(L_D_MODEQ, l_d_modeq) LV(L_D_MULK, l_d_mulk) LV(L_D_DIVK, l_d_divk) LV(L_D_MODK, l_d_modk)
        LV(L_D_INC, l_d_inc) LV(L_D_DEC, l_d_dec) LV(L_TP_ADDEQ, l_tp_addeq) LV(L_TP_SUBEQ, l_tp_subeq) LV(L_TP_INC, l_tp_inc) LV(L_TP_DEC, l_tp_dec)
#undef LV
        x.xe[X_D_ADDSUB] = &l_d_addsub_ch<EL, EF>; x.xs[X_D_ADDSUB] = &l_d_addsub_ch<SL, SF>;
        x.xe[X_D_SUBADD] = &l_d_subadd_ch<EL, EF>; x.xs[X_D_SUBADD] = &l_d_subadd_ch<SL, SF>;
        x.xe[X_TP_ADDSUB] = &l_tp_addsub_ch<EL, EF>; x.xs[X_TP_ADDSUB] = &l_tp_addsub_ch<SL, SF>;
        x.xe[X_TP_SUBADD] = &l_tp_subadd_ch<EL, EF>; x.xs[X_TP_SUBADD] = &l_tp_subadd_ch<SL, SF>;
        Fac const& F = x.F;
        x.facts = {
            {"common_type::period::num", (long long)ECD::period::num == F.cn, (long long)SCD::period::num == F.cn},
            {"common_type::period::den", (long long)ECD::period::den == F.cd, (long long)SCD::period::den == F.cd},
            {"common_type::rep", std::is_same_v<typename ECD::rep, CRep>, std::is_same_v<typename SCD::rep, CRep>},
            {"common_type symmetric", std::is_same_v<ECD, etl::common_type_t<ET, EF>>, std::is_same_v<SCD, std::common_type_t<ST, SF>>},
            {"decltype(a+b)", std::is_same_v<decltype(EF{} + ET{}), ECD>, std::is_same_v<decltype(SF{} + ST{}), SCD>},
            {"decltype(a-b)", std::is_same_v<decltype(EF{} - ET{}), ECD>, std::is_same_v<decltype(SF{} - ST{}), SCD>},
            {"decltype(a%b)", std::is_same_v<decltype(EF{} % ET{}), ECD>, std::is_same_v<decltype(SF{} % ST{}), SCD>},
            {"decltype(a/b)", std::is_same_v<decltype(EF{} / ET{}), CRep>, std::is_same_v<decltype(SF{} / ST{}), CRep>},
            {"is_convertible<From,To>", etl::is_convertible_v<EF, ET>, std::is_convertible_v<SF, ST>},
            {"is_convertible<To,From>", etl::is_convertible_v<ET, EF>, std::is_convertible_v<ST, SF>},
            {"is_constructible<To,From>", std::is_constructible_v<ET, EF>, std::is_constructible_v<ST, SF>},
            {"period::num", (long long)EF::period::num == Per<I1>::n, (long long)SF::period::num == Per<I1>::n},
            {"period::den", (long long)EF::period::den == Per<I1>::d, (long long)SF::period::den == Per<I1>::d},
            {"decltype(duration_cast<To>)", std::is_same_v<decltype(ec::duration_cast<ET>(EF{})), ET>, std::is_same_v<decltype(sc::duration_cast<ST>(SF{})), ST>},
            {"decltype(floor<To>(tp))", std::is_same_v<decltype(ec::floor<ET>(ETPF{})), ETPT>, std::is_same_v<decltype(sc::floor<ST>(STPF{})), STPT>},
            {"common_type<time_point>", std::is_same_v<etl::common_type_t<ETPF, ETPT>, ec::time_point<ec::system_clock, ECD>>,
                std::is_same_v<std::common_type_t<STPF, STPT>, sc::time_point<sc::system_clock, SCD>>},
            {"decltype(tp+d), (d+tp), (tp-d) is time_point<Clock,common_type>; (tp-tp) is common_type", tp_ops_types_ok<EL, EF, ET>(), tp_ops_types_ok<SL, SF, ST>()},
            {"decltype(d*k), (k*d), (d/k), (d%k) is duration<common_type<Rep1,Rep2>,Period>", scalar_ops_types_ok<EL, EF, ET, ec::duration>(),
                scalar_ops_types_ok<SL, SF, ST, sc::duration>()},
            // declared result types: compound assignment and prefix ++/-- yield an lvalue reference to the object, postfix a prvalue
#define LREF(X, T_) std::is_same_v<decltype(X), T_&>
#define DV(T_) std::declval<T_&>()
#define DC(T_) std::declval<T_ const&>()
            {"decltype(d+=d) is duration&", LREF(DV(EF) += DC(EF), EF), LREF(DV(SF) += DC(SF), SF)},
            {"decltype(d-=d) is duration&", LREF(DV(EF) -= DC(EF), EF), LREF(DV(SF) -= DC(SF), SF)},
            {"decltype(d%=d) is duration&", LREF(DV(EF) %= DC(EF), EF), LREF(DV(SF) %= DC(SF), SF)},
            {"decltype(d*=k) is duration&", LREF(DV(EF) *= DC(R1), EF), LREF(DV(SF) *= DC(R1), SF)},
            {"decltype(d/=k) is duration&", LREF(DV(EF) /= DC(R1), EF), LREF(DV(SF) /= DC(R1), SF)},
            {"decltype(d%=k) is duration&", LREF(DV(EF) %= DC(R1), EF), LREF(DV(SF) %= DC(R1), SF)},
            {"decltype(++d) is duration&", LREF(++DV(EF), EF), LREF(++DV(SF), SF)},
            {"decltype(--d) is duration&", LREF(--DV(EF), EF), LREF(--DV(SF), SF)},
            {"decltype(d++) is duration", std::is_same_v<decltype(DV(EF)++), EF>, std::is_same_v<decltype(DV(SF)++), SF>},
            {"decltype(d--) is duration", std::is_same_v<decltype(DV(EF)--), EF>, std::is_same_v<decltype(DV(SF)--), SF>},
            {"decltype(tp+=d) is time_point&", LREF(DV(ETPF) += DC(EF), ETPF), LREF(DV(STPF) += DC(SF), STPF)},
            {"decltype(tp-=d) is time_point&", LREF(DV(ETPF) -= DC(EF), ETPF), LREF(DV(STPF) -= DC(SF), STPF)},
            {"decltype(++tp) is time_point&", LREF(++DV(ETPF), ETPF), LREF(++DV(STPF), STPF)},
            {"decltype(--tp) is time_point&", LREF(--DV(ETPF), ETPF), LREF(--DV(STPF), STPF)},
            {"decltype(tp++) is time_point", std::is_same_v<decltype(DV(ETPF)++), ETPF>, std::is_same_v<decltype(DV(STPF)++), STPF>},
            {"decltype(tp--) is time_point", std::is_same_v<decltype(DV(ETPF)--), ETPF>, std::is_same_v<decltype(DV(STPF)--), STPF>},
#undef LREF
#undef DV
#undef DC
        };
        x.absent = {
            {"duration <=> duration", can_3way<EF, ET>}, {"time_point <=> time_point", can_3way<ETPF, ETPT>},
        };
        return x;
    }();
    return d;
}

// ------------------------------------------------------------------ per-cell context
struct Ctx {
    vf::Case* cs;
    bool random;
    char const* subj;
    std::uint64_t cellhash;
};

void oracle_disagree(Ctx& c, char const* op, i128 stdv, i128 exact, char const* args)
{
    vf::crumb("oracle", op, "std-vs-exact", "%s %s", c.subj, args);
    vf::diverge("oracles-disagree", "std=" + s128(stdv), "exact=" + s128(exact));
}
char const* dir_sit(Fac const& F)
{
    if (F.fn == 1 && F.fd == 1) { return "same-period"; }
    if (F.fd == 1) { return "to-finer"; }
    if (F.fn == 1) { return "to-coarser"; }
    return "incommensurable";
}
char const* sign_sit(i128 c) { return c < 0 ? "neg" : (c == 0 ? "zero" : "pos"); }
char const* mag_sit(i128 c) { return (c >= -2000 && c <= 2000) ? "small" : "large"; }
char const* frac_sit(i128 num, i128 den)
{
    i128 q = fdiv(num, den), r = num - q * den;
    if (r == 0) { return "exact"; }
    if (2 * r < den) { return "below-half"; }
    if (2 * r > den) { return "above-half"; }
    return "tie";
}

// vf::eq_int forms obs - exp in long long; for wildly wrong values (0 vs INT64_MIN) that subtraction itself overflows
// under UBSan and would turn the divergence into a crash record.  Classify those here.
void eq_count(long long e, long long s)
{
    if (e == s) { return; }
    i128 const d = (i128)e - (i128)s;
    if (kL64.has(d)) {
        vf::eq_int("count", e, s);
    } else {
        vf::diverge(d > 0 ? "count:greater" : "count:less", vf::to_s(e), vf::to_s(s));
    }
}
// one compared evaluation: reference first, (oracle cross-check), breadcrumb, tetl, account, compare
void eval1(Ctx& c, char const* op, char const* sit, char const* args, std::uint64_t argh, i128 exact, Fn1 fs, Fn1 fe, long long x, bool boolean = false)
{
    long long const s = fs(x);
    if ((i128)s != exact) { oracle_disagree(c, op, s, exact, args); }
    vf::crumb(c.subj, op, sit, "%s", args);
    long long const e = fe(x);
    vf::cover(op, vf::mix(c.cellhash, argh), true);
    if (boolean) {
        vf::eq_bool("ret", e != 0, s != 0);
    } else {
        eq_count(e, s);
    }
}
void eval2(Ctx& c, char const* op, char const* sit, char const* args, std::uint64_t argh, i128 exact, Fn2 fs, Fn2 fe, long long x, long long y, bool boolean = false)
{
    long long const s = fs(x, y);
    if ((i128)s != exact) { oracle_disagree(c, op, s, exact, args); }
    vf::crumb(c.subj, op, sit, "%s", args);
    long long const e = fe(x, y);
    vf::cover(op, vf::mix(c.cellhash, argh), true);
    if (boolean) {
        vf::eq_bool("ret", e != 0, s != 0);
    } else {
        eq_count(e, s);
    }
}

void push_unique(std::vector<i128>& v, i128 x)
{
    for (i128 y : v) {
        if (y == x) { return; }
    }
    v.push_back(x);
}

std::vector<i128> unary_counts(Ctx& c, IntDesc const& D)
{
    Fac const& F = D.F;
    std::vector<i128> v;
    auto add = [&](i128 x) {
        if (D.l1.has(x)) { v.push_back(x); }
    };
    if (c.random) {
        vf::Rng& r = c.cs->rng;
        for (int i = 0; i < 96; ++i) {
            int bits = (int)r.below((std::uint64_t)D.l1.digits + 1);
            i128 mag = bits == 0 ? 0 : (i128)(r.next() >> (64 - bits));
            add(r.coin() ? mag : -mag);
        }
        for (int i = 0; i < 32; ++i) { add(r.range(-100000, 100000)); }
        return v;
    }
    int const dense = c.cs->tier == vf::Tier::thorough ? 2000 : 200;
    for (int k = -dense; k <= dense; ++k) { add(k); }
    for (int k = dense + 1; k <= 2000; k += 37) {
        add(k);
        add(-k);
    }
    // exact multiples, their neighbours, exact ties and their neighbours (of the From -> To conversion)
    for (int k = -40; k <= 40; ++k) {
        i128 m = (i128)k * F.fd;
        add(m);
        add(m + 1);
        add(m - 1);
        i128 x = (i128)(2 * k + 1) * F.fd;
        if (x % (2 * (i128)F.fn) == 0) {
            i128 t = x / (2 * (i128)F.fn);
            add(t);
            add(t + 1);
            add(t - 1);
        }
    }
    // values near powers of two and the limits, directly and scaled by the factors so that results / intermediates land there
    i128 const bases[]       = {(i128)1 << 15, (i128)1 << 31, (i128)1 << 53, (i128)1 << 62, (i128)1 << 63, D.l1.hi, D.l2.hi};
    long long const scales[] = {1, F.fn, F.fd, F.f1, F.f2};
    for (i128 b : bases) {
        for (int dlt = -3; dlt <= 3; ++dlt) {
            for (long long sc_ : scales) {
                i128 x = (b + dlt);
                add(x / sc_);
                add(-(x / sc_));
                add(x / sc_ + 1);
                add(-(x / sc_) - 1);
                if (F.fn != 1) {
                    add(x * F.fd / F.fn);
                    add(-(x * F.fd / F.fn));
                }
            }
        }
    }
    add(D.l1.lo);
    add(D.l1.lo + 1);
    return v;
}

// ------------------------------------------------------------------ integer cell driver
struct IntCell {
    IntDesc const& D;
    Ctx& c;
    Fac const& F;
    IntCell(IntDesc const& d, Ctx& cx) : D(d), c(cx), F(d.F) { }

    // the standard's formulation: CR = common_type<ToRep, FromRep, intmax_t> = 64 bit; num==1: c/den ; den==1: c*num ; else c*num/den
    bool cast_ok(i128 cc) const { return D.lcr.has(cc) && D.lcr.has(cc * F.fn) && kL64.has(cc * F.fn) && D.l2.has(cc * F.fn / F.fd); }
    bool common_ok1(i128 cc) const { return kL64.has(cc * F.f1) && D.lc.has(cc * F.f1); }
    bool common_ok2(i128 cc) const { return kL64.has(cc * F.f2) && D.lc.has(cc * F.f2); }

    void types()
    {
        for (TypeFact const& f : D.facts) {
            vf::crumb(c.subj, f.what, "type-level", "compile-time boolean");
            vf::cover("type-level", vf::mix(c.cellhash, vf::fnv(f.what)), true);
            vf::eq_bool("value", f.e, f.s);
        }
        for (Absent const& a : D.absent) {
            if (!a.present) {
                char label[72];
                std::snprintf(label, sizeof label, "absent-api: %s", a.what);
                vf::sample(label, "%s is not provided by tetl (skipped, not a divergence)", a.what);
            }
        }
    }

    void u(UOp op, char const* sit, char const* args, std::uint64_t argh, i128 exact, long long x) { eval1(c, kUName[op], sit, args, argh, exact, D.us[op], D.ue[op], x); }

    void unary(i128 cc)
    {
        char args[96];
        std::snprintf(args, sizeof args, "count=%s", s128(cc).c_str());
        std::uint64_t const argh = (std::uint64_t)(long long)cc;
        long long const x        = (long long)cc;
        i128 const num           = cc * F.fn; // exact value in To ticks = num / fd
        char sit[96];
        std::snprintf(sit, sizeof sit, "%s,%s,%s,%s", dir_sit(F), sign_sit(cc), frac_sit(num, F.fd), mag_sit(cc));
        char sit0[96];
        std::snprintf(sit0, sizeof sit0, "%s,%s", sign_sit(cc), mag_sit(cc));

        if (cast_ok(cc)) {
            i128 const tr = num / F.fd; // truncation toward zero
            u(U_CAST, sit, args, argh, tr, x);
            bool const cmp_ok = common_ok1(cc) && common_ok2(tr);
            i128 const fl = fdiv(num, F.fd), ce = cdiv(num, F.fd);
            if (cmp_ok && D.l2.has(fl)) {
                u(U_FLOOR, sit, args, argh, fl, x);
                u(U_FLOOR_TP, sit, args, argh, fl, x);
            }
            if (cmp_ok && D.l2.has(ce)) {
                u(U_CEIL, sit, args, argh, ce, x);
                u(U_CEIL_TP, sit, args, argh, ce, x);
            }
            // round: low = floor, high = low + 1, (dur - low) and (high - dur) in the common type
            if (cmp_ok && D.l2.has(fl) && D.l2.has(fl + 1) && common_ok2(fl) && common_ok2(fl + 1) && D.lc.has(cc * F.f1 - fl * F.f2)
                && D.lc.has((fl + 1) * F.f2 - cc * F.f1)) {
                i128 const rd = rdiv_even(num, F.fd);
                u(U_ROUND, sit, args, argh, rd, x);
                u(U_ROUND_TP, sit, args, argh, rd, x);
            }
            if (D.implicit) { u(U_IMPLICIT, sit, args, argh, num, x); } // lossless: fd == 1
        }
        if (common_ok1(cc)) { u(U_COMMON, sit0, args, argh, cc * F.f1, x); }
        if (D.l1.has(-cc)) { // signed: everything but the minimum; unsigned: only zero (negation would wrap)
            if (D.l1.lo < 0) { u(U_ABS, sit0, args, argh, iabs(cc), x); }
            u(U_NEG, sit0, args, argh, -cc, x);
        }
        u(U_POS, sit0, args, argh, cc, x);
        if (D.l1.has(cc + 1)) {
            u(U_PREINC, sit0, args, argh, cc + 1, x);
            u(U_POSTINC_RET, sit0, args, argh, cc, x);
            u(U_POSTINC_STATE, sit0, args, argh, cc + 1, x);
            u(U_TP_PREINC, sit0, args, argh, cc + 1, x);
            u(U_TP_POSTINC_RET, sit0, args, argh, cc, x);
            u(U_TP_POSTINC_STATE, sit0, args, argh, cc + 1, x);
        }
        if (D.l1.has(cc - 1)) {
            u(U_PREDEC, sit0, args, argh, cc - 1, x);
            u(U_POSTDEC_RET, sit0, args, argh, cc, x);
            u(U_POSTDEC_STATE, sit0, args, argh, cc - 1, x);
            u(U_TP_PREDEC, sit0, args, argh, cc - 1, x);
            u(U_TP_POSTDEC_RET, sit0, args, argh, cc, x);
            u(U_TP_POSTDEC_STATE, sit0, args, argh, cc - 1, x);
        }
        long long const ks[] = {-7, -1, 1, 2, 3, 1000};
        bool const scalar_ops = c.cs->tier == vf::Tier::thorough || (cc % 4 == 0) || cc > 2000 || cc < -2000;
        for (long long k : ks) {
            if (!scalar_ops) { break; }
            char a2[96];
            std::snprintf(a2, sizeof a2, "count=%s k=%lld", s128(cc).c_str(), k);
            char s2[96];
            std::snprintf(s2, sizeof s2, "%s,%s,%s", sign_sit(cc), mag_sit(cc), k < 0 ? "k<0" : "k>0");
            std::uint64_t const h2 = vf::mix(argh, (std::uint64_t)k);
            if (D.l1.has(cc * k)) { eval2(c, kKName[K_MULEQ], s2, a2, h2, cc * k, D.ks[K_MULEQ], D.ke[K_MULEQ], x, k); }
            if (D.l1.has(cc / k)) {
                eval2(c, kKName[K_DIVEQ], s2, a2, h2, cc / k, D.ks[K_DIVEQ], D.ke[K_DIVEQ], x, k);
                eval2(c, kKName[K_MODEQ], s2, a2, h2, cc % k, D.ks[K_MODEQ], D.ke[K_MODEQ], x, k);
            }
        }
    }

    void b(BOp op, char const* sit, char const* args, std::uint64_t argh, i128 exact, long long x, long long y, bool boolean)
    {
        eval2(c, kBName[op], sit, args, argh, exact, D.bs[op], D.be[op], x, y, boolean);
    }
    void binary(i128 c1, i128 c2)
    {
        if (!common_ok1(c1) || !common_ok2(c2)) { return; }
        i128 const a = c1 * F.f1, bb = c2 * F.f2;
        char args[96];
        std::snprintf(args, sizeof args, "lhs=%s rhs=%s", s128(c1).c_str(), s128(c2).c_str());
        std::uint64_t const argh = vf::mix((std::uint64_t)(long long)c1, (std::uint64_t)(long long)c2);
        long long const x = (long long)c1, y = (long long)c2;
        char sit[96];
        std::snprintf(sit, sizeof sit, "%s,lhs-%s,rhs-%s,%s", dir_sit(F), sign_sit(c1), sign_sit(c2), a == bb ? "equal" : (a < bb ? "lhs<rhs" : "lhs>rhs"));
        if (D.lc.has(a + bb)) { b(B_ADD, sit, args, argh, a + bb, x, y, false); }
        if (D.lc.has(a - bb)) { b(B_SUB, sit, args, argh, a - bb, x, y, false); }
        if (bb != 0 && D.lc.has(a / bb)) {
            b(B_DIV, sit, args, argh, a / bb, x, y, false);
            b(B_MOD, sit, args, argh, a % bb, x, y, false);
        }
        b(B_EQ, sit, args, argh, a == bb, x, y, true);
        b(B_NE, sit, args, argh, a != bb, x, y, true);
        b(B_LT, sit, args, argh, a < bb, x, y, true);
        b(B_LE, sit, args, argh, a <= bb, x, y, true);
        b(B_GT, sit, args, argh, a > bb, x, y, true);
        b(B_GE, sit, args, argh, a >= bb, x, y, true);
        b(B_TP_EQ, sit, args, argh, a == bb, x, y, true);
        b(B_TP_NE, sit, args, argh, a != bb, x, y, true);
        b(B_TP_LT, sit, args, argh, a < bb, x, y, true);
        b(B_TP_LE, sit, args, argh, a <= bb, x, y, true);
        b(B_TP_GT, sit, args, argh, a > bb, x, y, true);
        b(B_TP_GE, sit, args, argh, a >= bb, x, y, true);
        if (D.tp_ops) {
            if (D.lc.has(a + bb)) {
                b(B_TP_ADD, sit, args, argh, a + bb, x, y, false);
                b(B_TP_RADD, sit, args, argh, a + bb, x, y, false); // commutes: same exact value
            }
            if (D.lc.has(a - bb)) {
                b(B_TP_SUB, sit, args, argh, a - bb, x, y, false);
                b(B_TP_DIFF, sit, args, argh, a - bb, x, y, false);
            }
        }
    }
    // duration (op) tick-count value; the scalar carries the To representation, computation type = common_type<Rep1, Rep2>
    void scalar_free(i128 c1, i128 k)
    {
        if (!D.scalar_ops || !D.lc.has(c1) || !D.lc.has(k)) { return; }
        char args[96];
        std::snprintf(args, sizeof args, "count=%s k=%s", s128(c1).c_str(), s128(k).c_str());
        std::uint64_t const argh = vf::mix((std::uint64_t)(long long)c1, (std::uint64_t)(long long)k + 7777);
        long long const x = (long long)c1, y = (long long)k;
        char sit[96];
        std::snprintf(sit, sizeof sit, "count-%s,k-%s,%s", sign_sit(c1), sign_sit(k), mag_sit(c1));
        if (D.lc.has(c1 * k)) {
            b(B_MUL_DS, sit, args, argh, c1 * k, x, y, false);
            b(B_MUL_SD, sit, args, argh, c1 * k, x, y, false);
        }
        if (k != 0 && D.lc.has(c1 / k)) {
            b(B_DIV_DS, sit, args, argh, c1 / k, x, y, false);
            b(B_MOD_DS, sit, args, argh, c1 % k, x, y, false);
        }
    }
    // same-type compound assignment (second operand re-typed as From)
    void compound(i128 c1, i128 c2)
    {
        if (!D.l1.has(c2)) { return; }
        char args[96];
        std::snprintf(args, sizeof args, "lhs=%s rhs=%s", s128(c1).c_str(), s128(c2).c_str());
        std::uint64_t const argh = vf::mix((std::uint64_t)(long long)c1, (std::uint64_t)(long long)c2 + 99);
        long long const x = (long long)c1, y = (long long)c2;
        char sit[96];
        std::snprintf(sit, sizeof sit, "lhs-%s,rhs-%s", sign_sit(c1), sign_sit(c2));
        if (D.l1.has(c1 + c2)) {
            eval2(c, kCName[C_ADDEQ], sit, args, argh, c1 + c2, D.cs[C_ADDEQ], D.ce[C_ADDEQ], x, y);
            eval2(c, kCName[C_TP_ADDEQ], sit, args, argh, c1 + c2, D.cs[C_TP_ADDEQ], D.ce[C_TP_ADDEQ], x, y);
        }
        if (D.l1.has(c1 - c2)) {
            eval2(c, kCName[C_SUBEQ], sit, args, argh, c1 - c2, D.cs[C_SUBEQ], D.ce[C_SUBEQ], x, y);
            eval2(c, kCName[C_TP_SUBEQ], sit, args, argh, c1 - c2, D.cs[C_TP_SUBEQ], D.ce[C_TP_SUBEQ], x, y);
        }
        if (c2 != 0 && D.l1.has(c1 / c2)) { eval2(c, kCName[C_MODEQ], sit, args, argh, c1 % c2, D.cs[C_MODEQ], D.ce[C_MODEQ], x, y); }
        if (D.diag) { lvalues(c1, c2, sit, args, argh, x, y); }
    }
    // (b) reference identity and (c) chained use of every compound / increment operator; From-only, so run in the diagonal cell
    void lvalues(i128 c1, i128 c2, char const* sit, char const* args, std::uint64_t argh, long long x, long long y)
    {
        struct Step {
            bool ok;     // the operator itself is in domain
            i128 after;  // value after the operator
            int bump;    // chained second step: +1 (++) or -1 (--)
        };
        bool const divok = c2 != 0 && D.l1.has(c1 / c2);
        Step const st[L_N] = {
            {D.l1.has(c1 + c2), c1 + c2, 1}, {D.l1.has(c1 - c2), c1 - c2, 1}, {divok, divok ? c1 % c2 : 0, 1}, {D.l1.has(c1 * 3), c1 * 3, 1},
            {true, c1 / 3, 1}, {true, c1 % 7, 1}, {D.l1.has(c1 + 1), c1 + 1, 1}, {D.l1.has(c1 - 1), c1 - 1, -1},
            {D.l1.has(c1 + c2), c1 + c2, 1}, {D.l1.has(c1 - c2), c1 - c2, 1}, {D.l1.has(c1 + 1), c1 + 1, 1}, {D.l1.has(c1 - 1), c1 - 1, -1},
        };
        for (int op = 0; op < L_N; ++op) {
            if (!st[op].ok) { continue; }
            eval2(c, kLIdName[op], sit, args, argh, 1, D.lids[op], D.lide[op], x, y, true);
            if (D.l1.has(st[op].after + st[op].bump)) { eval2(c, kLChName[op], sit, args, argh, st[op].after + st[op].bump, D.lchs[op], D.lche[op], x, y); }
        }
        if (D.l1.has(c1 + c2)) {
            eval2(c, kXName[X_D_ADDSUB], sit, args, argh, c1, D.xs[X_D_ADDSUB], D.xe[X_D_ADDSUB], x, y);
            eval2(c, kXName[X_TP_ADDSUB], sit, args, argh, c1, D.xs[X_TP_ADDSUB], D.xe[X_TP_ADDSUB], x, y);
        }
        if (D.l1.has(c1 - c2)) {
            eval2(c, kXName[X_D_SUBADD], sit, args, argh, c1, D.xs[X_D_SUBADD], D.xe[X_D_SUBADD], x, y);
            eval2(c, kXName[X_TP_SUBADD], sit, args, argh, c1, D.xs[X_TP_SUBADD], D.xe[X_TP_SUBADD], x, y);
        }
    }

    void run()
    {
        c.subj     = D.subj;
        c.cellhash = vf::fnv(D.subj);
        if (!c.random) { types(); }
        std::vector<i128> const us = unary_counts(c, D);
        for (i128 cc : us) { unary(cc); }
        // binary: a thinned list of left operands x right operands chosen around lhs (in common ticks) and around zero
        std::size_t const step = c.random ? 4 : (c.cs->tier == vf::Tier::thorough ? 3 : 12);
        for (std::size_t i = 0; i < us.size(); i += step) {
            i128 const c1 = us[i];
            std::vector<i128> rs;
            i128 const near = (c1 * F.f1) / F.f2;
            for (int dlt = -1; dlt <= 1; ++dlt) { push_unique(rs, near + dlt); }
            i128 const smalls[] = {-7, -2, -1, 0, 1, 2, 3, 60, 1000};
            for (i128 s : smalls) { push_unique(rs, s); }
            push_unique(rs, -near);
            push_unique(rs, near / 2);
            push_unique(rs, near * 2 + 1);
            if (c.random) { push_unique(rs, c.cs->rng.range(-100000, 100000)); }
            for (i128 c2 : rs) {
                if (D.l2.has(c2)) { binary(c1, c2); }
                if (D.l2.has(c2)) { scalar_free(c1, c2); }
                compound(c1, c2);
            }
        }
        if (vf::want_sample("cell")) { vf::sample("cell", "%s: %zu counts x unary ops, %zu left operands x ~14 right operands x binary ops", c.subj, us.size(), us.size() / step + 1); }
    }
};
template <typename R1, int I1, typename R2, int I2>
void run_int_cell(Ctx& c)
{
    IntCell cell(int_desc<R1, I1, R2, I2>(), c);
    cell.run();
}

// ------------------------------------------------------------------ floating cells
// a count is the exact rational q/4; the tiny functions take the count as double (exact: |q| < 2^55)
template <typename L, typename F, typename T> double f_cast(double c) { return L::template cast<T>(F{(REPF)c}).count(); }
template <typename L, typename F, typename T> double f_implicit(double c) { T t = F{(REPF)c}; return t.count(); }
template <typename L, typename F, typename T> double f_common(double c) { return typename L::template common<F, T>(F{(REPF)c}).count(); }
template <typename L, typename F, typename T> double f_abs(double c) { return L::abs(F{(REPF)c}).count(); }
template <typename L, typename F, typename T> double f_neg(double c) { return (-F{(REPF)c}).count(); }
template <typename L, typename F, typename T> double f_mul3(double c) { F d{(REPF)c}; return (d *= (REPF)3).count(); }
template <typename L, typename F, typename T> double f_div8(double c) { F d{(REPF)c}; return (d /= (REPF)8).count(); }
template <typename L, typename F, typename T> double g_add(double a, double b) { return (F{(REPF)a} + T{(REPT)b}).count(); }
template <typename L, typename F, typename T> double g_sub(double a, double b) { return (F{(REPF)a} - T{(REPT)b}).count(); }
template <typename L, typename F, typename T> double g_div(double a, double b) { return F{(REPF)a} / T{(REPT)b}; }
template <typename L, typename F, typename T> double g_cmp(double a, double b)
{
    F x{(REPF)a};
    T y{(REPT)b};
    return (double)((x == y) | (x != y) << 1 | (x < y) << 2 | (x <= y) << 3 | (x > y) << 4 | (x >= y) << 5);
}
template <typename L, typename F, typename T> long long h_cast(double c) { return L::template cast<T>(F{c}).count(); }
template <typename L, typename F, typename T> long long h_floor(double c) { return L::template floor<T>(F{c}).count(); }
template <typename L, typename F, typename T> long long h_ceil(double c) { return L::template ceil<T>(F{c}).count(); }
template <typename L, typename F, typename T> long long h_round(double c) { return L::template round<T>(F{c}).count(); }

using FnD1 = double (*)(double);
using FnD2 = double (*)(double, double);
using FnH  = long long (*)(double);
enum FOp { F_CAST, F_IMPLICIT, F_COMMON, F_ABS, F_NEG, F_MUL3, F_DIV8, F_N };
char const* const kFName[F_N] = {"duration_cast<To>(from)", "To(from) implicit", "common_type(from)", "abs(d)", "-d", "d*=k", "d/=k"};
enum GOp { G_ADD, G_SUB, G_DIV, G_CMP, G_N };
char const* const kGName[G_N] = {"a+b", "a-b", "a/b", "compare"};
enum HOp { H_CAST, H_FLOOR, H_CEIL, H_ROUND, H_N };
char const* const kHName[H_N] = {"duration_cast<To>(from)", "floor<To>(from)", "ceil<To>(from)", "round<To>(from)"};

struct FloatDesc {
    char subj[96];
    Fac F;
    bool int_source;
    FnD1 fe[F_N], fs[F_N];
    FnD2 ge[G_N], gs[G_N];
    std::vector<TypeFact> facts;
};
template <typename R1, int I1, int I2>
FloatDesc const& tofloat_desc()
{
    using EF  = ec::duration<R1, EP<I1>>;
    using ET  = ec::duration<f64, EP<I2>>;
    using SF  = sc::duration<R1, SP<I1>>;
    using ST  = sc::duration<f64, SP<I2>>;
    using ECD = etl::common_type_t<EF, ET>;
    using SCD = std::common_type_t<SF, ST>;
    static FloatDesc const d = [] {
        FloatDesc x{};
        std::snprintf(x.subj, sizeof x.subj, "dur<%s,%lld/%lld>,dur<f64,%lld/%lld>", RepName<R1>::s, Per<I1>::n, Per<I1>::d, Per<I2>::n, Per<I2>::d);
        x.F          = fac(Per<I1>::n, Per<I1>::d, Per<I2>::n, Per<I2>::d);
        x.int_source = std::is_integral_v<R1>;
#define BOTH(ARR, IDX, FN)                                                                                             \
    x.ARR##e[IDX] = &FN<EL, EF, ET>;                                                                                   \
    x.ARR##s[IDX] = &FN<SL, SF, ST>;
        BOTH(f, F_CAST, f_cast) BOTH(f, F_IMPLICIT, f_implicit) BOTH(f, F_COMMON, f_common)
        if constexpr (!std::is_integral_v<R1>) { BOTH(f, F_ABS, f_abs) BOTH(f, F_NEG, f_neg) BOTH(f, F_MUL3, f_mul3) BOTH(f, F_DIV8, f_div8) }
        BOTH(g, G_ADD, g_add) BOTH(g, G_SUB, g_sub) BOTH(g, G_DIV, g_div) BOTH(g, G_CMP, g_cmp)
#undef BOTH
        Fac const& F = x.F;
        x.facts = {
            {"common_type::period::num", (long long)ECD::period::num == F.cn, (long long)SCD::period::num == F.cn},
            {"common_type::period::den", (long long)ECD::period::den == F.cd, (long long)SCD::period::den == F.cd},
            {"common_type::rep", std::is_same_v<typename ECD::rep, f64>, std::is_same_v<typename SCD::rep, f64>},
            {"is_convertible<From,To>", etl::is_convertible_v<EF, ET>, std::is_convertible_v<SF, ST>},
            {"is_convertible<To,From>", etl::is_convertible_v<ET, EF>, std::is_convertible_v<ST, SF>},
            {"treat_as_floating_point", ec::treat_as_floating_point_v<typename ET::rep>, sc::treat_as_floating_point_v<typename ST::rep>},
        };
        return x;
    }();
    return d;
}
struct FromFloatDesc {
    char subj[96];
    Fac F;
    FnH he[H_N], hs[H_N];
    std::vector<TypeFact> facts;
};
template <int I1, int I2>
FromFloatDesc const& fromfloat_desc()
{
    using EF = ec::duration<f64, EP<I1>>;
    using ET = ec::duration<i64, EP<I2>>;
    using SF = sc::duration<f64, SP<I1>>;
    using ST = sc::duration<i64, SP<I2>>;
    static FromFloatDesc const d = [] {
        FromFloatDesc x{};
        std::snprintf(x.subj, sizeof x.subj, "dur<f64,%lld/%lld>,dur<i64,%lld/%lld>", Per<I1>::n, Per<I1>::d, Per<I2>::n, Per<I2>::d);
        x.F = fac(Per<I1>::n, Per<I1>::d, Per<I2>::n, Per<I2>::d);
        x.he[H_CAST] = &h_cast<EL, EF, ET>; x.hs[H_CAST] = &h_cast<SL, SF, ST>;
        x.he[H_FLOOR] = &h_floor<EL, EF, ET>; x.hs[H_FLOOR] = &h_floor<SL, SF, ST>;
        x.he[H_CEIL] = &h_ceil<EL, EF, ET>; x.hs[H_CEIL] = &h_ceil<SL, SF, ST>;
        x.he[H_ROUND] = &h_round<EL, EF, ET>; x.hs[H_ROUND] = &h_round<SL, SF, ST>;
        x.facts = {
            {"is_convertible<From,To>", etl::is_convertible_v<EF, ET>, std::is_convertible_v<SF, ST>},
            {"is_constructible<To,From>", std::is_constructible_v<ET, EF>, std::is_constructible_v<ST, SF>},
            {"is_constructible<dur<i64>,double>", std::is_constructible_v<ET, double>, std::is_constructible_v<ST, double>},
        };
        return x;
    }();
    return d;
}

// exact rational p/r -> is it a double?  (r > 0)
bool representable(i128 p, i128 r, double& out)
{
    i128 g = gcd128(p, r);
    if (g != 0) {
        p /= g;
        r /= g;
    }
    if ((r & (r - 1)) != 0) { return false; } // denominator must be a power of two
    if (iabs(p) >= ((i128)1 << 53)) { return false; }
    if (r > ((i128)1 << 60)) { return false; }
    out = (double)(long long)p / (double)(long long)r;
    return true;
}
long long ulps(double a, double b)
{
    if (a == b) { return 0; }
    if (std::isnan(a) || std::isnan(b)) { return std::isnan(a) && std::isnan(b) ? 0 : 1000; }
    if (std::nextafter(a, b) == b) { return 1; }
    return 1000;
}
std::string sd(double v)
{
    char b[64];
    std::snprintf(b, sizeof b, "%.17g (%a)", v, v);
    return b;
}
// exact (p/r) where representable, otherwise within 1 ulp of std
void cmp_f(char const* name, double e, double s, bool has_exact, double exact)
{
    if (has_exact) {
        if (s != exact) {
            // std itself is not exact although the result is representable: only require tetl to be at least as good
            if (e == exact || e == s) { return; }
        } else if (e == exact) {
            return;
        }
        char sym[64];
        std::snprintf(sym, sizeof sym, "%s:%s", name, ulps(e, exact) == 1 ? "1ulp-off-exact" : (e > exact ? "greater" : "less"));
        vf::diverge(sym, sd(e), sd(exact));
        return;
    }
    if (ulps(e, s) <= 1) { return; }
    char sym[64];
    std::snprintf(sym, sizeof sym, "%s:%s", name, e > s ? "greater-by->1ulp" : "less-by->1ulp");
    vf::diverge(sym, sd(e), sd(s));
}
void evalf1(Ctx& c, char const* op, char const* sit, char const* args, std::uint64_t argh, i128 p, i128 r, FnD1 fs, FnD1 fe, double x)
{
    double const s = fs(x);
    vf::crumb(c.subj, op, sit, "%s", args);
    double const e = fe(x);
    double ex      = 0;
    bool const hx  = representable(p, r, ex);
    vf::cover(op, vf::mix(c.cellhash, argh), true);
    cmp_f("count", e, s, hx, ex);
}
void evalf2(Ctx& c, char const* op, char const* sit, char const* args, std::uint64_t argh, i128 p, i128 r, FnD2 fs, FnD2 fe, double x, double y)
{
    double const s = fs(x, y);
    vf::crumb(c.subj, op, sit, "%s", args);
    double const e = fe(x, y);
    double ex      = 0;
    bool const hx  = representable(p, r, ex);
    vf::cover(op, vf::mix(c.cellhash, argh), true);
    cmp_f("count", e, s, hx, ex);
}

std::vector<i128> f_counts(Ctx& c, Fac const& F) // quarters
{
    std::vector<i128> v;
    if (c.random) {
        for (int i = 0; i < 128; ++i) {
            int bits = (int)c.cs->rng.below(50);
            i128 mag = bits == 0 ? 0 : (i128)(c.cs->rng.next() >> (64 - bits));
            v.push_back(c.cs->rng.coin() ? mag : -mag);
        }
        return v;
    }
    int const dense = c.cs->tier == vf::Tier::thorough ? 8000 : 800;
    for (int k = -dense; k <= dense; ++k) { v.push_back(k); }
    for (int k = -40; k <= 40; ++k) {
        v.push_back((i128)k * F.fd * 4);
        v.push_back((i128)k * F.fd * 4 + 1);
        v.push_back((i128)(2 * k + 1) * F.fd * 2); // (k + 1/2) * fd
    }
    i128 const big[] = {((i128)1 << 32) * 4 + 2, ((i128)1 << 40) * 4 + 1, ((i128)1 << 50) + 1, ((i128)1 << 52) - 1};
    for (i128 b : big) {
        v.push_back(b);
        v.push_back(-b);
    }
    return v;
}

void run_tofloat(FloatDesc const& D, Ctx& c)
{
    Fac const& F = D.F;
    c.subj       = D.subj;
    c.cellhash   = vf::fnv(D.subj);
    if (!c.random) {
        for (TypeFact const& f : D.facts) {
            vf::crumb(c.subj, f.what, "type-level", "compile-time boolean");
            vf::cover("type-level", vf::mix(c.cellhash, vf::fnv(f.what)), true);
            vf::eq_bool("value", f.e, f.s);
        }
    }
    std::vector<i128> const qs = f_counts(c, F);
    i128 const lim             = (i128)1 << 55;
    i128 prev                  = 1; // not a multiple of 4
    std::size_t nb             = 0;
    for (std::size_t i = 0; i < qs.size(); ++i) {
        i128 q = qs[i];
        if (D.int_source) {
            q = (q / 4) * 4; // integer source: whole ticks only
            if (q == prev) { continue; }
            prev = q;
        }
        // keep the integer products tetl/std may form (count * factor) away from 2^63 and inside the exact range of f64
        if (iabs(q * F.fn) >= lim || iabs(q * F.f1) >= lim) { continue; }
        double const x = (double)(long long)q / 4.0;
        char args[96];
        std::snprintf(args, sizeof args, "count=%s/4", s128(q).c_str());
        std::uint64_t const argh = (std::uint64_t)(long long)q;
        i128 const p = q * F.fn, r = (i128)4 * F.fd; // exact value in To ticks
        double dummy;
        char sit[96];
        std::snprintf(sit, sizeof sit, "%s,%s,%s", dir_sit(F), sign_sit(q), representable(p, r, dummy) ? "result-representable" : "result-rounded");
        evalf1(c, kFName[F_CAST], sit, args, argh, p, r, D.fs[F_CAST], D.fe[F_CAST], x);
        evalf1(c, kFName[F_IMPLICIT], sit, args, argh, p, r, D.fs[F_IMPLICIT], D.fe[F_IMPLICIT], x);
        evalf1(c, kFName[F_COMMON], sit, args, argh, q * F.f1, 4, D.fs[F_COMMON], D.fe[F_COMMON], x);
        if (!D.int_source) {
            evalf1(c, kFName[F_ABS], sit, args, argh, iabs(q), 4, D.fs[F_ABS], D.fe[F_ABS], x);
            evalf1(c, kFName[F_NEG], sit, args, argh, -q, 4, D.fs[F_NEG], D.fe[F_NEG], x);
            evalf1(c, kFName[F_MUL3], sit, args, argh, q * 3, 4, D.fs[F_MUL3], D.fe[F_MUL3], x);
            evalf1(c, kFName[F_DIV8], sit, args, argh, q, 32, D.fs[F_DIV8], D.fe[F_DIV8], x);
        }
        if (i % (c.random ? 2 : 7) != 0) { continue; }
        ++nb;
        i128 const a4   = q * F.f1; // lhs in common ticks, times 4
        i128 const rq[] = {a4 / F.f2, a4 / F.f2 + 1, -a4 / F.f2, 0, 4, -6, 10, 1001};
        for (i128 r4 : rq) {
            i128 const b4 = r4 * F.f2;
            if (iabs(b4) >= lim) { continue; }
            double const y = (double)(long long)r4 / 4.0;
            char a2[96];
            std::snprintf(a2, sizeof a2, "lhs=%s/4 rhs=%s/4", s128(q).c_str(), s128(r4).c_str());
            char s2[96];
            std::snprintf(s2, sizeof s2, "%s,lhs-%s,rhs-%s,%s", dir_sit(F), sign_sit(q), sign_sit(r4), a4 == b4 ? "equal" : (a4 < b4 ? "lhs<rhs" : "lhs>rhs"));
            std::uint64_t const h2 = vf::mix(argh, (std::uint64_t)(long long)r4);
            evalf2(c, kGName[G_ADD], s2, a2, h2, a4 + b4, 4, D.gs[G_ADD], D.ge[G_ADD], x, y);
            evalf2(c, kGName[G_SUB], s2, a2, h2, a4 - b4, 4, D.gs[G_SUB], D.ge[G_SUB], x, y);
            if (b4 != 0) { evalf2(c, kGName[G_DIV], s2, a2, h2, b4 < 0 ? -a4 : a4, iabs(b4), D.gs[G_DIV], D.ge[G_DIV], x, y); }
            // comparisons are decided on the exactly converted operands whenever those are exact (< 2^53 quarter ticks)
            double d1, d2;
            if (representable(a4, 4, d1) && representable(b4, 4, d2)) {
                int const exact = (a4 == b4) | (a4 != b4) << 1 | (a4 < b4) << 2 | (a4 <= b4) << 3 | (a4 > b4) << 4 | (a4 >= b4) << 5;
                int const s     = (int)D.gs[G_CMP](x, y);
                if (s != exact) { oracle_disagree(c, "compare", s, exact, a2); }
                vf::crumb(c.subj, "compare", s2, "%s", a2);
                int const e = (int)D.ge[G_CMP](x, y);
                vf::cover("compare (f64)", vf::mix(c.cellhash, h2), true);
                char const* const names[6] = {"==", "!=", "<", "<=", ">", ">="};
                for (int k = 0; k < 6; ++k) { vf::eq_bool(names[k], (e >> k) & 1, (exact >> k) & 1); }
            }
        }
    }
    if (vf::want_sample("cell")) { vf::sample("cell", "%s: %zu counts (quarters) x unary ops, %zu x 8 right operands x binary ops", c.subj, qs.size(), nb); }
}

void run_fromfloat(FromFloatDesc const& D, Ctx& c)
{
    Fac const& F = D.F;
    c.subj       = D.subj;
    c.cellhash   = vf::fnv(D.subj);
    if (!c.random) {
        for (TypeFact const& f : D.facts) {
            vf::crumb(c.subj, f.what, "type-level", "compile-time boolean");
            vf::cover("type-level", vf::mix(c.cellhash, vf::fnv(f.what)), true);
            vf::eq_bool("value", f.e, f.s);
        }
    }
    i128 const lim = (i128)1 << 52;
    for (i128 q : f_counts(c, F)) {
        i128 const p = q * F.fn, r = (i128)4 * F.fd;
        // every intermediate (count*num, the operands of the comparison in the common type) stays exactly representable and far from 2^63
        if (iabs(p) >= lim || iabs(q * F.f1) >= lim || iabs((fdiv(p, r) + 1) * F.f2) >= lim || iabs((fdiv(p, r) - 1) * F.f2) >= lim) { continue; }
        double const x = (double)(long long)q / 4.0;
        char args[96];
        std::snprintf(args, sizeof args, "count=%s/4", s128(q).c_str());
        std::uint64_t const argh = (std::uint64_t)(long long)q;
        char sit[96];
        std::snprintf(sit, sizeof sit, "%s,%s,%s", dir_sit(F), sign_sit(q), frac_sit(p, r));
        i128 const exact[H_N] = {p / r, fdiv(p, r), cdiv(p, r), rdiv_even(p, r)};
        for (int op = 0; op < H_N; ++op) {
            long long const s = D.hs[op](x);
            vf::crumb(c.subj, kHName[op], sit, "%s", args);
            long long const e = D.he[op](x);
            vf::cover(kHName[op], vf::mix(c.cellhash, argh), true);
            // same as std, or the exact value where std's double arithmetic rounded across an integer
            if (e == s || (i128)e == exact[op]) { continue; }
            vf::eq_int("count", e, (i128)s == exact[op] ? s : (long long)exact[op]);
        }
    }
}
template <typename R1, int I1, int I2> void run_tofloat_cell(Ctx& c) { run_tofloat(tofloat_desc<R1, I1, I2>(), c); }
template <int I1, int I2> void run_fromfloat_cell(Ctx& c) { run_fromfloat(fromfloat_desc<I1, I2>(), c); }

// ------------------------------------------------------------------ cell table
using CellFn = void (*)(Ctx&);
std::vector<CellFn>& cells()
{
    static std::vector<CellFn> v;
    return v;
}
constexpr bool x_pair(int a, int b) { return C12_PERSET == 0 && ((a == 0 && b == 8) || (a == 8 && b == 0)); } // nano x 5/7 of the first period family

template <int RS, int I1, int I2>
void add_cells()
{
    if constexpr (RS == 0) {
        cells().push_back(&run_int_cell<i64, I1, i64, I2>);
    } else if constexpr (RS == 1) {
        cells().push_back(&run_int_cell<i32, I1, i32, I2>);
    } else if constexpr (RS == 2) {
        cells().push_back(&run_int_cell<i32, I1, i64, I2>);
        cells().push_back(&run_int_cell<i64, I1, i32, I2>);
    } else if constexpr (RS == 3) {
        cells().push_back(&run_tofloat_cell<f64, I1, I2>);
        cells().push_back(&run_tofloat_cell<i64, I1, I2>);
        cells().push_back(&run_fromfloat_cell<I1, I2>);
    } else if constexpr (RS == 4) { // unsigned tick types: common type unsigned (u32, u16 via int promotion, u64 with i64)
        cells().push_back(&run_int_cell<u32, I1, u32, I2>);
        cells().push_back(&run_int_cell<u64, I1, i64, I2>);
        cells().push_back(&run_int_cell<u16, I1, u16, I2>);
    } else { // RS == 5: mixed signed/unsigned source and target
        cells().push_back(&run_int_cell<i64, I1, u64, I2>);
        cells().push_back(&run_int_cell<i32, I1, u32, I2>);
        cells().push_back(&run_int_cell<u32, I1, i64, I2>);
        cells().push_back(&run_int_cell<u16, I1, i32, I2>);
    }
}
template <int RS, int I1, int I2>
void maybe_add()
{
    if constexpr ((C12_X ? x_pair(I1, I2) : !x_pair(I1, I2)) && I1 >= C12_FROM_LO && I1 <= C12_FROM_HI) { add_cells<RS, I1, I2>(); }
}
template <int RS, int I1, int... I2s>
void add_row(std::integer_sequence<int, I2s...>)
{
    (maybe_add<RS, I1, I2s>(), ...);
}
template <int RS, int... I1s>
void add_rows(std::integer_sequence<int, I1s...>)
{
    (add_row<RS, I1s>(std::make_integer_sequence<int, 10>{}), ...);
}
void build_cells()
{
    if (!cells().empty()) { return; }
#if C12_X
    add_rows<0>(std::make_integer_sequence<int, 10>{});
    add_rows<1>(std::make_integer_sequence<int, 10>{});
    add_rows<2>(std::make_integer_sequence<int, 10>{});
    add_rows<3>(std::make_integer_sequence<int, 10>{});
    add_rows<4>(std::make_integer_sequence<int, 10>{});
    add_rows<5>(std::make_integer_sequence<int, 10>{});
#else
    add_rows<C12_REPSET>(std::make_integer_sequence<int, 10>{});
#endif
}

vf::Spec spec(vf::Tier t)
{
    build_cells();
    vf::Spec s;
    s.n_enum     = cells().size();
    s.n_random   = (t == vf::Tier::thorough ? 16 : 2) * cells().size();
    s.batch      = 1;
    s.timeout_s  = 600;
    s.exhaustive = true;
    return s;
}

void run_case(vf::Case& cs)
{
    build_cells();
    Ctx c{};
    c.cs     = &cs;
    c.random = !cs.enumerated;
    std::size_t cell = cs.enumerated ? (std::size_t)cs.index : (std::size_t)(cs.index % cells().size());
    cells()[cell](c);
}
} // namespace

#if C12_X
VF_MAIN("C12", "C12_dur_x", spec, run_case)
#else
#if C12_PERSET == 0
VF_MAIN("C12", "C12_dur_f" C12_STR(C12_FROM_LO) "_" C12_STR(C12_FROM_HI) "_r" C12_STR(C12_REPSET), spec, run_case)
#else
VF_MAIN("C12", "C12_dur_f" C12_STR(C12_FROM_LO) "_" C12_STR(C12_FROM_HI) "_r" C12_STR(C12_REPSET) "_p" C12_STR(C12_PERSET), spec, run_case)
#endif
#endif
