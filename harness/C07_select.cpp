// C07 - converting construction / assignment of variant: which alternative does an argument of a type that is NOT
// (exactly) an alternative select?  Compared only where both std::variant and etl::variant accept the argument;
// cells where one library rejects it are skipped and listed (absence / rejection is not a behavioural divergence).
#include "vf.hpp"
#include "vf_contract.hpp"
#include "vf_tracked.hpp"

#include "vf_c07.hpp"

#include <bitset>

#ifndef VF_PART
    #define VF_PART 0 // 0: arithmetic argument sweep + optional<T>/optional<U> cells; 1..3: argument zoo over lists with bool in every position (split for compile time)
#endif

namespace c07 {
template <>
struct Make<bool> {
    static bool arg(int v) { return v != 0; }
};
template <>
struct Make<double> {
    static double arg(int v) { return v; }
};
template <>
struct Make<float> {
    static float arg(int v) { return (float)v; }
};
template <>
struct Make<long> {
    static long arg(int v) { return v; }
};
template <>
struct Make<unsigned> {
    static unsigned arg(int v) { return (unsigned)v; }
};

} // namespace c07

namespace {
using namespace c07;

struct Str { // stands in for a string class: implicitly constructible from a C string
    char const* p;
    Str(char const* q) : p(q) { } // NOLINT implicit on purpose
};
inline long long enc(Str const& s) { return s.p != nullptr ? 500 + s.p[0] : 500; }
inline long long enc(float x) { return (long long)(x * 2); }
inline long long enc(unsigned x) { return x; }
inline long long enc(unsigned long x) { return (long long)x; }
using c07::enc;

template <typename... Ts>
struct TL { };

template <typename SV, typename EV, typename Arg>
inline constexpr bool both_ctor = std::is_constructible_v<SV, Arg> && requires(Arg a) { EV(static_cast<Arg&&>(a)); };
template <typename SV, typename EV, typename Arg>
inline constexpr bool both_assign = std::is_assignable_v<SV&, Arg> && requires(EV& e, Arg a) { e = static_cast<Arg&&>(a); };
template <typename SV, typename EV, typename Arg>
inline constexpr bool one_sided = (std::is_constructible_v<SV, Arg> != requires(Arg a) { EV(static_cast<Arg&&>(a)); });

struct Cells {
    unsigned compared = 0, skipped = 0, both_reject = 0;
    std::string skipped_list;
};

// Arg is given explicitly so that reference arguments (arrays, T&) reach the variant undecayed
template <typename Arg, typename... Ts>
void cell_as(Cells& c, char const* vname, char const* aname, TL<Ts...>, std::type_identity_t<Arg> arg)
{
    using SV = std::variant<Ts...>;
    using EV = etl::variant<Ts...>;
    char sit[64];
    std::snprintf(sit, sizeof sit, "arg-%s", aname);
    if constexpr (both_ctor<SV, EV, Arg>) {
        Arg a1 = arg, a2 = arg;
        SV s(static_cast<Arg&&>(a1));
        vf::crumb(vname, "ctor(T&&) converting", sit, "-");
        EV e(static_cast<Arg&&>(a2));
        long long sv = -5, ev = -5;
        std::visit([&](auto const& a) { sv = enc(a); }, s);
        etl::visit([&](auto const& a) { ev = enc(a); }, e);
        vf::cover("variant converting ctor: selected alternative", vf::mix(vf::fnv(vname), vf::fnv(aname)), true);
        if (vf::eq_int("selected-index", e.index(), s.index())) { vf::eq_int("value", ev, sv); }
        if (vf::want_sample("variant converting ctor: selected alternative")) { vf::sample("variant converting ctor: selected alternative", "%s from %s -> index %zu", vname, aname, s.index()); }
        ++c.compared;
    } else if constexpr (one_sided<SV, EV, Arg>) {
        ++c.skipped;
        c.skipped_list += std::string(vname) + "(" + aname + (std::is_constructible_v<SV, Arg> ? "):only-etl-rejects " : "):only-std-rejects ");
    } else {
        ++c.both_reject;
    }
    if constexpr (both_assign<SV, EV, Arg>) {
        // assign onto every alternative as the previous state
        [&]<std::size_t... Is>(std::index_sequence<Is...>) {
            (
                [&] {
                    using T0 = std::tuple_element_t<Is, std::tuple<Ts...>>;
                    if constexpr (std::is_default_constructible_v<T0> || std::is_constructible_v<T0, int>) {
                        Arg a1 = arg, a2 = arg;
                        constexpr bool from_arg = std::is_constructible_v<T0, decltype(Make<T0>::arg(1))>;
                        SV s = [] {
                            if constexpr (from_arg) {
                                return SV(std::in_place_index<Is>, Make<T0>::arg(1));
                            } else {
                                return SV(std::in_place_index<Is>);
                            }
                        }();
                        EV e = [] {
                            if constexpr (from_arg) {
                                return EV(etl::in_place_index<Is>, Make<T0>::arg(1));
                            } else {
                                return EV(etl::in_place_index<Is>);
                            }
                        }();
                        s = static_cast<Arg&&>(a1);
                        char sit2[80];
                        std::snprintf(sit2, sizeof sit2, "arg-%s,from-index-%zu", aname, Is);
                        vf::crumb(vname, "operator=(T&&) converting", sit2, "-");
                        e = static_cast<Arg&&>(a2);
                        long long sv = -5, ev = -5;
                        std::visit([&](auto const& a) { sv = enc(a); }, s);
                        etl::visit([&](auto const& a) { ev = enc(a); }, e);
                        vf::cover("variant converting assignment: selected alternative", vf::mix(vf::mix(vf::fnv(vname), Is), vf::fnv(aname)), true);
                        if (vf::eq_int("selected-index", e.index(), s.index())) { vf::eq_int("value", ev, sv); }
                        ++c.compared;
                    }
                }(),
                ...);
        }(std::index_sequence_for<Ts...>{});
    }
}
template <typename... Ts, typename Arg>
void cell(Cells& c, char const* vname, char const* aname, TL<Ts...> l, Arg arg)
{
    cell_as<Arg>(c, vname, aname, l, arg);
}
static char const kLit[] = "hello";

template <typename L>
void arith_args(Cells& c, char const* vname, L l)
{
    cell(c, vname, "bool", l, true);
    cell(c, vname, "char", l, (char)2);
    cell(c, vname, "signed char", l, (signed char)2);
    cell(c, vname, "unsigned char", l, (unsigned char)2);
    cell(c, vname, "short", l, (short)2);
    cell(c, vname, "unsigned short", l, (unsigned short)2);
    cell(c, vname, "int", l, 2);
    cell(c, vname, "unsigned", l, 2U);
    cell(c, vname, "long", l, 2L);
    cell(c, vname, "unsigned long", l, 2UL);
    cell(c, vname, "float", l, 2.0F);
    cell(c, vname, "double", l, 2.0);
}

// ---------------------------------------------------------------- argument zoo: class types with conversion functions, enums, nullptr, arrays
struct ToBool {
    operator bool() const { return true; } // NOLINT implicit on purpose
};
struct ToInt {
    operator int() const { return 2; } // NOLINT
};
struct ToDouble {
    operator double() const { return 2.5; } // NOLINT
};
struct ToLong {
    operator long() const { return 2L; } // NOLINT
};
struct ToBoolAndInt {
    operator bool() const { return true; } // NOLINT
    operator int() const { return 2; }     // NOLINT
};
struct ToIntAndDouble {
    operator int() const { return 2; }       // NOLINT
    operator double() const { return 2.5; }  // NOLINT
};
struct ExplicitBool {
    explicit operator bool() const { return true; }
};
struct ExplicitInt {
    explicit operator int() const { return 2; }
};
struct ToIntRef {
    int x = 2;
    operator int&() { return x; } // NOLINT
};
struct ToBoolConstRef {
    bool b = true;
    operator bool const&() const { return b; } // NOLINT
};
struct ToStr {
    operator Str() const { return Str("s"); } // NOLINT
};
struct ToCharPtr {
    operator char const*() const { return "p"; } // NOLINT
};
enum Unscoped { u0, u1, u2 };
enum SmallChar : char { sc1 = 1 };
enum BoolEnum : bool { be0, be1 };
enum class Scoped { s0, s1 };
inline long long enc(Unscoped e) { return 700 + (int)e; }
inline long long enc(Scoped e) { return 710 + (int)e; }
static std::bitset<8> g_bits(5);
static char g_mutable_text[6] = "world";

template <typename L>
void zoo_args(Cells& c, char const* vname, L l)
{
    cell(c, vname, "class->bool", l, ToBool{});
    cell(c, vname, "class->int", l, ToInt{});
    cell(c, vname, "class->double", l, ToDouble{});
    cell(c, vname, "class->long", l, ToLong{});
    cell(c, vname, "class->bool+int", l, ToBoolAndInt{});
    cell(c, vname, "class->int+double", l, ToIntAndDouble{});
    cell(c, vname, "class->explicit bool", l, ExplicitBool{});
    cell(c, vname, "class->explicit int", l, ExplicitInt{});
    cell(c, vname, "class->int&", l, ToIntRef{});
    cell(c, vname, "class->bool const&", l, ToBoolConstRef{});
    cell(c, vname, "class->Str", l, ToStr{});
    cell(c, vname, "class->char const*", l, ToCharPtr{});
    cell(c, vname, "std::true_type", l, std::true_type{});
    cell(c, vname, "std::false_type", l, std::false_type{});
    cell(c, vname, "std::integral_constant<int,2>", l, std::integral_constant<int, 2>{});
    cell(c, vname, "std::bitset<8>::reference", l, g_bits[0]);
    cell(c, vname, "unscoped enum", l, u2);
    cell(c, vname, "enum : char", l, sc1);
    cell(c, vname, "enum : bool", l, be1);
    cell(c, vname, "enum class", l, Scoped::s1);
    cell(c, vname, "nullptr_t", l, nullptr);
    cell(c, vname, "char const*", l, static_cast<char const*>(kLit));
    cell(c, vname, "int*", l, static_cast<int*>(nullptr));
    cell_as<char const(&)[6]>(c, vname, "char const(&)[6]", l, kLit);
    cell_as<char(&)[6]>(c, vname, "char(&)[6]", l, g_mutable_text);
    {
        static ToBool tb;
        static int lv = 2;
        static int const clv = 2;
        static bool blv = true;
        cell_as<ToBool&>(c, vname, "class->bool, lvalue", l, tb);
        cell_as<int&>(c, vname, "int&", l, lv);
        cell_as<int const&>(c, vname, "int const&", l, clv);
        cell_as<bool&>(c, vname, "bool&", l, blv);
    }
}
template <typename L>
void all_args(Cells& c, char const* vname, L l)
{
    arith_args(c, vname, l);
    zoo_args(c, vname, l);
}

struct Cells;
void run_opt_cells(Cells& c);
void run_all()
{
    Cells c;
#if VF_PART == 0
    arith_args(c, "variant<int,tracked-cm,pair<int,int>>", TL<int, TCM, PairII>{});
    arith_args(c, "variant<tracked-cm,tracked-cm2,int,char>", TL<TCM, TCM2, int, char>{});
    arith_args(c, "variant<int,tracked-cm>", TL<int, TCM>{});
    arith_args(c, "variant<double,tracked-cm>", TL<double, TCM>{});
    arith_args(c, "variant<char,tracked-cm>", TL<char, TCM>{});
    arith_args(c, "variant<bool,tracked-cm>", TL<bool, TCM>{});
    arith_args(c, "variant<float,long>", TL<float, long>{});
    arith_args(c, "variant<long,double>", TL<long, double>{});
    arith_args(c, "variant<unsigned,long>", TL<unsigned, long>{});
    arith_args(c, "variant<int,long>", TL<int, long>{});
    arith_args(c, "variant<float,double>", TL<float, double>{});
    arith_args(c, "variant<char,int,double>", TL<char, int, double>{});
    cell(c, "variant<bool,Str>", "char const*", TL<bool, Str>{}, static_cast<char const*>(kLit));
    cell(c, "variant<Str,bool>", "char const*", TL<Str, bool>{}, static_cast<char const*>(kLit));
    cell(c, "variant<int,Str>", "char const*", TL<int, Str>{}, static_cast<char const*>(kLit));
    cell(c, "variant<bool,Str>", "bool", TL<bool, Str>{}, true);
    cell(c, "variant<bool,int>", "int*", TL<bool, int>{}, static_cast<int*>(nullptr));
    run_opt_cells(c);
#elif VF_PART == 1
    // alternative lists with bool in every position (and some without), against the whole argument zoo
    all_args(c, "variant<bool,int>", TL<bool, int>{});
    all_args(c, "variant<int,bool>", TL<int, bool>{});
    all_args(c, "variant<bool,int,double>", TL<bool, int, double>{});
    all_args(c, "variant<int,bool,double>", TL<int, bool, double>{});
    all_args(c, "variant<int,double,bool>", TL<int, double, bool>{});
    all_args(c, "variant<bool,Str>", TL<bool, Str>{});
#elif VF_PART == 2
    // alternative lists with bool in every position (and some without), against the whole argument zoo
    all_args(c, "variant<Str,bool>", TL<Str, bool>{});
    all_args(c, "variant<long,Str,bool>", TL<long, Str, bool>{});
    all_args(c, "variant<bool,tracked-cm>", TL<bool, TCM>{});
    all_args(c, "variant<tracked-cm,bool>", TL<TCM, bool>{});
    all_args(c, "variant<char,bool,long>", TL<char, bool, long>{});
    all_args(c, "variant<bool>", TL<bool>{});
#elif VF_PART == 3
    // alternative lists with bool in every position (and some without), against the whole argument zoo
    all_args(c, "variant<bool,float>", TL<bool, float>{});
    zoo_args(c, "variant<int,double>", TL<int, double>{});
    zoo_args(c, "variant<int,tracked-cm,pair<int,int>>", TL<int, TCM, PairII>{});
    zoo_args(c, "variant<Unscoped,int>", TL<Unscoped, int>{});
    zoo_args(c, "variant<Scoped,bool>", TL<Scoped, bool>{});
#endif
    vf::sample("selection cells", "%u (variant, argument type[, previous index]) cells compared; %u skipped because exactly one library rejects the argument; %u rejected by both", c.compared, c.skipped, c.both_reject);
    // the skip list is long: split over several samples
    for (std::size_t off = 0, k = 0; off < c.skipped_list.size() && k < 6; off += 600, ++k) {
        char lab[40];
        std::snprintf(lab, sizeof lab, "skipped cells %zu", k);
        vf::sample(lab, "%s", c.skipped_list.substr(off, 600).c_str());
    }
}

// ---------------------------------------------------------------- optional<T> from / assigned from optional<U>
// (the std constraints special-case T = bool; source states: empty, engaged with 0, engaged with 1)
template <typename T, typename U>
void opt_cell(Cells& c, char const* tname, char const* uname)
{
    using SO = std::optional<T>;
    using EO = etl::optional<T>;
    using SU = std::optional<U>;
    using EU = etl::optional<U>;
    char subj[64];
    std::snprintf(subj, sizeof subj, "optional<%s>", tname);
    for (int y = 0; y < 3; ++y) {
        char sit[64];
        std::snprintf(sit, sizeof sit, "source-optional<%s>-%s", uname, y == 0 ? "empty" : "engaged");
        SU const su = y ? SU(static_cast<U>(y - 1)) : SU();
        EU const eu = y ? EU(static_cast<U>(y - 1)) : EU();
        if constexpr (std::is_constructible_v<SO, SU const&> && requires(EU const& x) { EO(x); }) {
            SO s(su);
            vf::crumb(subj, "ctor(optional<U> const&)", sit, "y=%d", y);
            EO e(eu);
            vf::cover("optional converting ctor/assignment cells", vf::mix(vf::mix(vf::fnv(tname), vf::fnv(uname)), y), true);
            if (vf::eq_bool("converted.has_value", e.has_value(), s.has_value()) && s.has_value()) { vf::eq_int("converted.value", enc(*e), enc(*s)); }
            ++c.compared;
        } else if constexpr (std::is_constructible_v<SO, SU const&> != requires(EU const& x) { EO(x); }) {
            if (y == 0) {
                ++c.skipped;
                c.skipped_list += std::string(subj) + "(optional<" + uname + "> const&)" + (std::is_constructible_v<SO, SU const&> ? ":only-etl-rejects " : ":only-std-rejects ");
            }
        }
        if constexpr (std::is_constructible_v<SO, SU&&> && requires(EU x) { EO(static_cast<EU&&>(x)); }) {
            SU su2 = su;
            EU eu2 = eu;
            SO s(static_cast<SU&&>(su2));
            vf::crumb(subj, "ctor(optional<U>&&)", sit, "y=%d", y);
            EO e(static_cast<EU&&>(eu2));
            vf::cover("optional converting ctor/assignment cells", vf::mix(vf::mix(vf::fnv(tname), vf::fnv(uname)), 10 + y), true);
            if (vf::eq_bool("converted.has_value", e.has_value(), s.has_value()) && s.has_value()) { vf::eq_int("converted.value", enc(*e), enc(*s)); }
            ++c.compared;
        }
        if constexpr (std::is_assignable_v<SO&, SU const&> && requires(EO& d, EU const& x) { d = x; }) {
            for (int st = 0; st < 2; ++st) {
                SO s = st ? SO(static_cast<T>(1)) : SO();
                EO e = st ? EO(static_cast<T>(1)) : EO();
                s    = su;
                char sit2[96];
                std::snprintf(sit2, sizeof sit2, "%s,target-%s", sit, st ? "engaged" : "empty");
                vf::crumb(subj, "operator=(optional<U> const&)", sit2, "y=%d", y);
                e = eu;
                vf::cover("optional converting ctor/assignment cells", vf::mix(vf::mix(vf::fnv(tname), vf::fnv(uname)), 20 + y * 2 + st), true);
                if (vf::eq_bool("assigned.has_value", e.has_value(), s.has_value()) && s.has_value()) { vf::eq_int("assigned.value", enc(*e), enc(*s)); }
                ++c.compared;
            }
        } else if constexpr (std::is_assignable_v<SO&, SU const&> != requires(EO& d, EU const& x) { d = x; }) {
            if (y == 0) {
                ++c.skipped;
                c.skipped_list += std::string(subj) + "=optional<" + uname + "> const&" + (std::is_assignable_v<SO&, SU const&> ? ":only-etl-rejects " : ":only-std-rejects ");
            }
        }
    }
}
void run_opt_cells(Cells& c)
{
    opt_cell<bool, int>(c, "bool", "int");
    opt_cell<int, bool>(c, "int", "bool");
    opt_cell<bool, bool>(c, "bool", "bool");
    opt_cell<long, int>(c, "long", "int");
    opt_cell<int, long>(c, "int", "long");
    opt_cell<int, short>(c, "int", "short");
    opt_cell<double, int>(c, "double", "int");
    opt_cell<int, double>(c, "int", "double");
    opt_cell<TCM, int>(c, "tracked-cm", "int");
    opt_cell<TCM, bool>(c, "tracked-cm", "bool");
    opt_cell<char, int>(c, "char", "int");
    vf::registry().reset();
}

vf::Spec spec(vf::Tier)
{
    vf::Spec s;
    s.n_enum     = 1;
    s.n_random   = 0;
    s.batch      = 1;
    s.exhaustive = true;
    return s;
}
void run_case(vf::Case&) { run_all(); }
} // namespace

#if VF_PART == 0
VF_MAIN("C07", "C07_select", spec, run_case)
#elif VF_PART == 1
VF_MAIN("C07", "C07_select_zoo1", spec, run_case)
#elif VF_PART == 2
VF_MAIN("C07", "C07_select_zoo2", spec, run_case)
#else
VF_MAIN("C07", "C07_select_zoo3", spec, run_case)
#endif
