// C07 - etl::optional<T> tracks the same state and value as std::optional<T> (DESIGN 4, C07)
// One payload type per binary (-DVF_CFG: 0 int, 1 tracked copy+move, 2 tracked move-only).
// Twin worlds (vf_c07.hpp): the same operation text drives std::optional and etl::optional; traces are compared.
#include "vf.hpp"
#include "vf_contract.hpp"
#include "vf_tracked.hpp"

#include "vf_c07.hpp"

#ifndef VF_CFG
    #error "VF_CFG required"
#endif

namespace {
using namespace c07;

template <typename T>
struct Traits;
template <>
struct Traits<int> {
    using conv = long; // the "U" of converting construction / assignment / mixed comparison
    static constexpr char const* name = "optional<int>";
};
template <>
struct Traits<TCM> {
    using conv = int;
    static constexpr char const* name = "optional<tracked-cm>";
};
template <>
struct Traits<TMO> {
    using conv = int;
    static constexpr char const* name = "optional<tracked-mo>";
};

enum Op : unsigned {
    oEmplace,
    oEmplaceDefault,
    oReset,
    oAssignNullopt,
    oAssignBraces,
    oAssignTconst,
    oAssignTrv,
    oAssignUlv,
    oAssignUrv,
    oAssignOptConst,
    oAssignOptRv,
    oAssignOptUConst,
    oAssignOptURv,
    oSelfCopyAssign,
    oSwapMember,
    oSwapAdl,
    oSwapSelf,
    oCopyCtor,
    oMoveCtor,
    oCtorOptUConst,
    oCtorOptURv,
    oWideFromThis,
    oValueOrConst,
    oValueOrRv,
    oAndThen,
    oOrElseConst,
    oOrElseRv,
    oTransform,
    oValue,
    oDeref,
    oRelOpt,
    oRelOptU,
    oRelNullopt,
    oRelValue,
    oRelValueU,
    oMakeOptional,
    kOpCount
};
constexpr OpInfo info(Op op)
{
    switch (op) {
    case oEmplace: return {"emplace(args)", aV | aM};
    case oEmplaceDefault: return {"emplace()", aM};
    case oReset: return {"reset()", aM};
    case oAssignNullopt: return {"operator=(nullopt)", aM};
    case oAssignBraces: return {"operator=({})", aM};
    case oAssignTconst: return {"operator=(T const&)", aV | aM};
    case oAssignTrv: return {"operator=(T&&)", aV | aM};
    case oAssignUlv: return {"operator=(U&) converting", aV | aM};
    case oAssignUrv: return {"operator=(U&&) converting", aV | aM};
    case oAssignOptConst: return {"operator=(optional const&)", aY | aM};
    case oAssignOptRv: return {"operator=(optional&&)", aY | aM};
    case oAssignOptUConst: return {"operator=(optional<U> const&)", aY | aM};
    case oAssignOptURv: return {"operator=(optional<U>&&)", aY | aM};
    case oSelfCopyAssign: return {"operator=(self const&)", aM};
    case oSwapMember: return {"swap(other)", aY | aM};
    case oSwapAdl: return {"swap(a,b)", aY | aM};
    case oSwapSelf: return {"swap(self)", aM};
    case oCopyCtor: return {"ctor(optional const&)", 0};
    case oMoveCtor: return {"ctor(optional&&)", aM};
    case oCtorOptUConst: return {"ctor(optional<U> const&)", aY};
    case oCtorOptURv: return {"ctor(optional<U>&&)", aY};
    case oWideFromThis: return {"optional<long>(optional<int>) ctor+assign", aM};
    case oValueOrConst: return {"value_or(d) const&", aV};
    case oValueOrRv: return {"value_or(d) &&", aV | aM};
    case oAndThen: return {"and_then(f)", aQ4 | aF};
    case oOrElseConst: return {"or_else(f) const&", aY};
    case oOrElseRv: return {"or_else(f) &&", aY | aM};
    case oTransform: return {"transform(f)", aQ4};
    case oValue: return {"value()", aQ4};
    case oDeref: return {"operator* / operator->", 0};
    case oRelOpt: return {"relational(optional,optional)", aY};
    case oRelOptU: return {"relational(optional<T>,optional<U>)", aY};
    case oRelNullopt: return {"relational(optional,nullopt)", 0};
    case oRelValue: return {"relational(optional,T value)", aV};
    case oRelValueU: return {"relational(optional,U value)", aV};
    case oMakeOptional: return {"make_optional", aV};
    default: return {"?", 0};
    }
}

// members of std::optional that etl::optional may lack: exercised only when both sides are well-formed
template <typename T>
inline constexpr bool kHasValue = requires(etl::optional<T>& o) { o.value(); };
template <typename T>
inline constexpr bool kHasTransform = requires(etl::optional<T>& o) { o.transform([](auto&& x) { return 1L; }); };
template <typename T>
inline constexpr bool kHasBraces = requires(etl::optional<T>& o, std::optional<T>& p) {
    o = {};
    p = {};
};

template <typename T>
constexpr bool applicable(Op op)
{
    constexpr bool copy = std::is_copy_constructible_v<T>;
    switch (op) {
    case oAssignTconst:
    case oAssignOptConst:
    case oSelfCopyAssign:
    case oCopyCtor:
    case oValueOrConst:
    case oOrElseConst: return copy;
    case oWideFromThis: return std::is_same_v<T, int>;
    case oValue: return kHasValue<T>;
    case oTransform: return kHasTransform<T>;
    case oAssignBraces: return kHasBraces<T>;
    case kOpCount: return false;
    default: return true;
    }
}

struct CallLog {
    int calls = 0;
    long long arg = -1;
    int cat = -1;
};
template <typename NS>
struct AndThenF {
    CallLog* log;
    bool engaged;
    template <typename A>
    auto operator()(A&& a) const -> typename NS::template optional<long>
    {
        using R = typename NS::template optional<long>;
        log->calls++;
        log->arg = enc(a);
        log->cat = category<A&&>();
        return engaged ? R((long)enc(a) + 10) : R();
    }
};
struct TransformF {
    CallLog* log;
    template <typename A>
    long operator()(A&& a) const
    {
        log->calls++;
        log->arg = enc(a);
        log->cat = category<A&&>();
        return (long)enc(a) + 20;
    }
};

template <typename NS, typename T>
struct OptWorld {
    using O  = typename NS::template optional<T>;
    using U  = typename Traits<T>::conv;
    using OU = typename NS::template optional<U>;
    using OL = typename NS::template optional<long>;
    O* x = nullptr;
    OptWorld() = default;
    OptWorld(OptWorld const&)            = delete;
    OptWorld& operator=(OptWorld const&) = delete;
    ~OptWorld() { delete x; }

    // y: 0 empty, k+1 engaged with value code k
    static O mk(int y) { return y > 0 ? O(NS::in_place, y - 1) : O(); }
    static OU mku(int y) { return y > 0 ? OU(NS::in_place, (U)(y - 1)) : OU(); }

    template <typename X>
    static void obs_opt(Obs& r, char const* has, char const* value, X const& o)
    {
        r.b(has, o.has_value());
        r.i(value, o.has_value() ? enc(*o) : kAbsent);
    }

    void construct(int form, int v)
    {
        switch (form) {
        case 0: x = new O(); break;
        case 1: x = new O(NS::nullopt); break;
        case 2: x = new O(NS::in_place, v); break;
        case 3: {
            T t(v);
            x = new O(static_cast<T&&>(t));
            break;
        }
        case 4: {
            if constexpr (std::is_copy_constructible_v<T>) {
                T const t(v);
                x = new O(t);
            } else {
                x = new O(T(v));
            }
            break;
        }
        case 5: x = new O((U)v); break;
        default: {
            U const u = (U)v;
            x         = new O(u);
            break;
        }
        }
    }
    void rebuild(bool engaged, long long value)
    {
        delete x;
        x = engaged ? new O(NS::in_place, (int)value) : new O();
    }

    void observe(Obs& r) const
    {
        O const& o = *x;
        r.b("has_value", o.has_value());
        r.b("operator bool", static_cast<bool>(o));
        r.i("value", o.has_value() ? enc(*o) : kAbsent);
        r.b("operator->==&*", o.has_value() ? o.operator->() == &*o : true);
    }

    void apply(Op op, Args const& a, Obs& r)
    {
        O& o = *x;
        switch (op) {
        case oEmplace: {
            T& ref = o.emplace(a.v);
            r.b("emplace-returns-contained", o.has_value() && &ref == &*o);
            break;
        }
        case oEmplaceDefault: {
            T& ref = o.emplace();
            r.b("emplace-returns-contained", o.has_value() && &ref == &*o);
            break;
        }
        case oReset: o.reset(); break;
        case oAssignNullopt: {
            O& ret = (o = NS::nullopt);
            r.b("returns-self", &ret == &o);
            break;
        }
        case oAssignBraces:
            if constexpr (kHasBraces<T>) { o = {}; }
            break;
        case oAssignTconst:
            if constexpr (std::is_copy_constructible_v<T>) {
                T const t(a.v);
                O& ret = (o = t);
                r.b("returns-self", &ret == &o);
                r.i("src.value", enc(t));
            }
            break;
        case oAssignTrv: {
            T t(a.v);
            o = static_cast<T&&>(t);
            r.i("src.value-after-move", enc(t));
            break;
        }
        case oAssignUlv: {
            U u = (U)a.v;
            o   = u;
            break;
        }
        case oAssignUrv: o = (U)a.v; break;
        case oAssignOptConst:
            if constexpr (std::is_copy_constructible_v<T>) {
                O const other = mk(a.y);
                O& ret        = (o = other);
                r.b("returns-self", &ret == &o);
                obs_opt(r, "src.has_value", "src.value", other);
            }
            break;
        case oAssignOptRv: {
            O other = mk(a.y);
            O& ret  = (o = static_cast<O&&>(other));
            r.b("returns-self", &ret == &o);
            obs_opt(r, "src.has_value-after-move", "src.value-after-move", other);
            break;
        }
        case oAssignOptUConst: {
            OU const other = mku(a.y);
            o              = other;
            obs_opt(r, "src.has_value", "src.value", other);
            break;
        }
        case oAssignOptURv: {
            OU other = mku(a.y);
            o        = static_cast<OU&&>(other);
            r.b("src.has_value-after-move", other.has_value());
            break;
        }
        case oSelfCopyAssign:
            if constexpr (std::is_copy_constructible_v<T>) {
                O const& self = o;
                o             = self;
            }
            break;
        case oSwapMember: {
            O other = mk(a.y);
            o.swap(other);
            obs_opt(r, "other.has_value", "other.value", other);
            break;
        }
        case oSwapAdl: {
            O other = mk(a.y);
            NS::adl_swap(o, other);
            obs_opt(r, "other.has_value", "other.value", other);
            break;
        }
        case oSwapSelf: o.swap(o); break;
        case oCopyCtor:
            if constexpr (std::is_copy_constructible_v<T>) {
                O c(o);
                obs_opt(r, "copy.has_value", "copy.value", c);
            }
            break;
        case oMoveCtor: {
            O c(static_cast<O&&>(o));
            obs_opt(r, "moved-to.has_value", "moved-to.value", c);
            break;
        }
        case oCtorOptUConst: {
            OU const other = mku(a.y);
            O c(other);
            obs_opt(r, "converted.has_value", "converted.value", c);
            break;
        }
        case oCtorOptURv: {
            OU other = mku(a.y);
            O c(static_cast<OU&&>(other));
            obs_opt(r, "converted.has_value", "converted.value", c);
            r.b("src.has_value-after-move", other.has_value());
            break;
        }
        case oWideFromThis:
            if constexpr (std::is_same_v<T, int>) {
                OL c(o);
                obs_opt(r, "widened.has_value", "widened.value", c);
                OL d(NS::in_place, 77L);
                d = o;
                obs_opt(r, "widened-assign.has_value", "widened-assign.value", d);
                OL e2;
                e2 = static_cast<O&&>(o);
                obs_opt(r, "widened-move-assign.has_value", "widened-move-assign.value", e2);
            }
            break;
        case oValueOrConst:
            if constexpr (std::is_copy_constructible_v<T>) {
                O const& co = o;
                T ret       = co.value_or(a.v + 5);
                r.i("value_or", enc(ret));
            }
            break;
        case oValueOrRv: {
            T ret = static_cast<O&&>(o).value_or(a.v + 5);
            r.i("value_or", enc(ret));
            break;
        }
        case oAndThen: {
            CallLog L;
            AndThenF<NS> f{&L, a.f != 0};
            O const& co = o;
            OL ret      = a.q == 0   ? o.and_then(f)
                        : a.q == 1 ? co.and_then(f)
                        : a.q == 2 ? static_cast<O&&>(o).and_then(f)
                                   : static_cast<O const&&>(co).and_then(f);
            r.i("f.calls", L.calls);
            r.i("f.arg", L.arg);
            r.i("f.arg-category", L.cat);
            obs_opt(r, "ret.has_value", "ret.value", ret);
            break;
        }
        case oOrElseConst:
            if constexpr (std::is_copy_constructible_v<T>) {
                int calls   = 0;
                auto f      = [&]() -> O { ++calls; return mk(a.y); };
                O const& co = o;
                O ret       = co.or_else(f);
                r.i("f.calls", calls);
                obs_opt(r, "ret.has_value", "ret.value", ret);
            }
            break;
        case oOrElseRv: {
            int calls = 0;
            auto f    = [&]() -> O { ++calls; return mk(a.y); };
            O ret     = static_cast<O&&>(o).or_else(f);
            r.i("f.calls", calls);
            obs_opt(r, "ret.has_value", "ret.value", ret);
            break;
        }
        case oTransform:
            if constexpr (kHasTransform<T>) {
                CallLog L;
                TransformF f{&L};
                O const& co = o;
                OL ret      = a.q == 0   ? o.transform(f)
                            : a.q == 1 ? co.transform(f)
                            : a.q == 2 ? static_cast<O&&>(o).transform(f)
                                       : static_cast<O const&&>(co).transform(f);
                r.i("f.calls", L.calls);
                r.i("f.arg", L.arg);
                r.i("f.arg-category", L.cat);
                obs_opt(r, "ret.has_value", "ret.value", ret);
            }
            break;
        case oValue:
            if constexpr (kHasValue<T>) {
                bool threw = false;
                long long got = -1;
                try {
                    O const& co = o;
                    got         = a.q == 0 ? enc(o.value()) : a.q == 1 ? enc(co.value()) : a.q == 2 ? enc(static_cast<O&&>(o).value()) : enc(static_cast<O const&&>(co).value());
                } catch (...) {
                    threw = true;
                }
                r.b("value()-throws", threw);
                r.i("value()", got);
            }
            break;
        case oDeref: {
            bool const h = o.has_value();
            O const& co  = o;
            r.i("*lvalue", h ? enc(*o) : kAbsent);
            r.i("*const-lvalue", h ? enc(*co) : kAbsent);
            if (h) {
                T&& rr        = *static_cast<O&&>(o);
                T const&& crr = *static_cast<O const&&>(co);
                r.b("*rvalue-is-contained", &rr == &*o);
                r.b("*const-rvalue-is-contained", &crr == &*o);
                r.b("operator->const==&*", co.operator->() == &*co);
            } else {
                r.b("*rvalue-is-contained", true);
                r.b("*const-rvalue-is-contained", true);
                r.b("operator->const==&*", true);
            }
            break;
        }
        case oRelOpt: {
            O const other = mk(a.y);
            rel6(r, static_cast<O const&>(o), other);
            break;
        }
        case oRelOptU: {
            OU const other = mku(a.y);
            rel6(r, static_cast<O const&>(o), other);
            break;
        }
        case oRelNullopt: {
            O const& co = o;
            r.b("a==nullopt", co == NS::nullopt);
            r.b("nullopt==a", NS::nullopt == co);
            r.b("a!=nullopt", co != NS::nullopt);
            r.b("nullopt!=a", NS::nullopt != co);
            r.b("a<nullopt", co < NS::nullopt);
            r.b("nullopt<a", NS::nullopt < co);
            break;
        }
        case oRelValue: {
            T const t(a.v);
            rel6(r, static_cast<O const&>(o), t);
            break;
        }
        case oRelValueU: {
            U const u = (U)a.v;
            rel6(r, static_cast<O const&>(o), u);
            break;
        }
        case oMakeOptional: {
            auto m = NS::make_optional(T(a.v));
            static_assert(std::is_same_v<decltype(m), O>);
            obs_opt(r, "make_optional(v).has_value", "make_optional(v).value", m);
            auto m2 = NS::template make_optional_t<T>(a.v);
            static_assert(std::is_same_v<decltype(m2), O>);
            obs_opt(r, "make_optional<T>(args).has_value", "make_optional<T>(args).value", m2);
            break;
        }
        default: break;
        }
    }
};

template <typename T>
struct OptSubject {
    struct Table {
        Op ops[kOpCount]{};
        unsigned n = 0;
    };
    static constexpr Table make_table()
    {
        Table t;
        for (unsigned k = 0; k < kOpCount; ++k) {
            if (applicable<T>((Op)k)) { t.ops[t.n++] = (Op)k; }
        }
        return t;
    }
    static constexpr Table table   = make_table();
    static constexpr unsigned kOps = table.n;
    static bool is_mutator(unsigned w) { return (info(table.ops[w]).args & aM) != 0; }
    static constexpr Mutators<Table, OpInfo (*)(Op)> muts{table, &info};
    static unsigned n_mutators() { return muts.n; }
    static unsigned mutator_at(unsigned k) { return muts.idx[k]; }

    OptWorld<Std, T> s;
    OptWorld<Etl, T> e;
    std::uint64_t nh = vf::fnv(Traits<T>::name);

    char const* name() const { return Traits<T>::name; }
    static char const* not_provided()
    {
        static std::string s = [] {
            std::string r;
            if (!kHasValue<T>) { r += "value() "; }
            if (!kHasTransform<T>) { r += "transform() "; }
            if (!kHasBraces<T>) { r += "operator=({}) "; }
            r += "[hard errors, see probe units: optional <=,>,>= nullopt]";
            return r;
        }();
        return s.c_str();
    }
    static char const* label(Op op)
    {
        static std::string labs[kOpCount];
        if (labs[op].empty()) { labs[op] = std::string(Traits<T>::name) + " " + info(op).name; }
        return labs[op].c_str();
    }
    long long state() const { return s.x->has_value() ? enc(**s.x) : -1; }

    void init(vf::Chooser& ch, unsigned nv)
    {
        int form = (int)ch.pick(7);
        int v    = form >= 2 ? (int)ch.pick(nv) : 0;
        static constexpr char const* fn[7] = {"ctor()", "ctor(nullopt)", "ctor(in_place,args)", "ctor(T&&)", "ctor(T const&)", "ctor(U&&) converting", "ctor(U const&) converting"};
        vf::crumb(name(), fn[form], form >= 2 ? "->engaged" : "->empty", "v=%d", v);
        s.construct(form, v);
        e.construct(form, v);
        Obs so, eo;
        s.observe(so);
        e.observe(eo);
        static std::string labs[7];
        if (labs[form].empty()) { labs[form] = std::string(Traits<T>::name) + " " + fn[form]; }
        vf::cover(labs[form].c_str(), vf::mix(nh, vf::mix(form, v)), true);
        if (!compare(eo, so)) { e.rebuild(s.x->has_value(), state()); }
    }

    void step(unsigned w, vf::Chooser& ch, unsigned nv)
    {
        Op op      = table.ops[w];
        OpInfo inf = info(op);
        Args a;
        if (inf.args & aV) { a.v = (int)ch.pick(nv); }
        if (inf.args & aY) { a.y = (int)ch.pick(nv + 1); }
        if (inf.args & aQ4) { a.q = (int)ch.pick(4); }
        if (inf.args & aF) { a.f = (int)ch.pick(2); }
        long long st = state();
        char sit[96];
        int n = std::snprintf(sit, sizeof sit, "%s", st == -1 ? "empty" : "engaged");
        if (inf.args & aY) { n += std::snprintf(sit + n, sizeof sit - n, ",other-%s", a.y == 0 ? "empty" : "engaged"); }
        if (inf.args & aQ4) {
            static constexpr char const* qn[4] = {"&", "const&", "&&", "const&&"};
            n += std::snprintf(sit + n, sizeof sit - n, ",%s", qn[a.q]);
        }
        if (inf.args & aF) { n += std::snprintf(sit + n, sizeof sit - n, ",f->%s", a.f ? "engaged" : "empty"); }
        vf::crumb(name(), inf.name, sit, "state=%lld v=%d y=%d q=%d f=%d", st, a.v, a.y, a.q, a.f);
        Obs so, eo;
        s.apply(op, a, so);
        e.apply(op, a, eo);
        s.observe(so);
        e.observe(eo);
        std::uint64_t h = vf::mix(vf::mix(nh, (std::uint64_t)(st + 1000)), vf::mix(op, vf::mix(vf::mix(a.v, a.y), vf::mix(a.q, a.f))));
        vf::cover(label(op), h, true);
        if (!compare(eo, so)) { e.rebuild(s.x->has_value(), state()); }
    }
};

#if VF_CFG == 0
using Subject = OptSubject<int>;
    #define VF_UNIT "C07_optional_int"
#elif VF_CFG == 1
using Subject = OptSubject<TCM>;
    #define VF_UNIT "C07_optional_tcm"
#else
using Subject = OptSubject<TMO>;
    #define VF_UNIT "C07_optional_tmo"
#endif

// compile-time facts compared with std (deduction guide, value_type)
static_assert(std::is_same_v<decltype(etl::optional(5)), etl::optional<int>>);
static_assert(std::is_same_v<etl::optional<int>::value_type, std::optional<int>::value_type>);

vf::Spec spec(vf::Tier t)
{
    vf::Spec s;
    s.n_enum     = Subject::kOps; // one case per first operation; the case enumerates every continuation
    s.n_random   = t == vf::Tier::thorough ? 20000 : 1500;
    s.batch      = 1;
    s.timeout_s  = t == vf::Tier::thorough ? 3000 : 600;
    s.exhaustive = true;
    return s;
}
void run_case(vf::Case& c)
{
    if (c.enumerated) {
        bool th = c.tier == vf::Tier::thorough;
        enumerate_first_op<Subject>((unsigned)c.index, 3, 3);
        if (th) { enumerate_first_op<Subject>((unsigned)c.index, 4, 1); } // deeper, single payload value
    } else {
        random_history<Subject>(c.rng, 50, 3);
    }
}
} // namespace

VF_MAIN("C07", VF_UNIT, spec, run_case)
