// C01 - static_vector / inplace_vector / stack vs std::vector within capacity (DESIGN 4, C01)
// Build: -DVF_ELEM=0|1|2|3|4|5 (int, pod, Tracked copy+move, Tracked move-only, type with an initializer_list constructor, self-referential type)  -DVF_CAPS=0,1,2,3
#include "vf.hpp"
#include "vf_contract.hpp"
#include "vf_tracked.hpp"

#include <etl/inplace_vector.hpp>
#include <etl/stack.hpp>
#include <etl/vector.hpp>

#include <algorithm>
#include <initializer_list>
#include <new>
#include <string>
#include <type_traits>
#include <vector>

#ifndef VF_ELEM
    #define VF_ELEM 0
#endif
#ifndef VF_CAPS
    #define VF_CAPS 0, 1, 2, 3
#endif

namespace {
struct Pod {
    int v;
    int pad;
    friend bool operator==(Pod const& a, Pod const& b) { return a.v == b.v; }
    friend bool operator!=(Pod const& a, Pod const& b) { return a.v != b.v; }
    friend bool operator<(Pod const& a, Pod const& b) { return a.v < b.v; }
};
inline int val(Pod const& p) { return p.v; }
// an element type that tells "()" construction from "{}" construction: T(a, b) and T{a, b} select different constructors
struct IL {
    int v;
    IL() : v(0) { }
    IL(int x) : v(x) { } // NOLINT
    IL(int x, int y) : v(x + y) { }
    IL(std::initializer_list<int> l) : v(-100 - (int)l.size()) { }
    friend bool operator==(IL const& a, IL const& b) { return a.v == b.v; }
    friend bool operator!=(IL const& a, IL const& b) { return a.v != b.v; }
    friend bool operator<(IL const& a, IL const& b) { return a.v < b.v; }
    friend bool operator<=(IL const& a, IL const& b) { return a.v <= b.v; }
    friend bool operator>(IL const& a, IL const& b) { return a.v > b.v; }
    friend bool operator>=(IL const& a, IL const& b) { return a.v >= b.v; }
};
inline int val(IL const& p) { return p.v; }
// an element that knows its own address: trivially destructible, but every constructor re-seats `self`.  A container that copies or relocates
// it bytewise (because "the destructor is trivial") leaves `self` pointing at the source, which val() reports as -4242.
struct SR {
    int v;
    SR const* self;
    SR() : v(0), self(this) { }
    SR(int x) : v(x), self(this) { } // NOLINT
    SR(SR const& o) : v(o.v), self(this) { }
    auto operator=(SR const& o) -> SR&
    {
        v = o.v;
        return *this;
    }
    friend bool operator==(SR const& a, SR const& b) { return a.v == b.v; }
    friend bool operator!=(SR const& a, SR const& b) { return a.v != b.v; }
    friend bool operator<(SR const& a, SR const& b) { return a.v < b.v; }
    friend bool operator<=(SR const& a, SR const& b) { return a.v <= b.v; }
    friend bool operator>(SR const& a, SR const& b) { return a.v > b.v; }
    friend bool operator>=(SR const& a, SR const& b) { return a.v >= b.v; }
};
static_assert(std::is_trivially_destructible_v<SR> && !std::is_trivially_copy_constructible_v<SR> && !std::is_trivially_default_constructible_v<SR>);
inline int val(SR const& p) { return p.self == &p ? p.v : -4242; }
using vf::val;

#if VF_ELEM == 0
using T = int;
constexpr char const* TNAME = "int";
inline T mkT(int v) { return v; }
#elif VF_ELEM == 1
using T = Pod;
constexpr char const* TNAME = "pod";
inline T mkT(int v) { return Pod{v, 42}; }
#elif VF_ELEM == 2
using T = vf::TCM;
constexpr char const* TNAME = "tracked-copy-move";
inline T mkT(int v) { return T(v); }
#elif VF_ELEM == 3
using T = vf::TMO;
constexpr char const* TNAME = "tracked-move-only";
inline T mkT(int v) { return T(v); }
#elif VF_ELEM == 4
using T = IL;
constexpr char const* TNAME = "ilist-ctor";
inline T mkT(int v) { return T(v); }
#else
using T = SR;
constexpr char const* TNAME = "self-referential";
inline T mkT(int v) { return T(v); }
#endif
// constructor ARGUMENTS (not a T) that build the element with value v: what emplace-style members must forward with "()" initialisation
#if VF_ELEM == 4
    #define EARGS(v) (v) - 1, 1
#elif VF_ELEM == 1
    #define EARGS(v) Pod{(v), 42}
#else
    #define EARGS(v) (v)
#endif
constexpr bool kCopy    = std::is_copy_constructible_v<T>;
constexpr bool kTracked = VF_ELEM == 2 || VF_ELEM == 3;
using M                 = std::vector<int>;
constexpr std::size_t kCaps[] = {VF_CAPS};
constexpr std::size_t kNCaps  = sizeof(kCaps) / sizeof(kCaps[0]);

std::string show(M const& m)
{
    std::string s = "[";
    for (std::size_t i = 0; i < m.size(); ++i) {
        if (i) { s += ","; }
        s += std::to_string(m[i]);
        if (s.size() > 200) {
            s += ",...";
            break;
        }
    }
    return s + "]";
}

// exact-size caller array of T built from ints (placement-constructed so Tracked works)
struct Arr {
    vf::Buf<T> b;
    std::size_t n;
    explicit Arr(M const& v) : b(v.size()), n(v.size())
    {
        for (std::size_t i = 0; i < n; ++i) { new (b.data() + i) T(mkT(v[i])); }
    }
    Arr(Arr const&) = delete;
    ~Arr()
    {
        for (std::size_t i = 0; i < n; ++i) { b.data()[i].~T(); }
    }
    T* begin() { return b.data(); }
    T* end() { return b.data() + n; }
    T const* begin() const { return b.data(); }
    T const* end() const { return b.data() + n; }
};

// a caller range whose element type is NOT T but converts to it exactly (range overloads must convert element-wise, never copy bytes)
template <typename Src>
struct HArr {
    vf::Buf<Src> b;
    std::size_t n;
    explicit HArr(M const& v) : b(v.size()), n(v.size())
    {
        for (std::size_t i = 0; i < n; ++i) { b.data()[i] = static_cast<Src>(v[i]); }
    }
    Src const* begin() const { return b.data(); }
    Src const* end() const { return b.data() + n; }
};
#if VF_ELEM == 0
constexpr unsigned kHetKinds = 3;
#elif VF_ELEM == 2 || VF_ELEM == 4 || VF_ELEM == 5
constexpr unsigned kHetKinds = 1;
#else
constexpr unsigned kHetKinds = 0;
#endif
// calls f(first, last) with a range of the k-th other element type (k in 1..kHetKinds)
template <typename F>
void with_het(unsigned k, M const& s, F&& f)
{
#if VF_ELEM == 0
    if (k == 1) {
        HArr<short> a(s);
        f(a.begin(), a.end());
        a.b.check("source range");
    } else if (k == 2) {
        HArr<long long> a(s);
        f(a.begin(), a.end());
        a.b.check("source range");
    } else {
        HArr<float> a(s);
        f(a.begin(), a.end());
        a.b.check("source range");
    }
#elif VF_ELEM == 2 || VF_ELEM == 4 || VF_ELEM == 5
    HArr<int> a(s);
    f(a.begin(), a.end());
    a.b.check("source range");
#else
    (void)k; (void)s; (void)f;
#endif
}

template <typename V>
M read_all(V const& v)
{
    M r;
    for (auto it = v.begin(); it != v.end(); ++it) { r.push_back(val(*it)); }
    return r;
}

// ======================================================================== static_vector
template <std::size_t N>
struct SV {
    using E = etl::static_vector<T, N>;
    vf::Chooser& ch;
    M m;
    vf::Buf<E> ebuf{1}; // the subject lives alone in an exact-size heap block: an overrun of the object itself is an ASan report
    E& e;
    char subj[80];
    char stcls[24];

    static void fill(E& x, M const& v)
    {
        x.clear();
        for (int k : v) { x.emplace_back(mkT(k)); }
    }
    SV(SV const&) = delete;
    ~SV() { e.~E(); }
    SV(vf::Chooser& c, M const& start) : ch(c), m(start), e(*::new (static_cast<void*>(ebuf.data())) E())
    {
        std::snprintf(subj, sizeof subj, "static_vector<%s,%zu>", TNAME, N);
        fill(e, start);
        restate();
    }
    void restate() { std::snprintf(stcls, sizeof stcls, "%s", m.empty() ? (N == 0 ? "empty-full" : "empty") : (m.size() == N ? "full" : "partial")); }
    char sitbuf[96];
    char const* sit(char const* a) { std::snprintf(sitbuf, sizeof sitbuf, "%s,%s", stcls, a); return sitbuf; }
    char const* sit(char const* a, char const* b) { std::snprintf(sitbuf, sizeof sitbuf, "%s,%s,%s", stcls, a, b); return sitbuf; }
    std::uint64_t sh() const { return vf::mix(vf::fnv_bytes(m.data(), m.size() * sizeof(int)), N * 977 + VF_ELEM); }
    int draw_val() { return (int)ch.pick(3); }
    M draw_seq(std::size_t maxlen)
    {
        M r;
        std::size_t len = ch.random() ? (std::size_t)ch.rng->below(maxlen + 1) : ch.pick((unsigned)std::min<std::size_t>(maxlen, 2) + 1);
        for (std::size_t i = 0; i < len; ++i) { r.push_back(ch.random() ? (int)ch.rng->below(4) : draw_val()); }
        return r;
    }
    std::size_t draw_pos(std::size_t lim) { return ch.pick((unsigned)lim + 1); }
    static char const* poscls(std::size_t p, std::size_t L) { return p == 0 ? (L == 0 ? "at-begin=end" : "at-begin") : (p == L ? "at-end" : "inner"); }

    void check_state()
    {
        bool ok = vf::eq_int("size", e.size(), m.size());
        ok &= vf::eq_int("capacity", e.capacity(), N);
        ok &= vf::eq_int("max_size", e.max_size(), N);
        if (ok) {
            M got = read_all(e);
            ok &= vf::eq_str("elements", show(got), show(m));
        }
        if (ok) {
            ok &= vf::eq_bool("empty", e.empty(), m.empty());
            ok &= vf::eq_bool("full", e.full(), m.size() == N);
            ok &= vf::eq_int("end-begin", e.end() - e.begin(), (long long)m.size());
            ok &= vf::eq_bool("data==begin", e.data() == e.begin(), true);
            if (!m.empty()) {
                ok &= vf::eq_int("front", val(e.front()), m.front());
                ok &= vf::eq_int("back", val(e.back()), m.back());
                ok &= vf::eq_int("operator[]", val(e[m.size() / 2]), m[m.size() / 2]);
                ok &= vf::eq_int("operator[last]", val(e[m.size() - 1]), m[m.size() - 1]);
                M r;
                for (auto it = e.rbegin(); it != e.rend(); ++it) { r.push_back(val(*it)); }
                ok &= vf::eq_str("reverse-iteration", show(r), show(M(m.rbegin(), m.rend())));
                E const& ce = e;
                ok &= vf::eq_int("const-front", val(ce.front()), m.front());
                ok &= vf::eq_int("cend-cbegin", ce.cend() - ce.cbegin(), (long long)m.size());
            }
        }
        if constexpr (kTracked) { vf::expect_live_in(&e, sizeof e, m.size()); }
        if (!ok) {
            if (m.size() > N) { m.resize(N); }
            fill(e, m);
        }
        restate();
    }
#define CR(OP, SIT, ...) vf::crumb(subj, OP, SIT, __VA_ARGS__)
#define CV(OP, H) vf::cover(OP, vf::mix(sh(), (H)), true)

    void op_push_pop()
    {
        unsigned w = ch.pick(kCopy ? 5 : 4);
        std::size_t room = N - m.size();
        switch (w) {
        case 0: { // push_back(T&&)
            if (!room) { return; }
            int v = draw_val();
            CR("push_back(T&&)", sit(room == 1 ? "fills" : "fits"), "m=%s v=%d", show(m).c_str(), v);
            e.push_back(mkT(v));
            m.push_back(v);
            CV("push_back(T&&)", v);
            break;
        }
        case 1: { // emplace_back
            if (!room) { return; }
            int v = draw_val();
            if (v == 0 && ch.flag()) { // no arguments at all: the new element is value-initialised whatever the slot held before
                CR("emplace_back()", sit(room == 1 ? "fills" : "fits"), "m=%s", show(m).c_str());
                e.emplace_back();
                m.emplace_back(0);
                CV("emplace_back()", 0);
                break;
            }
            CR("emplace_back(args)", sit(room == 1 ? "fills" : "fits"), "m=%s v=%d", show(m).c_str(), v);
            if constexpr (VF_ELEM == 1) {
                e.emplace_back(Pod{v, 1});
            } else if constexpr (VF_ELEM == 4) {
                if (ch.flag()) {
                    e.emplace_back(EARGS(v));
                } else {
                    e.emplace_back(v);
                }
            } else {
                e.emplace_back(v);
            }
            m.emplace_back(v);
            CV("emplace_back(args)", v);
            break;
        }
        case 2: { // pop_back
            if (m.empty()) { return; }
            CR("pop_back()", sit("-"), "m=%s", show(m).c_str());
            e.pop_back();
            m.pop_back();
            CV("pop_back()", 0);
            break;
        }
        case 3: { // clear
            CR("clear()", sit("-"), "m=%s", show(m).c_str());
            e.clear();
            m.clear();
            CV("clear()", 0);
            break;
        }
        default: { // push_back(T const&) incl. an element of the vector itself
            if constexpr (kCopy) {
                if (!room) { return; }
                bool alias = !m.empty() && ch.flag();
                if (alias) {
                    std::size_t i = draw_pos(m.size() - 1);
                    CR("push_back(T const&)", sit(room == 1 ? "fills" : "fits", "aliases-own-element"), "m=%s i=%zu", show(m).c_str(), i);
                    e.push_back(e[i]);
                    int v = m[i];
                    m.push_back(v);
                    CV("push_back(T const&)", 100 + i);
                } else {
                    int v = draw_val();
                    T x   = mkT(v);
                    CR("push_back(T const&)", sit(room == 1 ? "fills" : "fits", "external"), "m=%s v=%d", show(m).c_str(), v);
                    e.push_back(x);
                    m.push_back(v);
                    CV("push_back(T const&)", v);
                    vf::eq_int("source-unchanged", val(x), v);
                }
            }
            break;
        }
        }
        check_state();
    }

    void op_insert()
    {
        unsigned w       = ch.pick(kCopy ? 6 : 3);
        std::size_t room = N - m.size();
        std::size_t L    = m.size();
        std::size_t pos  = draw_pos(L);
        switch (w) {
        case 0: { // emplace(pos, args)
            if (!room) { return; }
            int v = draw_val();
            if (v == 0 && ch.flag()) {
                CR("emplace(pos)", sit(poscls(pos, L), room == 1 ? "fills" : "fits"), "m=%s pos=%zu", show(m).c_str(), pos);
                auto it0  = e.emplace(e.cbegin() + pos);
                auto off0 = it0 - e.begin();
                m.insert(m.begin() + (std::ptrdiff_t)pos, 0);
                CV("emplace(pos)", pos);
                vf::eq_int("ret-offset", off0, (long long)pos);
                break;
            }
            CR("emplace(pos,args)", sit(poscls(pos, L), room == 1 ? "fills" : "fits"), "m=%s pos=%zu v=%d", show(m).c_str(), pos, v);
            bool args = ch.flag(); // constructor arguments forwarded, or a T rvalue
            auto it   = args ? e.emplace(e.cbegin() + pos, EARGS(v)) : e.emplace(e.cbegin() + pos, mkT(v));
            auto off  = it - e.begin();
            m.insert(m.begin() + (std::ptrdiff_t)pos, v);
            CV("emplace(pos,args)", vf::mix(pos, v));
            vf::eq_int("ret-offset", off, (long long)pos);
            break;
        }
        case 1: { // insert(pos, T&&)
            if (!room) { return; }
            int v = draw_val();
            CR("insert(pos,T&&)", sit(poscls(pos, L), room == 1 ? "fills" : "fits"), "m=%s pos=%zu v=%d", show(m).c_str(), pos, v);
            auto it  = e.insert(e.cbegin() + pos, mkT(v));
            auto off = it - e.begin();
            m.insert(m.begin() + (std::ptrdiff_t)pos, v);
            CV("insert(pos,T&&)", vf::mix(pos, v));
            vf::eq_int("ret-offset", off, (long long)pos);
            break;
        }
        case 2: { // move_insert(pos, first, last)
            M s = draw_seq(room);
            if (s.size() > room) { return; }
            Arr a(s);
            CR("move_insert(pos,first,last)", sit(poscls(pos, L), s.empty() ? "empty-range" : (s.size() == room ? "fills" : "fits")), "m=%s pos=%zu s=%s",
                show(m).c_str(), pos, show(s).c_str());
            auto it  = e.move_insert(e.cbegin() + pos, a.begin(), a.end());
            auto off = it - e.begin();
            m.insert(m.begin() + (std::ptrdiff_t)pos, s.begin(), s.end());
            CV("move_insert(pos,first,last)", vf::mix(pos, vf::fnv_bytes(s.data(), s.size() * sizeof(int))));
            vf::eq_int("ret-offset", off, (long long)pos);
            a.b.check("source range");
            break;
        }
        case 3: { // insert(pos, T const&) incl. alias
            if constexpr (kCopy) {
                if (!room) { return; }
                bool alias = L > 0 && ch.flag();
                if (alias) {
                    std::size_t i = draw_pos(L - 1);
                    int v         = m[i];
                    CR("insert(pos,T const&)", sit(poscls(pos, L), "aliases-own-element"), "m=%s pos=%zu i=%zu", show(m).c_str(), pos, i);
                    auto it  = e.insert(e.cbegin() + pos, e[i]);
                    auto off = it - e.begin();
                    m.insert(m.begin() + (std::ptrdiff_t)pos, v);
                    CV("insert(pos,T const&)", vf::mix(pos, 100 + i));
                    vf::eq_int("ret-offset", off, (long long)pos);
                } else {
                    int v = draw_val();
                    T x   = mkT(v);
                    CR("insert(pos,T const&)", sit(poscls(pos, L), room == 1 ? "fills" : "fits"), "m=%s pos=%zu v=%d", show(m).c_str(), pos, v);
                    auto it  = e.insert(e.cbegin() + pos, x);
                    auto off = it - e.begin();
                    m.insert(m.begin() + (std::ptrdiff_t)pos, v);
                    CV("insert(pos,T const&)", vf::mix(pos, v));
                    vf::eq_int("ret-offset", off, (long long)pos);
                }
            }
            break;
        }
        case 4: { // insert(pos, n, x) incl. n == 0 and alias
            if constexpr (kCopy) {
                std::size_t n = draw_pos(room);
                bool alias    = L > 0 && ch.flag();
                std::size_t i = alias ? draw_pos(L - 1) : 0;
                int v         = alias ? m[i] : draw_val();
                T x           = mkT(v);
                CR("insert(pos,n,x)", sit(poscls(pos, L), n == 0 ? "n=0" : (n == room ? "fills" : "fits")), "m=%s pos=%zu n=%zu v=%d alias=%d", show(m).c_str(),
                    pos, n, v, (int)alias);
                auto it  = alias ? e.insert(e.cbegin() + pos, n, e[i]) : e.insert(e.cbegin() + pos, n, x);
                auto off = it - e.begin();
                m.insert(m.begin() + (std::ptrdiff_t)pos, n, v);
                CV("insert(pos,n,x)", vf::mix(vf::mix(pos, n), vf::mix(v, alias)));
                vf::eq_int("ret-offset", off, (long long)pos);
            }
            break;
        }
        default: { // insert(pos, first, last)
            if constexpr (kCopy) {
                M s = draw_seq(room);
                if (s.size() > room) { return; }
                if (unsigned hk = kHetKinds ? ch.pick(kHetKinds + 1) : 0) {
                    CR("insert(pos,first,last):other-element-type", sit(poscls(pos, L), s.empty() ? "empty-range" : (s.size() == room ? "fills" : "fits")),
                        "m=%s pos=%zu s=%s source-kind=%u", show(m).c_str(), pos, show(s).c_str(), hk);
                    std::ptrdiff_t off = -1;
                    with_het(hk, s, [&](auto const* f, auto const* l) { off = e.insert(e.cbegin() + pos, f, l) - e.begin(); });
                    m.insert(m.begin() + (std::ptrdiff_t)pos, s.begin(), s.end());
                    CV("insert(pos,first,last):other-element-type", vf::mix(vf::mix(pos, hk), vf::fnv_bytes(s.data(), s.size() * sizeof(int))));
                    vf::eq_int("ret-offset", off, (long long)pos);
                    break;
                }
                Arr a(s);
                CR("insert(pos,first,last)", sit(poscls(pos, L), s.empty() ? "empty-range" : (s.size() == room ? "fills" : "fits")), "m=%s pos=%zu s=%s",
                    show(m).c_str(), pos, show(s).c_str());
                T const* f = a.begin();
                T const* l = a.end();
                auto it    = e.insert(e.cbegin() + pos, f, l);
                auto off   = it - e.begin();
                m.insert(m.begin() + (std::ptrdiff_t)pos, s.begin(), s.end());
                CV("insert(pos,first,last)", vf::mix(pos, vf::fnv_bytes(s.data(), s.size() * sizeof(int))));
                vf::eq_int("ret-offset", off, (long long)pos);
                vf::eq_str("source-unchanged", show(M(read_all(a))), show(s));
                a.b.check("source range");
            }
            break;
        }
        }
        check_state();
    }

    void op_erase()
    {
        unsigned w    = ch.pick(5);
        std::size_t L = m.size();
        switch (w) {
        case 0: { // erase(pos)
            if (L == 0) { return; }
            std::size_t p = draw_pos(L - 1);
            CR("erase(pos)", sit(p + 1 == L ? "last" : (p == 0 ? "first" : "inner")), "m=%s pos=%zu", show(m).c_str(), p);
            auto it  = e.erase(e.cbegin() + p);
            auto off = it - e.begin();
            m.erase(m.begin() + (std::ptrdiff_t)p);
            CV("erase(pos)", p);
            vf::eq_int("ret-offset", off, (long long)p);
            break;
        }
        case 1: { // erase(first,last)
            std::size_t f = draw_pos(L);
            std::size_t l = f + draw_pos(L - f);
            CR("erase(first,last)", sit(f == l ? "empty-range" : (l - f == L ? "erases-all" : "some"), l == L ? "to-end" : "inner"), "m=%s first=%zu last=%zu",
                show(m).c_str(), f, l);
            auto it  = e.erase(e.cbegin() + f, e.cbegin() + l);
            auto off = it - e.begin();
            m.erase(m.begin() + (std::ptrdiff_t)f, m.begin() + (std::ptrdiff_t)l);
            CV("erase(first,last)", vf::mix(f, l));
            vf::eq_int("ret-offset", off, (long long)f);
            break;
        }
        case 2: { // free erase(c, value)
            int v       = draw_val();
            auto expect = std::count(m.begin(), m.end(), v);
            CR("erase(c,value)", sit(expect == 0 ? "absent" : ((std::size_t)expect == L ? "all-match" : "some-match")), "m=%s v=%d", show(m).c_str(), v);
            if constexpr (VF_ELEM == 0) {
                // the value may have another type than the elements: the comparison is element == value, nothing is converted first
                unsigned vk = ch.pick(4);
                if (vk) {
                    CR("erase(c,value):other-value-type", sit(vk == 3 ? "exactly-representable" : "not-representable-in-T"), "m=%s v=%d value-kind=%u", show(m).c_str(), v, vk);
                    long long re = 0, rs = 0;
                    if (vk == 1) {
                        re = (long long)etl::erase(e, v + 0.5);
                        rs = (long long)std::erase(m, v + 0.5);
                    } else if (vk == 2) {
                        re = (long long)etl::erase(e, (long long)v + (1LL << 32));
                        rs = (long long)std::erase(m, (long long)v + (1LL << 32));
                    } else {
                        re = (long long)etl::erase(e, (short)v);
                        rs = (long long)std::erase(m, (short)v);
                    }
                    CV("erase(c,value):other-value-type", vf::mix(v, vk));
                    vf::eq_int("ret", re, rs);
                    break;
                }
            }
            T x     = mkT(v);
            auto re = etl::erase(e, x);
            auto rs = std::erase(m, v);
            CV("erase(c,value)", v);
            vf::eq_int("ret", re, rs);
            break;
        }
        case 3: { // free erase_if with a STATEFUL predicate (removes at most k matches): the predicate must be applied exactly once per element
            int v = draw_val();
            int k = (int)ch.pick(3);
            int budget_e = k, budget_m = k;
            CR("erase_if(c,stateful-pred)", sit(k == 0 ? "budget=0" : "budget>0"), "m=%s pred=(==%d, at most %d)", show(m).c_str(), v, k);
            auto re = etl::erase_if(e, [&](T const& t) { return val(t) == v && budget_e-- > 0; });
            auto rs = std::erase_if(m, [&](int x) { return x == v && budget_m-- > 0; });
            CV("erase_if(c,stateful-pred)", vf::mix(v, k));
            vf::eq_int("ret", re, rs);
            break;
        }
        default: { // free erase_if
            int v       = draw_val();
            auto expect = std::count_if(m.begin(), m.end(), [v](int k) { return k >= v; });
            CR("erase_if(c,pred)", sit(expect == 0 ? "none-match" : ((std::size_t)expect == L ? "all-match" : "some-match")), "m=%s pred=(>=%d)", show(m).c_str(), v);
            auto re = etl::erase_if(e, [v](T const& t) { return val(t) >= v; });
            auto rs = std::erase_if(m, [v](int k) { return k >= v; });
            CV("erase_if(c,pred)", v);
            vf::eq_int("ret", re, rs);
            break;
        }
        }
        check_state();
    }

    void op_resize_assign()
    {
        unsigned w    = ch.pick(kCopy ? 4 : 1);
        std::size_t L = m.size();
        std::size_t n = draw_pos(N);
        char const* cls = n < L ? "shrink" : (n == L ? "same" : (n == N ? "grow-to-cap" : "grow"));
        switch (w) {
        case 0: {
            CR("resize(n)", sit(cls), "m=%s n=%zu", show(m).c_str(), n);
            e.resize(n);
            m.resize(n);
            CV("resize(n)", n);
            break;
        }
        case 1: {
            if constexpr (kCopy) {
                int v = draw_val();
                T x   = mkT(v);
                CR("resize(n,value)", sit(cls), "m=%s n=%zu v=%d", show(m).c_str(), n, v);
                e.resize(n, x);
                m.resize(n, v);
                CV("resize(n,value)", vf::mix(n, v));
            }
            break;
        }
        case 2: {
            if constexpr (kCopy) {
                int v = draw_val();
                T x   = mkT(v);
                CR("assign(n,value)", sit(n == N ? "n=cap" : (n == 0 ? "n=0" : "n<cap")), "m=%s n=%zu v=%d", show(m).c_str(), n, v);
                e.assign(n, x);
                m.assign(n, v);
                CV("assign(n,value)", vf::mix(n, v));
            }
            break;
        }
        default: {
            if constexpr (kCopy) {
                M s = draw_seq(N);
                if (s.size() > N) { return; }
                if (unsigned hk = kHetKinds ? ch.pick(kHetKinds + 1) : 0) {
                    CR("assign(first,last):other-element-type", sit(s.empty() ? "empty-range" : (s.size() == N ? "n=cap" : "n<cap")), "m=%s s=%s source-kind=%u",
                        show(m).c_str(), show(s).c_str(), hk);
                    with_het(hk, s, [&](auto const* f, auto const* l) { e.assign(f, l); });
                    m.assign(s.begin(), s.end());
                    CV("assign(first,last):other-element-type", vf::mix(hk, vf::fnv_bytes(s.data(), s.size() * sizeof(int))));
                    break;
                }
                Arr a(s);
                CR("assign(first,last)", sit(s.empty() ? "empty-range" : (s.size() == N ? "n=cap" : "n<cap")), "m=%s s=%s", show(m).c_str(), show(s).c_str());
                T const* f = a.begin();
                T const* l = a.end();
                e.assign(f, l);
                m.assign(s.begin(), s.end());
                CV("assign(first,last)", vf::fnv_bytes(s.data(), s.size() * sizeof(int)));
                a.b.check("source range");
            }
            break;
        }
        }
        check_state();
    }

    void op_swap_copy_move()
    {
        unsigned w = ch.pick(kCopy ? 8 : 5);
        M s        = draw_seq(N);
        if (s.size() > N) { s.resize(N); }
        std::uint64_t h = vf::fnv_bytes(s.data(), s.size() * sizeof(int));
        char const* ocls = s.empty() ? "other-empty" : (s.size() == N ? "other-full" : "other-partial");
        switch (w) {
        case 0: { // member / free swap
            bool free_ = ch.flag();
            E o;
            fill(o, s);
            CR(free_ ? "swap(a,b)" : "swap(other)", sit(ocls), "m=%s other=%s", show(m).c_str(), show(s).c_str());
            if (free_) {
                using etl::swap;
                swap(e, o);
            } else {
                e.swap(o);
            }
            CV(free_ ? "swap(a,b)" : "swap(other)", h);
            vf::eq_str("other-elements", show(read_all(o)), show(m));
            if constexpr (kTracked) { vf::expect_live_in(&o, sizeof o, m.size()); }
            m = s;
            break;
        }
        case 1: { // self swap keeps the value
            CR("swap(self)", sit("-"), "m=%s", show(m).c_str());
            e.swap(e);
            CV("swap(self)", 0);
            break;
        }
        case 2: { // move construction: new object has the elements; source stays valid (assignable, destructible)
            CR("ctor(static_vector&&)", sit("-"), "m=%s", show(m).c_str());
            E src;
            fill(src, m);
            E x(static_cast<E&&>(src));
            CV("ctor(static_vector&&)", 0);
            vf::eq_str("moved-to-elements", show(read_all(x)), show(m));
            fill(src, s); // the moved-from source must accept new contents
            vf::eq_str("reused-source-elements", show(read_all(src)), show(s));
            break;
        }
        case 3: { // move assignment
            E src;
            fill(src, s);
            CR("operator=(static_vector&&)", sit(ocls), "m=%s other=%s", show(m).c_str(), show(s).c_str());
            e = static_cast<E&&>(src);
            m = s;
            CV("operator=(static_vector&&)", h);
            M s2 = {2, 1};
            if (N >= 2) {
                fill(src, s2);
                vf::eq_str("reused-source-elements", show(read_all(src)), show(s2));
            }
            break;
        }
        case 4: { // relational operators against another vector
            E o;
            fill(o, s);
            CR("relational", sit(ocls, m == s ? "equal" : (m < s ? "less" : "greater")), "m=%s other=%s", show(m).c_str(), show(s).c_str());
            CV("relational", h);
            if constexpr (VF_ELEM != 1 || true) {
                vf::eq_bool("operator==", e == o, m == s);
                vf::eq_bool("operator!=", e != o, m != s);
                vf::eq_bool("operator<", e < o, m < s);
                vf::eq_bool("operator<=", e <= o, m <= s);
                vf::eq_bool("operator>", e > o, m > s);
                vf::eq_bool("operator>=", e >= o, m >= s);
            }
            break;
        }
        case 5: { // copy construction + independence
            if constexpr (kCopy) {
                CR("ctor(static_vector const&)", sit("-"), "m=%s", show(m).c_str());
                E x(e);
                CV("ctor(static_vector const&)", 0);
                vf::eq_str("copy-elements", show(read_all(x)), show(m));
                if (!m.empty()) {
                    e[0] = mkT(3);
                    vf::eq_str("copy-independent-of-source", show(read_all(x)), show(m));
                    m[0] = 3;
                }
            }
            break;
        }
        case 6: { // copy assignment + independence
            if constexpr (kCopy) {
                E src;
                fill(src, s);
                CR("operator=(static_vector const&)", sit(ocls), "m=%s other=%s", show(m).c_str(), show(s).c_str());
                e = src;
                m = s;
                CV("operator=(static_vector const&)", h);
                vf::eq_str("source-unchanged", show(read_all(src)), show(s));
                if (!s.empty()) {
                    src[0] = mkT(3);
                    vf::eq_str("copy-independent-of-source", show(read_all(e)), show(m));
                }
            }
            break;
        }
        default: { // constructors (n), (n,v), (first,last), c_array
            if constexpr (kCopy) {
                unsigned k = ch.pick(4);
                if (k == 3) { // from a built-in array rvalue: the caller's array stays alive (moved-from at most) and is destroyed by the caller
                    if constexpr (N >= 2) {
                        int a0 = draw_val(), a1 = draw_val();
                        CR("ctor(T(&&)[2])", "n<=cap", "arr=[%d,%d]", a0, a1);
                        {
                            T arr[2] = {mkT(a0), mkT(a1)};
                            E x(static_cast<T(&&)[2]>(arr));
                            vf::cover("ctor(T(&&)[2])", vf::mix(N, vf::mix(a0, a1)));
                            vf::eq_str("elements", show(read_all(x)), show(M{a0, a1}));
                            arr[0] = mkT(3); // the source elements must still be assignable ...
                            vf::eq_int("source-reusable", val(arr[0]), 3);
                        } // ... and are destroyed here, exactly once
                    }
                } else if (k == 0) {
                    std::size_t n = draw_pos(N);
                    CR("ctor(n)", n == N ? "n=cap" : "n<cap", "n=%zu", n);
                    E x(n);
                    vf::cover("ctor(n)", vf::mix(N, n));
                    vf::eq_str("elements", show(read_all(x)), show(M(n, 0)));
                } else if (k == 1) {
                    std::size_t n = draw_pos(N);
                    int v         = draw_val();
                    T tv          = mkT(v);
                    CR("ctor(n,value)", n == N ? "n=cap" : "n<cap", "n=%zu v=%d", n, v);
                    E x(n, tv);
                    vf::cover("ctor(n,value)", vf::mix(N, vf::mix(n, v)));
                    vf::eq_str("elements", show(read_all(x)), show(M(n, v)));
                } else if (unsigned hk = kHetKinds ? ch.pick(kHetKinds + 1) : 0) {
                    CR("ctor(first,last):other-element-type", s.size() == N ? "n=cap" : "n<cap", "s=%s source-kind=%u", show(s).c_str(), hk);
                    with_het(hk, s, [&](auto const* f, auto const* l) {
                        E x(f, l);
                        vf::cover("ctor(first,last):other-element-type", vf::mix(N, vf::mix(h, hk)));
                        vf::eq_str("elements", show(read_all(x)), show(s));
                    });
                } else {
                    Arr a(s);
                    CR("ctor(first,last)", s.size() == N ? "n=cap" : "n<cap", "s=%s", show(s).c_str());
                    T const* f = a.begin();
                    T const* l = a.end();
                    E x(f, l);
                    vf::cover("ctor(first,last)", vf::mix(N, h));
                    vf::eq_str("elements", show(read_all(x)), show(s));
                }
            }
            break;
        }
        }
        check_state();
    }

    static constexpr unsigned kFamilies = 5;
    void apply(unsigned f)
    {
        switch (f) {
        case 0: op_push_pop(); break;
        case 1: op_insert(); break;
        case 2: op_erase(); break;
        case 3: op_resize_assign(); break;
        default: op_swap_copy_move(); break;
        }
    }
};

// ======================================================================== inplace_vector
template <std::size_t N>
struct IV {
    using E = etl::inplace_vector<T, N>;
    vf::Chooser& ch;
    M m;
    char subj[80];

    IV(vf::Chooser& c) : ch(c) { std::snprintf(subj, sizeof subj, "inplace_vector<%s,%zu>", TNAME, N); }
    static void fill(E& x, M const& v)
    {
        x.clear();
        for (int k : v) {
            if (x.try_emplace_back(mkT(k)) == nullptr) { break; }
        }
    }
    char const* stc(M const& mm) { return mm.empty() ? (N == 0 ? "empty-full" : "empty") : (mm.size() == N ? "full" : "partial"); }
    bool check(E& e, M const& mm)
    {
        bool ok = vf::eq_int("size", e.size(), mm.size());
        ok &= vf::eq_int("capacity", e.capacity(), N);
        ok &= vf::eq_int("max_size", e.max_size(), N);
        if (ok) { ok &= vf::eq_str("elements", show(read_all(e)), show(mm)); }
        if (ok) {
            ok &= vf::eq_bool("empty", e.empty(), mm.empty());
            ok &= vf::eq_int("end-begin", e.end() - e.begin(), (long long)mm.size());
            if constexpr (N > 0) {
                if (!mm.empty()) {
                    ok &= vf::eq_int("front", val(e.front()), mm.front());
                    ok &= vf::eq_int("back", val(e.back()), mm.back());
                    ok &= vf::eq_int("operator[]", val(e[mm.size() / 2]), mm[mm.size() / 2]);
                }
            }
        }
        if constexpr (kTracked && N > 0) { vf::expect_live_in(&e, sizeof e, mm.size()); }
        return ok;
    }
    // one scripted history from `start`, arguments via the chooser
    void history(M const& start, unsigned steps)
    {
        E e{}; // value-initialised: default-initialisation is the subject of C02's dirty-storage monitor
        fill(e, start);
        m = start;
        std::uint64_t sh0 = vf::mix(N * 31 + VF_ELEM, 0xabc);
        for (unsigned s = 0; s < steps; ++s) {
            unsigned w       = ch.pick(kCopy ? 9 : 7);
            std::size_t room = N - m.size();
            std::uint64_t sh = vf::mix(sh0, vf::fnv_bytes(m.data(), m.size() * sizeof(int)));
            int v            = (int)ch.pick(3);
            char sit[64];
            switch (w) {
            case 0: { // try_emplace_back
                std::snprintf(sit, sizeof sit, "%s,%s", stc(m), room ? "has-room" : "full-must-fail");
                bool noargs = v == 0 && ch.flag(); // value-initialised element, whatever the reused slot held
                vf::crumb(subj, noargs ? "try_emplace_back()" : "try_emplace_back(args)", sit, "m=%s v=%d", show(m).c_str(), v);
                T* p = noargs ? e.try_emplace_back() : (ch.flag() ? e.try_emplace_back(EARGS(v)) : e.try_emplace_back(mkT(v)));
                vf::cover(noargs ? "try_emplace_back()" : "try_emplace_back(args)", vf::mix(sh, v));
                if (room) {
                    m.push_back(v);
                    if (p) { vf::eq_int("new-element", val(*p), v); }
                    vf::eq_bool("returns-non-null", p != nullptr, true);
                    if constexpr (N > 0) {
                        if (p) { vf::eq_bool("returns-address-of-back", p == &e.back(), true); }
                    }
                } else {
                    vf::eq_bool("returns-null-when-full", p == nullptr, true);
                }
                break;
            }
            case 1: { // try_push_back(T&&)
                std::snprintf(sit, sizeof sit, "%s,%s", stc(m), room ? "has-room" : "full-must-fail");
                vf::crumb(subj, "try_push_back(T&&)", sit, "m=%s v=%d", show(m).c_str(), v);
                T x  = mkT(v);
                T* p = e.try_push_back(static_cast<T&&>(x));
                vf::cover("try_push_back(T&&)", vf::mix(sh, v));
                if (room) {
                    m.push_back(v);
                    vf::eq_bool("returns-non-null", p != nullptr, true);
                } else {
                    vf::eq_bool("returns-null-when-full", p == nullptr, true);
                    vf::eq_int("argument-untouched-when-full", val(x), v);
                }
                break;
            }
            case 2: { // unchecked_emplace_back (pre: room)
                if constexpr (N > 0) {
                    if (!room) { continue; }
                    std::snprintf(sit, sizeof sit, "%s,%s", stc(m), room == 1 ? "fills" : "fits");
                    bool noargs = v == 0 && ch.flag();
                    vf::crumb(subj, noargs ? "unchecked_emplace_back()" : "unchecked_emplace_back(args)", sit, "m=%s v=%d", show(m).c_str(), v);
                    T& r = noargs ? e.unchecked_emplace_back() : (ch.flag() ? e.unchecked_emplace_back(EARGS(v)) : e.unchecked_emplace_back(mkT(v)));
                    m.push_back(v);
                    vf::cover(noargs ? "unchecked_emplace_back()" : "unchecked_emplace_back(args)", vf::mix(sh, v));
                    vf::eq_int("new-element", val(r), v);
                    vf::eq_bool("returns-back", &r == &e.back(), true);
                }
                break;
            }
            case 3: { // unchecked_push_back(T&&)
                if constexpr (N > 0) {
                    if (!room) { continue; }
                    std::snprintf(sit, sizeof sit, "%s,%s", stc(m), room == 1 ? "fills" : "fits");
                    vf::crumb(subj, "unchecked_push_back(T&&)", sit, "m=%s v=%d", show(m).c_str(), v);
                    T& r = e.unchecked_push_back(mkT(v));
                    m.push_back(v);
                    vf::cover("unchecked_push_back(T&&)", vf::mix(sh, v));
                    vf::eq_bool("returns-back", &r == &e.back(), true);
                }
                break;
            }
            case 4: { // pop_back
                if constexpr (N > 0) {
                    if (m.empty()) { continue; }
                    vf::crumb(subj, "pop_back()", stc(m), "m=%s", show(m).c_str());
                    e.pop_back();
                    m.pop_back();
                    vf::cover("pop_back()", sh);
                }
                break;
            }
            case 5: { // clear
                vf::crumb(subj, "clear()", stc(m), "m=%s", show(m).c_str());
                e.clear();
                m.clear();
                vf::cover("clear()", sh);
                break;
            }
            case 6: { // move construction: target has the elements, source stays valid
                if constexpr (N > 0) {
                    vf::crumb(subj, "ctor(inplace_vector&&)", stc(m), "m=%s", show(m).c_str());
                    {
                        E x(static_cast<E&&>(e));
                        vf::cover("ctor(inplace_vector&&)", sh);
                        check(x, m);
                    }
                    fill(e, m); // reuse the moved-from source
                }
                break;
            }
            case 7: { // try_push_back(T const&)
                if constexpr (kCopy) {
                    std::snprintf(sit, sizeof sit, "%s,%s", stc(m), room ? "has-room" : "full-must-fail");
                    vf::crumb(subj, "try_push_back(T const&)", sit, "m=%s v=%d", show(m).c_str(), v);
                    T x  = mkT(v);
                    T* p = e.try_push_back(x);
                    vf::cover("try_push_back(T const&)", vf::mix(sh, v));
                    if (room) {
                        m.push_back(v);
                        vf::eq_bool("returns-non-null", p != nullptr, true);
                    } else {
                        vf::eq_bool("returns-null-when-full", p == nullptr, true);
                    }
                    vf::eq_int("source-unchanged", val(x), v);
                }
                break;
            }
            default: { // copy construction + independence
                if constexpr (kCopy && N > 0) {
                    vf::crumb(subj, "ctor(inplace_vector const&)", stc(m), "m=%s", show(m).c_str());
                    E x(e);
                    vf::cover("ctor(inplace_vector const&)", sh);
                    check(x, m);
                    if (!m.empty()) {
                        e[0] = mkT(3);
                        vf::eq_str("copy-independent-of-source", show(read_all(x)), show(m));
                        m[0] = 3;
                    }
                }
                break;
            }
            }
            if (!check(e, m)) {
                if (m.size() > N) { m.resize(N); }
                fill(e, m);
            }
        }
    }
};

// ======================================================================== stack
template <std::size_t N>
struct ST {
    using C = etl::static_vector<T, N>;
    using E = etl::stack<T, C>;
    static void run(vf::Chooser& ch, unsigned steps)
    {
        char subj[96];
        std::snprintf(subj, sizeof subj, "stack<%s,static_vector<%zu>>", TNAME, N);
        E e;
        M m;
        for (unsigned s = 0; s < steps; ++s) {
            unsigned w       = ch.pick(kCopy ? 6 : 5);
            int v            = (int)ch.pick(3);
            std::size_t room = N - m.size();
            char const* st   = m.empty() ? "empty" : (m.size() == N ? "full" : "partial");
            std::uint64_t sh = vf::mix(vf::fnv_bytes(m.data(), m.size() * sizeof(int)), N * 13 + VF_ELEM);
            switch (w) {
            case 0:
                if (!room) { continue; }
                vf::crumb(subj, "push(T&&)", st, "m=%s v=%d", show(m).c_str(), v);
                e.push(mkT(v));
                m.push_back(v);
                vf::cover("stack.push(T&&)", vf::mix(sh, v));
                break;
            case 1:
                if (!room) { continue; }
                vf::crumb(subj, "emplace(args)", st, "m=%s v=%d", show(m).c_str(), v);
                if (v == 0 && ch.flag()) {
                    e.emplace();
                } else if (ch.flag()) {
                    e.emplace(EARGS(v));
                } else {
                    e.emplace(mkT(v));
                }
                m.push_back(v);
                vf::cover("stack.emplace(args)", vf::mix(sh, v));
                break;
            case 2:
                if (m.empty()) { continue; }
                vf::crumb(subj, "pop()", st, "m=%s", show(m).c_str());
                e.pop();
                m.pop_back();
                vf::cover("stack.pop()", sh);
                break;
            case 3: {
                E o;
                M mo;
                std::size_t k = ch.pick((unsigned)std::min<std::size_t>(N, 2) + 1);
                for (std::size_t i = 0; i < k; ++i) {
                    o.push(mkT((int)i + 1));
                    mo.push_back((int)i + 1);
                }
                bool free_ = ch.flag();
                vf::crumb(subj, free_ ? "swap(a,b)" : "swap(other)", st, "m=%s other=%s", show(m).c_str(), show(mo).c_str());
                if (free_) {
                    using etl::swap;
                    swap(e, o);
                } else {
                    e.swap(o);
                }
                vf::cover("stack.swap", vf::mix(sh, k));
                vf::eq_int("other.size", o.size(), m.size());
                if (!m.empty()) { vf::eq_int("other.top", val(o.top()), m.back()); }
                m = mo;
                break;
            }
            case 4: {
                E o;
                M mo;
                std::size_t k = ch.pick((unsigned)std::min<std::size_t>(N, 2) + 1);
                for (std::size_t i = 0; i < k; ++i) {
                    int x = (int)ch.pick(3);
                    o.push(mkT(x));
                    mo.push_back(x);
                }
                vf::crumb(subj, "relational", st, "m=%s other=%s", show(m).c_str(), show(mo).c_str());
                vf::cover("stack.relational", vf::mix(sh, vf::fnv_bytes(mo.data(), mo.size() * sizeof(int))));
                vf::eq_bool("operator==", e == o, m == mo);
                vf::eq_bool("operator!=", e != o, m != mo);
                vf::eq_bool("operator<", e < o, m < mo);
                vf::eq_bool("operator<=", e <= o, m <= mo);
                vf::eq_bool("operator>", e > o, m > mo);
                vf::eq_bool("operator>=", e >= o, m >= mo);
                break;
            }
            default:
                if constexpr (kCopy) {
                    if (!room) { continue; }
                    T x = mkT(v);
                    vf::crumb(subj, "push(T const&)", st, "m=%s v=%d", show(m).c_str(), v);
                    e.push(x);
                    m.push_back(v);
                    vf::cover("stack.push(T const&)", vf::mix(sh, v));
                }
                break;
            }
            vf::crumb(subj, "observe", st, "m=%s", show(m).c_str());
            vf::eq_int("size", e.size(), m.size());
            vf::eq_bool("empty", e.empty(), m.empty());
            if (!m.empty() && e.size() == m.size()) { vf::eq_int("top", val(e.top()), m.back()); }
            if (e.size() != m.size()) { // resync
                while (!e.empty()) { e.pop(); }
                for (int k : m) { e.push(mkT(k)); }
            }
        }
    }
};

// ------------------------------------------------------------------------ case mapping
std::uint64_t n_start(std::size_t N)
{ // sequences over {0,1,2} of length <= min(N,3)
    std::size_t maxl = N < 3 ? N : 3;
    std::uint64_t t = 0, c = 1;
    for (std::size_t l = 0; l <= maxl; ++l, c *= 3) { t += c; }
    return t;
}
M start_seq(std::uint64_t k)
{
    std::uint64_t cnt = 1;
    for (unsigned len = 0;; ++len, cnt *= 3) {
        if (k < cnt) {
            M s(len, 0);
            for (unsigned i = 0; i < len; ++i) {
                s[len - 1 - i] = (int)(k % 3);
                k /= 3;
            }
            return s;
        }
        k -= cnt;
    }
}
constexpr unsigned kEnumFamilies = 7; // 5 static_vector families + inplace_vector + stack

template <std::size_t N>
void enum_case(std::uint64_t local)
{
    unsigned fam = (unsigned)(local % kEnumFamilies);
    M start      = start_seq(local / kEnumFamilies);
    vf::Chooser ch;
    if (vf::want_sample("enumerated-case")) {
        vf::sample("enumerated-case", "elem=%s cap=%zu start=%s family=%u: every argument tuple", TNAME, N, show(start).c_str(), fam);
    }
    do {
        ch.begin();
        vf::registry().reset();
        {
            if (fam < 5) {
                SV<N> env(ch, start);
                env.apply(fam);
            } else if (fam == 5) {
                IV<N> env(ch);
                env.history(start, 2); // every 2-step history from every start state
            } else {
                if constexpr (N > 0) {
                    if (start.empty()) { ST<N>::run(ch, 3); } // every 3-step history of the stack adaptor
                }
            }
        }
        if constexpr (kTracked) { vf::expect_no_live("end of case"); }
    } while (ch.next());
}
template <std::size_t N>
void random_case(vf::Rng& rng)
{
    vf::Chooser ch(&rng);
    vf::registry().reset();
    {
        M start;
        std::size_t len = rng.chance(1, 2) ? N - (std::size_t)rng.below(N < 3 ? N + 1 : 3) : (std::size_t)rng.below(N < 4 ? N + 1 : 4);
        if (len > N) { len = N; }
        for (std::size_t i = 0; i < len; ++i) { start.push_back((int)rng.below(4)); }
        unsigned which = (unsigned)rng.below(4);
        unsigned steps = rng.chance(1, 8) ? 320u : 40u; // a share of long histories: many fill/drain cycles on one object
        if (which <= 1) {
            SV<N> env(ch, start);
            for (unsigned s = 0; s < steps; ++s) { env.apply((unsigned)rng.below(SV<N>::kFamilies)); }
        } else if (which == 2) {
            IV<N> env(ch);
            env.history(start, steps);
        } else {
            if constexpr (N > 0) { ST<N>::run(ch, steps); }
        }
        if (vf::want_sample("random-history")) { vf::sample("random-history", "elem=%s cap=%zu start-len=%zu subject=%u then %u random operations", TNAME, N, len, which, steps); }
    }
    if constexpr (kTracked) { vf::expect_no_live("end of case"); }
}

template <std::size_t... Ns>
struct CapList {
    static std::uint64_t n_enum_for(std::size_t i)
    {
        std::uint64_t r = 0;
        std::size_t k   = 0;
        ((k++ == i ? (r = (Ns <= 4 ? n_start(Ns) * kEnumFamilies : 0)) : 0), ...);
        return r;
    }
    static void run_enum(std::size_t i, std::uint64_t local)
    {
        std::size_t k = 0;
        ((k++ == i ? (enum_case<Ns>(local), 0) : 0), ...);
    }
    static void run_random(std::size_t i, vf::Rng& rng)
    {
        std::size_t k = 0;
        ((k++ == i ? (random_case<Ns>(rng), 0) : 0), ...);
    }
};
using Caps = CapList<VF_CAPS>;

vf::Spec spec(vf::Tier t)
{
    vf::Spec s;
    for (std::size_t i = 0; i < kNCaps; ++i) { s.n_enum += Caps::n_enum_for(i); }
    s.n_random   = (t == vf::Tier::thorough ? 60000 : 500) * kNCaps;
    s.batch      = 8;
    s.exhaustive = true;
    return s;
}
void run_case(vf::Case& c)
{
    // tracked elements are damaged by self-move-assignment (only final values are judged, so a move-based self-swap is fine)
    if constexpr (kTracked) { vf::self_move_poisons() = true; }
    if (c.enumerated) {
        std::uint64_t k = c.index;
        for (std::size_t i = 0; i < kNCaps; ++i) {
            std::uint64_t n = Caps::n_enum_for(i);
            if (k < n) {
                Caps::run_enum(i, k);
                return;
            }
            k -= n;
        }
    } else {
        Caps::run_random(c.index % kNCaps, c.rng);
    }
}
} // namespace

VF_MAIN("C01", "C01_vector", spec, run_case)
