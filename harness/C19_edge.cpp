// C19 - extents / mappings / mdspan / mdarray whose STATIC extents sit at the boundary of the index type
// (index_type max - which is what dynamic_extent narrows to for unsigned types -, max-1, max/2+1), mixed with dynamic
// extents in every position.  Small index types (uint8/int8/uint16/int16) are memory-backed (255 x 1, 65535 x 1 ...),
// uint32 is mapping-only.  Everything is compared with the closed-form model; the dynamic extents take every combination
// of {0,1,2,3,max-1,max} whose index space is representable in the index type.
// Build: -DVF_IDX=<index type> -DVF_IDX_NAME="..."
#include "vf.hpp"
#include "vf_contract.hpp"

#include "vf_c19.hpp"

#include <etl/mdarray.hpp>
#include <etl/vector.hpp>

#include <limits>
#include <vector>

namespace {
using namespace c19;
#define NOINL __attribute__((noinline))
using W = __int128;

constexpr std::size_t IMAXV = (std::size_t)std::numeric_limits<Idx>::max();
// boundary values for the static extent
constexpr std::size_t BV[3]        = {IMAXV, IMAXV - 1, IMAXV / 2 + 1};
constexpr char const* BVNAME[3]    = {"static=index_max", "static=index_max-1", "static=index_max/2+1"};
constexpr bool MEMORY              = IMAXV <= 70000; // views/arrays over real storage (else mapping-only)
constexpr std::size_t SVCAP        = IMAXV <= 255 ? 256 : 1;
constexpr LL ALL_INDICES_LIMIT     = 70000;

// patterns: the boundary value V at every position next to dynamic extents (and one small static extent)
template <std::size_t V, std::size_t P>
struct pat;
// clang-format off
template <std::size_t V> struct pat<V, 0> { using type = etl::extents<Idx, V, dyn>; };
template <std::size_t V> struct pat<V, 1> { using type = etl::extents<Idx, dyn, V>; };
template <std::size_t V> struct pat<V, 2> { using type = etl::extents<Idx, V, dyn, dyn>; };
template <std::size_t V> struct pat<V, 3> { using type = etl::extents<Idx, dyn, V, dyn>; };
template <std::size_t V> struct pat<V, 4> { using type = etl::extents<Idx, dyn, dyn, V>; };
template <std::size_t V> struct pat<V, 5> { using type = etl::extents<Idx, V, dyn, 1>; };
template <std::size_t V> struct pat<V, 6> { using type = etl::extents<Idx, 1, dyn, V>; };
// clang-format on
constexpr std::size_t NPAT  = 7;
constexpr std::size_t NTYPE = 3 * NPAT;
constexpr LL DV[6]          = {0, 1, 2, 3, (LL)IMAXV - 1, (LL)IMAXV}; // values of the dynamic extents
constexpr std::uint64_t NCOMBO = 36;

vf::Spec spec(vf::Tier t)
{
    vf::Spec s;
    s.n_enum     = NTYPE * NCOMBO;
    s.n_random   = t == vf::Tier::thorough ? 2000 : 200;
    s.batch      = 8;
    s.exhaustive = true;
    return s;
}

struct Ctx {
    PInfo p;
    Arr shape;
    std::string sit, desc;
    std::uint64_t h;
    vf::Rng* rng;
};
NOINL void crumb(Ctx const& c, std::string const& s, char const* op, std::string const& extra = "")
{
    vf::crumb(s.c_str(), op, c.sit.c_str(), "E=<%s> shape=%s %s", c.p.name, c.desc.c_str(), extra.c_str());
}
NOINL void cov(Ctx const& c, char const* op, std::uint64_t salt) { vf::cover(op, vf::mix(c.h, salt), true); }
NOINL void expect_int(char const* n, LL got, LL exp) { vf::eq_int(n, got, exp); }
NOINL void expect_bool(char const* n, bool got, bool exp) { vf::eq_bool(n, got, exp); }
std::string const XS = std::string("extents<") + IDXN + ">";

// extents object vs shape; the symptom says whether the wrong value sits at a static or a dynamic position
template <typename X>
NOINL void check_ext(Ctx const& c, char const* op, X const& x, std::uint64_t salt)
{
    cov(c, op, salt);
    for (std::size_t r = 0; r < X::rank(); ++r) {
        bool const isdyn = X::static_extent(r) == dyn;
        expect_int(isdyn ? "extent@dynamic-pos" : "extent@static-pos", (LL)x.extent(r), c.shape[r]);
    }
}
// multi-indices tried: all when the index space is small enough, else corners {0,1,mid,e-2,e-1}^rank
std::vector<Arr> indices(Model const& m)
{
    std::vector<Arr> v;
    if (m.empty()) { return v; }
    if (m.size() <= ALL_INDICES_LIMIT) {
        Arr i{};
        do { v.push_back(i); } while (next(i, m.e, m.R));
        return v;
    }
    std::vector<std::vector<LL>> per(m.R);
    for (std::size_t r = 0; r < m.R; ++r) {
        for (LL x : {(LL)0, (LL)1, m.e[r] / 2, m.e[r] - 2, m.e[r] - 1}) {
            bool dup = false;
            for (LL y : per[r]) { dup = dup || y == x; }
            if (x >= 0 && x < m.e[r] && !dup) { per[r].push_back(x); }
        }
    }
    std::vector<std::size_t> k(m.R, 0);
    for (;;) {
        Arr i{};
        for (std::size_t r = 0; r < m.R; ++r) { i[r] = per[r][k[r]]; }
        v.push_back(i);
        std::size_t r = m.R;
        while (r-- > 0) {
            if (++k[r] < per[r].size()) { break; }
            k[r] = 0;
        }
        if (r == (std::size_t)-1) { break; }
    }
    return v;
}

template <typename M>
NOINL void check_mapping(Ctx const& c, std::string const& s, char const* op, M const& m, Model const& mod, bool has_rss, std::uint64_t salt)
{
    constexpr std::size_t R = M::extents_type::rank();
    crumb(c, s, op);
    cov(c, op, salt);
    for (std::size_t r = 0; r < R; ++r) { expect_int(M::extents_type::static_extent(r) == dyn ? "extents().extent@dynamic-pos" : "extents().extent@static-pos", (LL)m.extents().extent(r), mod.e[r]); }
    LL rss = mod.span();
    if (has_rss) {
        rss = (LL)m.required_span_size();
        expect_int("required_span_size", rss, mod.span());
    }
    for (std::size_t r = 0; r < R; ++r) { expect_int(r == 0 ? "stride(0)" : (r + 1 == R ? "stride(rank-1)" : "stride(middle)"), (LL)m.stride(r), mod.st[r]); }
    bool bad = false, out = false;
    auto const idx = indices(mod);
    for (auto const& i : idx) {
        LL const g = (LL)call_idx<Idx, R>(m, i);
        if (g != mod.off(i) && !bad) {
            bad = true;
            vf::eq_int("offset", g, mod.off(i));
        }
        if ((g < 0 || g >= rss) && !out) {
            out = true;
            vf::diverge("offset:outside-required_span_size()", vf::to_s(g), "in [0," + vf::to_s(rss) + ")");
        }
    }
    vf::cover_bulk("operator()(index_type...)", idx.size(), vf::mix(c.h, salt), idx.size() < 64 ? idx.size() : 64);
}

// every element of a view / array: address inside the block, value read, tag written
template <typename V>
NOINL void touch_all(Ctx const& c, std::string const& s, char const* op, V& v, Cell* base, LL ncells, Model const& mod, std::uint64_t salt)
{
    constexpr std::size_t R = V::rank();
    crumb(c, s, op);
    bool bad = false, out = false;
    LL n = 0;
    Arr i{};
    if (!mod.empty()) {
        do {
            Cell& ref   = call_idx<Idx, R>(v, i);
            LL const at = (LL)(&ref - base);
            if (at != mod.off(i) && !bad) {
                bad = true;
                vf::eq_int("element-address", at, mod.off(i));
            }
            if (at < 0 || at >= ncells) {
                if (!out) {
                    out = true;
                    vf::diverge("element-address:outside-storage", "offset " + vf::to_s(at), "inside [0," + vf::to_s(ncells) + ")");
                }
            } else {
                if (ref.lin != (int)at && !bad) {
                    bad = true;
                    vf::diverge("element-value", vf::to_s(ref.lin), vf::to_s(at));
                }
                ref.tag = 5;
            }
            ++n;
        } while (next(i, mod.e, R));
    }
    LL touched = 0;
    for (LL k = 0; k < ncells; ++k) { touched += base[k].tag == 5; }
    if (!out && touched != n) { vf::diverge("write-through:cells-touched", vf::to_s(touched), vf::to_s(n)); }
    vf::cover_bulk(op, (std::uint64_t)n, vf::mix(c.h, salt), n < 64 ? (std::uint64_t)n : 64);
}

template <typename E, typename Seq>
struct rewiden;
template <typename E, std::size_t... Is>
struct rewiden<E, std::index_sequence<Is...>> {
    // the boundary static extent(s) made dynamic (extents >= 4 are the boundary values; 1 stays static)
    using type  = etl::extents<Idx, (E::static_extent(Is) != dyn && E::static_extent(Is) > 3 ? dyn : E::static_extent(Is))...>;
    using wider = etl::extents<std::size_t, E::static_extent(Is)...>; // same pattern, index type size_t
};

template <typename L>
struct lay;
template <>
struct lay<etl::layout_left> {
    static constexpr char const* v = "layout_left";
    static Model model(Arr const& e, std::size_t R) { return model_left(e, R); }
};
template <>
struct lay<etl::layout_right> {
    static constexpr char const* v = "layout_right";
    static Model model(Arr const& e, std::size_t R) { return model_right(e, R); }
};

template <typename L, typename E>
NOINL void layout_part(Ctx& c, E const& e)
{
    constexpr std::size_t R = E::rank();
    using M                 = typename L::template mapping<E>;
    using D                 = etl::dextents<Idx, R>;
    std::string const ms    = std::string(lay<L>::v) + "::mapping<" + IDXN + ">";
    Model const mod         = lay<L>::model(c.shape, R);
    crumb(c, ms, "mapping(extents)");
    M const m(e);
    check_mapping(c, ms, "mapping(extents)", m, mod, true, 1);
    crumb(c, ms, "mapping(mapping<OtherExtents>):->all-dynamic");
    typename L::template mapping<D> const md(m);
    check_mapping(c, ms, "mapping(mapping<OtherExtents>):->all-dynamic", md, mod, true, 2);
    crumb(c, ms, "mapping(mapping<OtherExtents>):all-dynamic->this");
    M const back(md);
    check_mapping(c, ms, "mapping(mapping<OtherExtents>):all-dynamic->this", back, mod, true, 3);
    // the same strides through layout_stride
    {
        std::string const ss = std::string("layout_stride::mapping<") + IDXN + ">";
        etl::array<Idx, R> sa{};
        bool ok = true;
        for (std::size_t r = 0; r < R; ++r) {
            ok    = ok && mod.st[r] > 0 && fits<Idx>(mod.st[r]);
            sa[r] = static_cast<Idx>(mod.st[r]);
        }
        if (ok) {
            crumb(c, ss, "mapping(extents,array<T,rank>)");
            etl::layout_stride::mapping<E> const sm(e, sa);
            check_mapping(c, ss, "mapping(extents,array<T,rank>)", sm, mod, true, 4);
        }
    }
    if constexpr (MEMORY) {
        if (mod.span() <= ALL_INDICES_LIMIT) {
            // a view over real storage
            std::string const vs = std::string("mdspan<") + lay<L>::v + "," + IDXN + ">";
            vf::Buf<Cell> blk((std::size_t)mod.span());
            for (LL k = 0; k < mod.span(); ++k) { blk[(std::size_t)k] = Cell{(int)k, -1}; }
            crumb(c, vs, "mdspan(ptr,extents)");
            etl::mdspan<Cell, E, L> md2(blk.data(), e);
            cov(c, "mdspan(ptr,extents)", 5);
            expect_int("size()", (LL)md2.size(), mod.size());
            expect_bool("empty()", md2.empty(), mod.empty());
            for (std::size_t r = 0; r < R; ++r) { expect_int(E::static_extent(r) == dyn ? "extent@dynamic-pos" : "extent@static-pos", (LL)md2.extent(r), mod.e[r]); }
            touch_all(c, vs, "mdspan(ptr,extents)", md2, blk.data(), mod.span(), mod, 5);
            blk.check("view cells");
            // arrays that size their own container
            std::string const as = std::string("mdarray<") + lay<L>::v + "," + IDXN + ",BufVec>";
            auto own              = [](auto& a) {
                Cell* const d = a.container_data();
                for (std::size_t k = 0; k < (std::size_t)a.container_size(); ++k) { d[k] = Cell{(int)k, -1}; }
            };
            {
                using A = etl::mdarray<Cell, E, L, BufVec<Cell>>;
                crumb(c, as, "mdarray(extents)");
                A a(e);
                cov(c, "mdarray(extents)", 6);
                expect_int("container_size()", (LL)a.container_size(), mod.span());
                expect_int("size()", (LL)a.size(), mod.size());
                own(a);
                touch_all(c, as, "mdarray(extents)", a, a.container_data(), (LL)a.container_size(), mod, 6);
                crumb(c, as, "mdarray(OtherIndexTypes...):N=rank_dynamic");
                A a2 = call_dynamic<E>([&](auto... v) { return A(v...); }, c.shape);
                cov(c, "mdarray(OtherIndexTypes...):N=rank_dynamic", 7);
                expect_int("container_size()", (LL)a2.container_size(), mod.span());
                own(a2);
                touch_all(c, as, "mdarray(OtherIndexTypes...):N=rank_dynamic", a2, a2.container_data(), (LL)a2.container_size(), mod, 7);
            }
            if constexpr (SVCAP > 1) {
                if (mod.span() <= (LL)SVCAP) {
                    std::string const ss2 = std::string("mdarray<") + lay<L>::v + "," + IDXN + ",static_vector>";
                    using AS              = etl::mdarray<Cell, E, L, etl::static_vector<Cell, SVCAP>>;
                    crumb(c, ss2, "mdarray(extents)");
                    AS a(e);
                    cov(c, "mdarray(extents)", 8);
                    expect_int("container_size()", (LL)a.container_size(), mod.span());
                    own(a);
                    touch_all(c, ss2, "mdarray(extents)", a, a.container_data(), (LL)a.container_size(), mod, 8);
                    crumb(c, ss2, "mdarray(extents,value)");
                    AS a2(e, Cell{3, 4});
                    cov(c, "mdarray(extents,value)", 9);
                    expect_int("container_size()", (LL)a2.container_size(), mod.span());
                    own(a2);
                    touch_all(c, ss2, "mdarray(extents,value)", a2, a2.container_data(), (LL)a2.container_size(), mod, 9);
                }
            }
        }
    }
}

template <typename E>
NOINL void edge_case(Ctx& c)
{
    constexpr std::size_t R  = E::rank();
    constexpr std::size_t RD = E::rank_dynamic();
    using D                  = etl::dextents<Idx, R>;
    using RW                 = rewiden<E, std::make_index_sequence<R>>;
    using W1                 = typename RW::type;
    using WS                 = typename RW::wider;

    // ---- extents: every constructor form, observers, conversions
    crumb(c, XS, "extents(OtherIndexTypes...):N=rank_dynamic");
    E const e = make_extents<E>(c.shape);
    check_ext(c, "extents(OtherIndexTypes...):N=rank_dynamic", e, 1);
    expect_int("rank_dynamic", (LL)E::rank_dynamic(), (LL)c.p.rd);
    for (std::size_t r = 0; r < R; ++r) { expect_bool("static_extent", E::static_extent(r) == c.p.st[r], true); }
    {
        crumb(c, XS, "extents(OtherIndexTypes...):N=rank");
        E const e2 = [&]<std::size_t... Is>(std::index_sequence<Is...>) { return E(static_cast<Idx>(c.shape[Is])...); }(std::make_index_sequence<R>{});
        check_ext(c, "extents(OtherIndexTypes...):N=rank", e2, 2);
        etl::array<Idx, R> all{};
        etl::array<Idx, RD> dynv{};
        std::size_t n = 0;
        for (std::size_t r = 0; r < R; ++r) {
            all[r] = static_cast<Idx>(c.shape[r]);
            if (E::static_extent(r) == dyn) { dynv[n++] = static_cast<Idx>(c.shape[r]); }
        }
        crumb(c, XS, "extents(array<T,N>):N=rank");
        E const e3(all);
        check_ext(c, "extents(array<T,N>):N=rank", e3, 3);
        crumb(c, XS, "extents(array<T,N>):N=rank_dynamic");
        E const e4(dynv);
        check_ext(c, "extents(array<T,N>):N=rank_dynamic", e4, 4);
        crumb(c, XS, "extents(span<T,N>):N=rank");
        E const e5(etl::span<Idx const, R>(all.data(), R));
        check_ext(c, "extents(span<T,N>):N=rank", e5, 5);
        crumb(c, XS, "operator==");
        expect_bool("operator==:same-shape", e == e2 && e == e3 && e == e4 && e == e5, true);
        cov(c, "operator==", 1);
    }
    {
        LL fw = 1;
        for (std::size_t i = 0; i <= R; ++i) {
            crumb(c, XS, "fwd_prod_of_extents(i)");
            expect_int(i == R ? "prod:i=rank" : "prod:i<rank", (LL)e.fwd_prod_of_extents(i), fw);
            if (i < R) { fw *= c.shape[i]; }
        }
        cov(c, "fwd_prod_of_extents(i)", 1);
    }
    {
        crumb(c, XS, "extents(extents<Other>):->all-dynamic");
        D const d(e);
        check_ext(c, "extents(extents<Other>):->all-dynamic", d, 6);
        crumb(c, XS, "extents(extents<Other>):all-dynamic->this");
        E const back(d);
        check_ext(c, "extents(extents<Other>):all-dynamic->this", back, 7);
        expect_bool("operator==:converted", back == d && d == e, true);
        crumb(c, XS, "extents(extents<Other>):boundary-static-position->dynamic");
        W1 const w(e);
        check_ext(c, "extents(extents<Other>):boundary-static-position->dynamic", w, 8);
        crumb(c, XS, "extents(extents<Other>):dynamic->boundary-static-position");
        E const nb(w);
        check_ext(c, "extents(extents<Other>):dynamic->boundary-static-position", nb, 9);
        crumb(c, XS, "extents(extents<OtherIndexType>):to-size_t");
        WS const ws(e);
        check_ext(c, "extents(extents<OtherIndexType>):to-size_t", ws, 10);
        crumb(c, XS, "extents(extents<OtherIndexType>):from-size_t");
        E const ns(ws);
        check_ext(c, "extents(extents<OtherIndexType>):from-size_t", ns, 11);
        expect_bool("operator==:other-index-type", ws == e, true);
    }
    // ---- mappings, views, arrays
    layout_part<etl::layout_left, E>(c, e);
    layout_part<etl::layout_right, E>(c, e);
}

template <std::size_t T>
struct Run {
    static void run(Ctx& c, std::uint64_t combo)
    {
        using E = typename pat<BV[T / NPAT], T % NPAT>::type;
        c.p     = pinfo<E>();
        // dynamic extents from DV x DV (second digit unused for one dynamic extent)
        Arr sh{};
        std::uint64_t k = combo;
        for (std::size_t r = 0; r < E::rank(); ++r) {
            if (E::static_extent(r) == dyn) {
                sh[r] = combo == (std::uint64_t)-1 ? DV[c.rng->below(6)] : DV[k % 6];
                k /= 6;
            } else {
                sh[r] = (LL)E::static_extent(r);
            }
        }
        if (E::rank_dynamic() == 1 && combo != (std::uint64_t)-1 && combo >= 6) { return; } // only 6 distinct shapes
        // domain: the size of the index space AND every partial product (= every stride of the canonical layouts) is
        // representable in the index type; with a zero extent the size is 0 but a stride such as 255*255 would not be, and
        // what stride() returns then is not specified (no in-range index exists to observe it)
        W prod = 1;
        for (std::size_t r = 0; r < E::rank(); ++r) { prod *= (W)sh[r]; }
        {
            W pre = 1, suf = 1;
            bool ok = prod <= (W)IMAXV;
            for (std::size_t r = 0; r < E::rank(); ++r) {
                pre *= (W)sh[r];
                suf *= (W)sh[E::rank() - 1 - r];
                ok = ok && (r + 1 == E::rank() || (pre <= (W)IMAXV && suf <= (W)IMAXV));
            }
            if (!ok) { return; }
        }
        c.shape = sh;
        c.desc  = show(sh, E::rank());
        c.sit   = "rank" + std::to_string(E::rank()) + "," + BVNAME[T / NPAT] + (prod == 0 ? ",zero-extent" : ",nonempty");
        c.h     = hash_arr(sh, E::rank(), T * 977 + 5);
        if (vf::want_sample(BVNAME[T / NPAT])) {
            vf::sample(BVNAME[T / NPAT], "extents<%s,%s> shape %s: constructors, conversions, layout_left/right/stride mappings%s", IDXN, c.p.name, c.desc.c_str(),
                MEMORY ? ", mdspan and self-sizing mdarray over real storage (every element touched)" : " (mapping-only)");
        }
        edge_case<E>(c);
    }
};

void run_case(vf::Case& c)
{
    Ctx x;
    x.rng = &c.rng;
    std::size_t t;
    std::uint64_t combo;
    if (c.enumerated) {
        t     = (std::size_t)(c.index / NCOMBO);
        combo = c.index % NCOMBO;
    } else {
        t     = (std::size_t)c.rng.below(NTYPE);
        combo = (std::uint64_t)-1;
    }
    x.sit = "setup";
    [&]<std::size_t... Ts>(std::index_sequence<Ts...>) {
        using fn_t              = void (*)(Ctx&, std::uint64_t);
        static fn_t const tab[] = {&Run<Ts>::run...};
        tab[t](x, combo);
    }(std::make_index_sequence<NTYPE>{});
}
} // namespace

VF_MAIN("C19", "C19_edge_" VF_IDX_NAME, spec, run_case)
