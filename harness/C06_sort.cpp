// C06 - sorting, partitioning, inplace_merge  vs libstdc++ / post-conditions (DESIGN 4, C06)
#include "vf.hpp"
#include "vf_contract.hpp"
#include "vf_algo_tests.hpp"

namespace c06 {

// which sort, called generically
enum SortFn { S_sort, S_stable, S_gnome, S_bubble, S_exchange, S_insertion, S_merge, S_count };
inline char const* sort_name(int f)
{
    static char const* const n[] = {"sort", "stable_sort", "gnome_sort", "bubble_sort", "exchange_sort", "insertion_sort", "merge_sort"};
    return n[f];
}
template <int F, typename It>
void call_sort(It b, It e, int cm)
{
    Comp cmp{cm < 0 ? 0 : cm};
    if constexpr (F == S_sort) {
        cm < 0 ? etl::sort(b, e) : etl::sort(b, e, cmp);
    } else if constexpr (F == S_stable) {
        cm < 0 ? etl::stable_sort(b, e) : etl::stable_sort(b, e, cmp);
    } else if constexpr (F == S_gnome) {
        cm < 0 ? etl::gnome_sort(b, e) : etl::gnome_sort(b, e, cmp);
    } else if constexpr (F == S_bubble) {
        cm < 0 ? etl::bubble_sort(b, e) : etl::bubble_sort(b, e, cmp);
    } else if constexpr (F == S_exchange) {
        cm < 0 ? etl::exchange_sort(b, e) : etl::exchange_sort(b, e, cmp);
    } else if constexpr (F == S_insertion) {
        cm < 0 ? etl::insertion_sort(b, e) : etl::insertion_sort(b, e, cmp);
    } else {
        cm < 0 ? etl::merge_sort(b, e) : etl::merge_sort(b, e, cmp);
    }
}

template <typename K, int F>
void k_one_sort(Ctx& c)
{
    constexpr int f = F;
    std::size_t const n = c.a.size();
    Seq const& m        = c.a;
    for (Pres pr : pres_for<K>(n)) {
        for (int cm = -1; cm <= 2; ++cm) {
            Comp cmp{cm < 0 ? 0 : cm};
            char op[64];
            std::snprintf(op, sizeof op, "%s(f,l%s)%s", sort_name(f), cm < 0 ? "" : ",c", comp_name(cm));
            bool already = is_sorted_keys(m, cm);
            Trial t(c, K::name, op, pr, already ? "already-sorted" : "unsorted", vf::mix(f, cm + 1), "-");
            Range<El> r(c.a, pr, true);
            t.call([&] { call_sort<F>(B<K>(r), E<K>(r), cm); });
            Seq got = r.get();
            if (t.permutation("range", got, m)) {
                if (f == S_stable || f == S_insertion || f == S_bubble) { // stability: standard for stable_sort, documented by tetl for the other two
                    Seq exp = m;
                    std::stable_sort(exp.begin(), exp.end(), cmp);
                    t.seq("range", got, exp);
                } else {
                    t.require("range:not-sorted", is_sorted_keys(got, cm), show(got), "sorted w.r.t. the comparator");
                }
            }
            t.guards(r);
            t.done();
        }
    }
}
// the same through etl::reverse_iterator<El*> (random access category passed through; bubble/exchange sort use its operator<)
template <int F>
void k_one_sort_rev(Ctx& c)
{
    constexpr int f     = F;
    std::size_t const n = c.a.size();
    Seq const& m        = c.a;
    Seq const store(m.rbegin(), m.rend()); // seen through reverse iterators this is c.a again
    using RIt = etl::reverse_iterator<El*>;
    for (Pres pr : pres_for<KPtr>(n)) {
        for (int cm = -1; cm <= 2; ++cm) {
            Comp cmp{cm < 0 ? 0 : cm};
            char op[64];
            std::snprintf(op, sizeof op, "%s(f,l%s)%s", sort_name(f), cm < 0 ? "" : ",c", comp_name(cm));
            Trial t(c, "reverse_iterator<ptr>", op, pr, is_sorted_keys(m, cm) ? "already-sorted" : "unsorted", vf::mix(f, cm + 1), "-");
            Range<El> r(store, pr, true);
            t.call([&] { call_sort<F>(RIt{r.hi}, RIt{r.lo}, cm); });
            Seq got = r.get();
            std::reverse(got.begin(), got.end());
            if (t.permutation("range", got, m)) {
                if (f == S_stable || f == S_insertion || f == S_bubble) { // stability: standard for stable_sort, documented by tetl for the other two
                    Seq exp = m;
                    std::stable_sort(exp.begin(), exp.end(), cmp);
                    t.seq("range", got, exp);
                } else {
                    t.require("range:not-sorted", is_sorted_keys(got, cm), show(got), "sorted w.r.t. the comparator");
                }
            }
            t.guards(r);
            t.done();
        }
    }
}
template <int F>
void t_sort_fn(Ctx& c)
{
    C06_FULL(k_one_sort_rev<F>(c);)
    k_one_sort<KPtr, F>(c);
    k_one_sort<KRa, F>(c);
}
void t_gnome_bidi(Ctx& c) { k_one_sort<KBidi, S_gnome>(c); }

// ---------------------------------------------------------------- partial_sort / nth_element
template <typename K>
void k_partial(Ctx& c)
{
    std::size_t const n = c.a.size();
    Seq const& m        = c.a;
    for (Pres pr : pres_for<K>(n)) {
        for (int cm = -1; cm <= 2; ++cm) {
            Comp cmp{cm < 0 ? 0 : cm};
            char op[64];
            for (std::size_t mid = 0; mid <= n; ++mid) {
                {
                    std::snprintf(op, sizeof op, "partial_sort(f,m,l%s)%s", cm < 0 ? "" : ",c", comp_name(cm));
                    Trial t(c, K::name, op, pr, mid == 0 ? "mid=first" : (mid == n ? "mid=last" : "mid-inner"), vf::mix(mid, cm + 1), "mid=%zu", mid);
                    Range<El> r(c.a, pr, true);
                    if (cm < 0) {
                        t.call([&] { etl::partial_sort(B<K>(r), AT<K>(r, mid), E<K>(r)); });
                    } else {
                        t.call([&] { etl::partial_sort(B<K>(r), AT<K>(r, mid), E<K>(r), cmp); });
                    }
                    Seq got = r.get();
                    if (t.permutation("range", got, m)) {
                        bool ok = is_sorted_keys(Seq(got.begin(), got.begin() + (long)mid), cm);
                        for (std::size_t i = 0; ok && i < mid; ++i) {
                            for (std::size_t j = mid; j < n; ++j) {
                                if (cmp(got[j], got[i])) { ok = false; }
                            }
                        }
                        t.require("range:prefix-not-the-sorted-smallest", ok, show(got), "[first,middle) sorted and no later element less than any of them");
                    }
                    t.guards(r);
                    t.done();
                }
                {
                    std::snprintf(op, sizeof op, "nth_element(f,nth,l%s)%s", cm < 0 ? "" : ",c", comp_name(cm));
                    Trial t(c, K::name, op, pr, mid == 0 ? "nth=first" : (mid == n ? "nth=last" : "nth-inner"), vf::mix(mid, cm + 11), "nth=%zu", mid);
                    Range<El> r(c.a, pr, true);
                    if (cm < 0) {
                        t.call([&] { etl::nth_element(B<K>(r), AT<K>(r, mid), E<K>(r)); });
                    } else {
                        t.call([&] { etl::nth_element(B<K>(r), AT<K>(r, mid), E<K>(r), cmp); });
                    }
                    Seq got = r.get();
                    if (t.permutation("range", got, m) && mid < n) {
                        bool ok = true;
                        for (std::size_t i = 0; i < mid; ++i) {
                            for (std::size_t j = mid; j < n; ++j) {
                                if (cmp(got[j], got[i])) { ok = false; }
                            }
                        }
                        Seq srt = m;
                        std::stable_sort(srt.begin(), srt.end(), cmp);
                        if (cmp(srt[mid], got[mid]) || cmp(got[mid], srt[mid])) { ok = false; }
                        t.require("range:nth-not-in-sorted-position", ok, show(got), "element at nth is the one a full sort puts there; none before it greater, none after it less");
                    }
                    t.guards(r);
                    t.done();
                }
            }
        }
    }
}
void t_partial(Ctx& c)
{
    k_partial<KPtr>(c);
    k_partial<KRa>(c);
}

// ---------------------------------------------------------------- partition / stable_partition / partition_copy
template <typename K>
void k_partition(Ctx& c)
{
    std::size_t const n = c.a.size();
    Seq const& m        = c.a;
    for (Pres pr : pres_for<K>(n)) {
        for (auto const& ps : kPreds) {
            Pred p{ps.mode, ps.arg};
            long cnt       = std::count_if(m.begin(), m.end(), p);
            char const* ex = cnt == 0 ? "none-true" : (cnt == (long)n ? "all-true" : "mixed");
            {
                Trial t(c, K::name, "partition(f,l,p)", pr, ex, vf::mix(ps.mode, ps.arg), "pred %s", ps.name);
                Range<El> r(c.a, pr, true);
                auto ret = t.call([&] { return etl::partition(B<K>(r), E<K>(r), p); });
                Seq got  = r.get();
                t.off("ret", K::raw(ret) - r.lo, cnt);
                if (t.permutation("range", got, m)) {
                    t.require("range:not-partitioned", std::is_partitioned(got.begin(), got.end(), p), show(got), "all true elements before all false ones");
                }
                t.guards(r);
                t.done();
            }
        }
    }
}
void t_partition(Ctx& c)
{
    k_partition<KPtr>(c);
    k_partition<KFwd>(c);
    k_partition<KRa>(c);
    k_stable_partition<KPtr>(c);
    k_stable_partition<KRa>(c); // bidirectional iterators: C06_probe
}
template <typename K, typename O1, typename O2>
void k_partition_copy(Ctx& c)
{
    std::size_t const n = c.a.size();
    Seq const& m        = c.a;
    char const* kk      = kinds3<K, O1, O2>();
    for (Pres pr : pres_for<K>(n)) {
        for (auto const& ps : kPreds) {
            Pred p{ps.mode, ps.arg};
            Seq et, ef;
            std::partition_copy(m.begin(), m.end(), std::back_inserter(et), std::back_inserter(ef), p);
            char const* ex = et.empty() ? "none-true" : (ef.empty() ? "all-true" : "mixed");
            Trial t(c, kk, "partition_copy(f,l,dt,df,p)", pr, ex, vf::mix(ps.mode, ps.arg), "pred %s", ps.name);
            Range<El> r(c.a, pr, false);
            Sink<El> st(et.size(), pr), sf(ef.size(), pr);
            auto ret = t.call([&] { return etl::partition_copy(B<K>(r), E<K>(r), O1::make(st), O2::make(sf), p); });
            t.off("ret.first", O1::off(st, ret.first), (long)et.size());
            t.off("ret.second", O2::off(sf, ret.second), (long)ef.size());
            t.seq("output-true", st.r.get(), et);
            t.seq("output-false", sf.r.get(), ef);
            t.guards(st.r, "output-true");
            t.guards(sf.r, "output-false");
            FIN(t, r);
        }
    }
}
void t_partition_copy(Ctx& c)
{
    k_partition_copy<KPtr, OPtr, OPtr>(c);
    k_partition_copy<KIn, OOut, OBack>(c);
    k_partition_copy<KFwd, OBack, OOut>(c);
}

void t_inplace_merge(Ctx& c)
{
    k_inplace_merge<KPtr>(c);
    k_inplace_merge<KRa>(c);
}

Test const kTests[] = {
    {"sort", t_sort_fn<S_sort>},
    {"stable_sort", t_sort_fn<S_stable>},
    {"gnome_sort", t_sort_fn<S_gnome>},
    {"gnome_sort_bidi", t_gnome_bidi},
    {"bubble_sort", t_sort_fn<S_bubble>},
    {"exchange_sort", t_sort_fn<S_exchange>},
    {"insertion_sort", t_sort_fn<S_insertion>},
    {"merge_sort", t_sort_fn<S_merge>},
    {"partial", t_partial},
    {"partition", t_partition},
    {"partition_copy", t_partition_copy},
    {"inplace_merge", t_inplace_merge},
};
std::size_t const kNumTests = sizeof(kTests) / sizeof(kTests[0]);

} // namespace c06

C06_MAIN(C06_TRUTHY ? "C06_sort_truthy" : "C06_sort")
