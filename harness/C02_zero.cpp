// C02 - zero-size / zero-capacity instances: every member that is callable on them runs without undefined behaviour and answers like the
// std counterpart of size zero (DESIGN 12.6; added after adversary round 4).  "At every capacity and for empty inputs" includes N == 0, where
// "the last word", "the first element", "capacity - 1" do not exist; code paths merged for N >= 1 tend to dereference them.
#include "vf.hpp"
#include "vf_contract.hpp"
#include "vf_tracked.hpp"

#include <etl/array.hpp>
#include <etl/bitset.hpp>
#include <etl/flat_set.hpp>
#include <etl/inplace_vector.hpp>
#include <etl/set.hpp>
#include <etl/span.hpp>
#include <etl/stack.hpp>
#include <etl/string.hpp>
#include <etl/string_view.hpp>
#include <etl/vector.hpp>

#include <array>
#include <bitset>
#include <span>
#include <string>
#include <string_view>
#include <vector>

namespace {
constexpr auto NPOS = static_cast<std::size_t>(-1);
long long P(std::size_t v) { return v == NPOS ? -1 : (long long)v; }

#define OP(SUBJ, NAME) vf::crumb(SUBJ, NAME, "size-zero", "-"); vf::cover(NAME, vf::mix(vf::fnv(SUBJ), vf::fnv(NAME)))

template <typename B>
void bitset_zero(char const* subj)
{
    B b{};
    B c{};
    std::bitset<0> s;
    OP(subj, "all()"); vf::eq_bool("ret", b.all(), s.all());
    OP(subj, "any()"); vf::eq_bool("ret", b.any(), s.any());
    OP(subj, "none()"); vf::eq_bool("ret", b.none(), s.none());
    OP(subj, "count()"); vf::eq_int("ret", b.count(), s.count());
    OP(subj, "size()"); vf::eq_int("ret", b.size(), s.size());
    OP(subj, "operator=="); vf::eq_bool("ret", b == c, true);
    OP(subj, "operator!="); vf::eq_bool("ret", b != c, false);
    OP(subj, "set()"); b.set(); vf::eq_int("count", b.count(), 0);
    OP(subj, "reset()"); b.reset(); vf::eq_int("count", b.count(), 0);
    OP(subj, "flip()"); b.flip(); vf::eq_int("count", b.count(), 0); vf::eq_bool("all", b.all(), true); vf::eq_bool("none", b.none(), true);
    OP(subj, "operator&="); b &= c; vf::eq_int("count", b.count(), 0);
    OP(subj, "operator|="); b |= c; vf::eq_int("count", b.count(), 0);
    OP(subj, "operator^="); b ^= c; vf::eq_int("count", b.count(), 0);
    if constexpr (requires { ~b; }) { OP(subj, "operator~"); auto d = ~b; vf::eq_int("count", d.count(), 0); }
    if constexpr (requires { b <<= 1; }) { OP(subj, "operator<<="); b <<= 1; b <<= 0; vf::eq_int("count", b.count(), 0); }
    if constexpr (requires { b >>= 1; }) { OP(subj, "operator>>="); b >>= 1; b >>= 0; vf::eq_int("count", b.count(), 0); }
    if constexpr (requires { b << 1; }) { OP(subj, "operator<<"); auto d = b << 3; vf::eq_int("count", d.count(), 0); }
    if constexpr (requires { b >> 1; }) { OP(subj, "operator>>"); auto d = b >> 3; vf::eq_int("count", d.count(), 0); }
    if constexpr (requires { b & c; }) { OP(subj, "operator&"); auto d = b & c; vf::eq_int("count", d.count(), 0); }
    if constexpr (requires { b | c; }) { OP(subj, "operator|"); auto d = b | c; vf::eq_int("count", d.count(), 0); }
    if constexpr (requires { b ^ c; }) { OP(subj, "operator^"); auto d = b ^ c; vf::eq_int("count", d.count(), 0); }
    if constexpr (requires { b.to_ulong(); }) { OP(subj, "to_ulong()"); vf::eq_int("ret", b.to_ulong(), s.to_ulong()); }
    if constexpr (requires { b.to_ullong(); }) { OP(subj, "to_ullong()"); vf::eq_int("ret", b.to_ullong(), s.to_ullong()); }
    if constexpr (requires { b.template to_string<4>(); }) { OP(subj, "to_string<N>()"); auto str = b.template to_string<4>(); vf::eq_int("size", str.size(), 0); }
    if constexpr (requires { B(0xFFull); }) { OP(subj, "ctor(unsigned long long)"); B d(0xFFull); vf::eq_int("count", d.count(), 0); vf::eq_bool("==", d == c, true); }
    if constexpr (requires { B(etl::string_view{}); }) { OP(subj, "ctor(string_view)"); B d(etl::string_view{"101", 3}); vf::eq_int("count", d.count(), 0); }
    OP(subj, "copy/assign"); B e2(b); e2 = c; vf::eq_int("count", e2.count(), 0);
}

template <typename V>
void vector_zero(char const* subj)
{
    using T = typename V::value_type;
    V v{};
    V w{};
    std::vector<int> m;
    OP(subj, "size()"); vf::eq_int("ret", v.size(), 0);
    OP(subj, "empty()"); vf::eq_bool("ret", v.empty(), true);
    OP(subj, "capacity()"); vf::eq_int("ret", v.capacity(), 0); vf::eq_int("max_size", v.max_size(), 0);
    if constexpr (requires { v.full(); }) { OP(subj, "full()"); vf::eq_bool("ret", v.full(), true); }
    OP(subj, "begin()==end()"); vf::eq_bool("ret", v.begin() == v.end(), true); vf::eq_bool("cbegin==cend", std::as_const(v).begin() == std::as_const(v).end(), true);
    OP(subj, "clear()"); v.clear(); vf::eq_int("size", v.size(), 0);
    if constexpr (requires { v.resize(0); }) { OP(subj, "resize(0)"); v.resize(0); vf::eq_int("size", v.size(), 0); }
    if constexpr (requires(T const& x) { v.resize(0, x); }) { OP(subj, "resize(0,value)"); T x{}; v.resize(0, x); vf::eq_int("size", v.size(), 0); }
    if constexpr (requires(T const& x) { v.assign(std::size_t(0), x); }) { OP(subj, "assign(0,value)"); T x{}; v.assign(std::size_t(0), x); vf::eq_int("size", v.size(), 0); }
    if constexpr (requires(T const* p) { v.assign(p, p); }) { OP(subj, "assign(first,last) empty"); T const* p = nullptr; v.assign(p, p); vf::eq_int("size", v.size(), 0); }
    if constexpr (requires(T const& x) { v.insert(v.cbegin(), std::size_t(0), x); }) { OP(subj, "insert(pos,0,x)"); T x{}; auto it = v.insert(v.cbegin(), std::size_t(0), x); vf::eq_bool("ret==end", it == v.end(), true); }
    if constexpr (requires(T const* p) { v.insert(v.cbegin(), p, p); }) { OP(subj, "insert(pos,first,last) empty"); T const* p = nullptr; auto it = v.insert(v.cbegin(), p, p); vf::eq_bool("ret==end", it == v.end(), true); }
    if constexpr (requires { v.erase(v.cbegin(), v.cbegin()); }) { OP(subj, "erase(first,last) empty"); auto it = v.erase(v.cbegin(), v.cend()); vf::eq_bool("ret==end", it == v.end(), true); }
    if constexpr (requires { v.swap(w); }) { OP(subj, "swap(other)"); v.swap(w); v.swap(v); vf::eq_int("size", v.size(), 0); }
    if constexpr (requires { v == w; }) { OP(subj, "relational"); vf::eq_bool("==", v == w, true); vf::eq_bool("!=", v != w, false); }
    if constexpr (requires { v < w; }) { vf::eq_bool("<", v < w, false); vf::eq_bool("<=", v <= w, true); vf::eq_bool(">", v > w, false); vf::eq_bool(">=", v >= w, true); }
    if constexpr (requires(T x) { v.try_push_back(x); }) { OP(subj, "try_push_back"); T x{}; vf::eq_bool("null", v.try_push_back(x) == nullptr, true); vf::eq_bool("null(emplace)", v.try_emplace_back() == nullptr, true); }
    if constexpr (requires(T const& x) { etl::erase(v, x); }) { OP(subj, "erase(c,value)"); T x{}; vf::eq_int("ret", etl::erase(v, x), 0); vf::eq_int("ret(erase_if)", etl::erase_if(v, [](T const&) { return true; }), 0); }
    OP(subj, "copy/move"); V a(v); V b(static_cast<V&&>(a)); a = b; b = static_cast<V&&>(a); vf::eq_int("size", b.size(), 0);
    if constexpr (requires { V(std::size_t(0)); }) { OP(subj, "ctor(0)"); V c0(std::size_t(0)); vf::eq_int("size", c0.size(), 0); }
    (void)m;
}

template <std::size_t N>
void string_zero(char const* subj)
{
    using E = etl::inplace_string<N>;
    E e;
    E o;
    std::string s;
    OP(subj, "observers"); vf::eq_int("size", e.size(), 0); vf::eq_bool("empty", e.empty(), true); vf::eq_bool("full", e.full(), N == 0); vf::eq_int("c_str()[0]", (long long)e.c_str()[0], 0);
    vf::eq_bool("begin==end", e.begin() == e.end(), true);
    OP(subj, "find family");
    vf::eq_int("find(str)", P(e.find(o)), P(s.find(s))); vf::eq_int("find(ch)", P(e.find('a')), P(s.find('a'))); vf::eq_int("find(ptr)", P(e.find("")), P(s.find("")));
    vf::eq_int("rfind(ch)", P(e.rfind('a')), P(s.rfind('a'))); vf::eq_int("find_first_of", P(e.find_first_of("ab")), P(s.find_first_of("ab")));
    vf::eq_int("find_last_of", P(e.find_last_of("ab")), P(s.find_last_of("ab"))); vf::eq_int("find_first_not_of", P(e.find_first_not_of("ab")), P(s.find_first_not_of("ab")));
    vf::eq_int("find_last_not_of", P(e.find_last_not_of("ab")), P(s.find_last_not_of("ab")));
    OP(subj, "compare family"); vf::eq_sign("compare(str)", e.compare(o), 0); vf::eq_sign("compare(ptr)", e.compare(""), 0); vf::eq_sign("compare(ptr) nonempty", e.compare("a"), s.compare("a"));
    vf::eq_bool("==", e == o, true); vf::eq_bool("<", e < o, false); vf::eq_bool("starts_with", e.starts_with(""), true); vf::eq_bool("ends_with(ch)", e.ends_with('a'), false);
    if constexpr (requires { e.contains('a'); }) { vf::eq_bool("contains", e.contains('a'), false); }
    OP(subj, "no-op modifiers"); e.clear(); e.append(std::size_t(0), 'a'); e.append(""); e.append(o); e += ""; e.assign(""); e.assign(std::size_t(0), 'a'); e.insert(0, std::size_t(0), 'a'); e.insert(0, ""); e.erase(std::size_t(0), std::size_t(0)); e.erase();
    e.resize(0); e.resize(0, 'a'); e.swap(o); e = o; e = "";
    vf::eq_int("size", e.size(), 0); vf::eq_int("c_str()[0]", (long long)e.c_str()[0], 0);
    OP(subj, "substr/copy"); auto sub = e.substr(0); vf::eq_int("substr.size", sub.size(), 0); char d[2] = {'q', 'q'}; vf::eq_int("copy", e.copy(d, 2, 0), 0); vf::eq_int("dest-untouched", d[0], 'q');
    OP(subj, "operator+"); auto sum = e + o; vf::eq_int("size", sum.size(), 0);
    OP(subj, "view conversion"); etl::string_view v = e; vf::eq_int("size", v.size(), 0);
}

void view_zero()
{
    char const* subj = "string_view (empty / default)";
    etl::string_view e;
    std::string_view s;
    etl::string_view e2("", 0);
    OP(subj, "observers"); vf::eq_int("size", e.size(), 0); vf::eq_bool("empty", e.empty(), true); vf::eq_bool("begin==end", e.begin() == e.end(), true);
    OP(subj, "find family");
    vf::eq_int("find(sv)", P(e.find(e2)), P(s.find(s))); vf::eq_int("find(ch)", P(e.find('a')), P(s.find('a'))); vf::eq_int("find(sv,1)", P(e.find(e2, 1)), P(s.find(s, 1)));
    vf::eq_int("rfind(sv)", P(e.rfind(e2)), P(s.rfind(s))); vf::eq_int("rfind(ch)", P(e.rfind('a')), P(s.rfind('a')));
    vf::eq_int("find_first_of", P(e.find_first_of("ab")), P(s.find_first_of("ab"))); vf::eq_int("find_last_of", P(e.find_last_of("ab")), P(s.find_last_of("ab")));
    vf::eq_int("find_first_not_of", P(e.find_first_not_of("ab")), P(s.find_first_not_of("ab"))); vf::eq_int("find_last_not_of", P(e.find_last_not_of("ab")), P(s.find_last_not_of("ab")));
    vf::eq_int("find_last_of(ch,npos)", P(e.find_last_of('a')), P(s.find_last_of('a'))); vf::eq_int("find_last_not_of(ch)", P(e.find_last_not_of('a')), P(s.find_last_not_of('a')));
    OP(subj, "compare family"); vf::eq_sign("compare", e.compare(e2), 0); vf::eq_sign("compare(ptr)", e.compare("a"), s.compare("a")); vf::eq_bool("==", e == e2, true);
    vf::eq_bool("starts_with(sv)", e.starts_with(e2), true); vf::eq_bool("ends_with(sv)", e.ends_with(e2), true); vf::eq_bool("starts_with(ch)", e.starts_with('a'), false); vf::eq_bool("ends_with(ch)", e.ends_with('a'), false);
    OP(subj, "substr/copy/remove_*"); vf::eq_int("substr", e.substr(0).size(), 0); vf::eq_int("substr(0,npos-1)", e.substr(0, NPOS - 1).size(), 0); char d[1] = {'q'}; vf::eq_int("copy", e.copy(d, 1, 0), 0);
    e.remove_prefix(0); e.remove_suffix(0); vf::eq_int("size", e.size(), 0);
}

void span_zero()
{
    {
        char const* subj = "span<int,0>";
        etl::span<int, 0> e;
        OP(subj, "observers"); vf::eq_int("size", e.size(), 0); vf::eq_int("size_bytes", e.size_bytes(), 0); vf::eq_bool("empty", e.empty(), true); vf::eq_bool("begin==end", e.begin() == e.end(), true);
        OP(subj, "first/last/subspan"); vf::eq_int("first<0>", e.template first<0>().size(), 0); vf::eq_int("last<0>", e.template last<0>().size(), 0); vf::eq_int("subspan<0>", e.template subspan<0>().size(), 0);
        vf::eq_int("first(0)", e.first(0).size(), 0); vf::eq_int("last(0)", e.last(0).size(), 0); vf::eq_int("subspan(0)", e.subspan(0).size(), 0); vf::eq_int("subspan(0,0)", e.subspan(0, 0).size(), 0);
    }
    {
        char const* subj = "span<int> (empty)";
        etl::span<int> e;
        OP(subj, "observers"); vf::eq_int("size", e.size(), 0); vf::eq_bool("empty", e.empty(), true); vf::eq_bool("begin==end", e.begin() == e.end(), true); vf::eq_bool("data==null", e.data() == nullptr, true);
        OP(subj, "first/last/subspan"); vf::eq_int("first(0)", e.first(0).size(), 0); vf::eq_int("last(0)", e.last(0).size(), 0); vf::eq_int("subspan(0)", e.subspan(0).size(), 0);
        vf::eq_int("subspan(0,dynamic_extent)", e.subspan(0, etl::dynamic_extent).size(), 0);
        if constexpr (requires { etl::as_bytes(e); }) { OP(subj, "as_bytes"); vf::eq_int("size", etl::as_bytes(e).size(), 0); }
    }
}

void array_zero()
{
    char const* subj = "array<int,0>";
    etl::array<int, 0> e{};
    etl::array<int, 0> o{};
    OP(subj, "observers"); vf::eq_int("size", e.size(), 0); vf::eq_int("max_size", e.max_size(), 0); vf::eq_bool("empty", e.empty(), true); vf::eq_bool("begin==end", e.begin() == e.end(), true);
    vf::eq_bool("rbegin==rend", e.rbegin() == e.rend(), true);
    OP(subj, "fill/swap/relational"); e.fill(3); e.swap(o); vf::eq_bool("==", e == o, true); vf::eq_bool("<", e < o, false); vf::eq_bool(">=", e >= o, true);
}

template <typename S>
void set_zero(char const* subj)
{
    S s{};
    S o{};
    OP(subj, "observers"); vf::eq_int("size", s.size(), 0); vf::eq_bool("empty", s.empty(), true); vf::eq_bool("begin==end", s.begin() == s.end(), true);
    if constexpr (requires { s.full(); }) { vf::eq_bool("full", s.full(), true); }
    OP(subj, "lookups"); vf::eq_bool("contains", s.contains(1), false); vf::eq_int("count", s.count(1), 0); vf::eq_bool("find==end", s.find(1) == s.end(), true);
    vf::eq_bool("lower_bound==end", s.lower_bound(1) == s.end(), true); vf::eq_bool("upper_bound==end", s.upper_bound(1) == s.end(), true);
    auto er = s.equal_range(1); vf::eq_bool("equal_range empty", er.first == er.second, true);
    OP(subj, "erase/clear/swap"); vf::eq_int("erase(key)", s.erase(1), 0); s.clear(); s.swap(o); vf::eq_bool("==", s == o, true);
    OP(subj, "copy/move"); S a(s); S b(static_cast<S&&>(a)); a = b; vf::eq_int("size", a.size(), 0);
}

vf::Spec spec(vf::Tier)
{
    vf::Spec s;
    s.n_enum     = 16;
    s.n_random   = 0;
    s.batch      = 1; // one subject per process: a crash in one does not hide the others
    s.exhaustive = true;
    return s;
}
void run_case(vf::Case& c)
{
    vf::registry().reset();
    switch (c.index) {
    case 0: bitset_zero<etl::bitset<0>>("bitset<0>"); break;
    case 1: bitset_zero<etl::basic_bitset<0, std::uint8_t>>("basic_bitset<0,uint8>"); break;
    case 2: bitset_zero<etl::basic_bitset<0, std::uint16_t>>("basic_bitset<0,uint16>"); break;
    case 3: bitset_zero<etl::basic_bitset<0, std::uint32_t>>("basic_bitset<0,uint32>"); break;
    case 4: bitset_zero<etl::basic_bitset<0, std::uint64_t>>("basic_bitset<0,uint64>"); break;
    case 5: vector_zero<etl::static_vector<int, 0>>("static_vector<int,0>"); break;
    case 6: vector_zero<etl::static_vector<vf::TCM, 0>>("static_vector<tracked,0>"); break;
    case 7: vector_zero<etl::inplace_vector<int, 0>>("inplace_vector<int,0>"); break;
    case 8: vector_zero<etl::inplace_vector<vf::TCM, 0>>("inplace_vector<tracked,0>"); break;
    case 9: string_zero<0>("inplace_string<0>"); break;
    case 10: string_zero<7>("inplace_string<7> (empty)"); break;
    case 11: view_zero(); break;
    case 12: span_zero(); break;
    case 13: array_zero(); break;
    case 14: set_zero<etl::static_set<int, 0>>("static_set<int,0>"); break;
    default: set_zero<etl::flat_set<int, etl::static_vector<int, 0>>>("flat_set<int,static_vector<0>>"); break;
    }
    vf::expect_no_live("end of case");
}
} // namespace

VF_MAIN("C02", "C02_zero", spec, run_case)
