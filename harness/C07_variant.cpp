// C07 - etl::variant tracks the same active index and value as std::variant (DESIGN 4, C07)
// One alternative list per binary (-DVF_CFG):
//   0 variant<int, tracked-cm>                          2 alternatives
//   1 variant<int, tracked-cm, pair<int,int>>           3 alternatives, trivially copyable and not
//   2 variant<tracked-cm, tracked-cm2, int, char>       4 alternatives
//   3 variant<tracked-mo, int>                          move-only alternative (move paths only)
//   4 variant<tracked-cm, int, tracked-cm>              REPEATED non-trivial alternative type: everything by index
//   5 variant<int, int>                                 repeated trivial alternative type
//   6 variant<string-like, string-like, char>           repeated non-trivial (std::string member) alternative type
//   7 variant<tracked-cm>                               a single alternative
// With repeated types the type-based forms (emplace<T>, in_place_type, holds_alternative, get_if<T>, converting
// construction/assignment) are ill-formed in both libraries and are left out; the index-based ones remain.
// Twin worlds (vf_c07.hpp): the same operation text drives std::variant and etl::variant; traces are compared.
#include "vf.hpp"
#include "vf_contract.hpp"
#include "vf_tracked.hpp"

#include "vf_c07.hpp"

#ifndef VF_CFG
    #error "VF_CFG required"
#endif

namespace {
using namespace c07;

template <typename... Ts>
struct TL {
    static constexpr std::size_t size = sizeof...(Ts);
};
template <typename NS, typename L>
struct VarOf;
template <typename NS, typename... Ts>
struct VarOf<NS, TL<Ts...>> {
    using type = typename NS::template variant<Ts...>;
};
template <std::size_t I, typename L>
struct At;
template <std::size_t I, typename... Ts>
struct At<I, TL<Ts...>> {
    using type = std::tuple_element_t<I, std::tuple<Ts...>>;
};
template <typename L>
struct AllCopy;
template <typename... Ts>
struct AllCopy<TL<Ts...>> {
    static constexpr bool value = (std::is_copy_constructible_v<Ts> && ...);
};

using L2  = TL<int, TCM>;
using L3  = TL<int, TCM, PairII>;
using L4  = TL<TCM, TCM2, int, char>;
using LMO = TL<TMO, int>;
using LR1 = TL<TCM, int, TCM>;
using LR2 = TL<int, int>;
using LR3 = TL<StrLike, StrLike, char>;
template <typename L>
struct Unique;
template <typename... Ts>
struct Unique<TL<Ts...>> {
    template <typename T>
    static constexpr int count = (int(std::is_same_v<T, Ts>) + ...);
    static constexpr bool value = ((count<Ts> == 1) && ...);
};

#if VF_CFG == 0
using LX = L2;
using LW1 = L3;
using LW2 = L4;
    #define VF_UNIT "C07_variant_2"
constexpr char const* kName = "variant<int,tracked-cm>";
#elif VF_CFG == 1
using LX = L3;
using LW1 = L4;
using LW2 = L2;
    #define VF_UNIT "C07_variant_3"
constexpr char const* kName = "variant<int,tracked-cm,pair<int,int>>";
#elif VF_CFG == 2
using LX = L4;
using LW1 = L3;
using LW2 = L2;
    #define VF_UNIT "C07_variant_4"
constexpr char const* kName = "variant<tracked-cm,tracked-cm2,int,char>";
#elif VF_CFG == 3
using LX = LMO;
using LW1 = L2;
using LW2 = L3;
    #define VF_UNIT "C07_variant_mo"
constexpr char const* kName = "variant<tracked-mo,int>";
#elif VF_CFG == 4
using LX = LR1;
using LW1 = LR3;
using LW2 = L2;
    #define VF_UNIT "C07_variant_rep_tcm"
constexpr char const* kName = "variant<tracked-cm,int,tracked-cm>";
#elif VF_CFG == 5
using LX = LR2;
using LW1 = LR1;
using LW2 = L2;
    #define VF_UNIT "C07_variant_rep_int"
constexpr char const* kName = "variant<int,int>";
#elif VF_CFG == 6
using LX = LR3;
using LW1 = LR1;
using LW2 = LR2;
    #define VF_UNIT "C07_variant_rep_str"
constexpr char const* kName = "variant<string-like,string-like,char>";
#else
using LX = TL<TCM>; // a single alternative; visited together with 2- and 3-alternative variants
using LW1 = L3;
using LW2 = L2;
    #define VF_UNIT "C07_variant_1"
constexpr char const* kName = "variant<tracked-cm>";
#endif
constexpr std::size_t N  = LX::size;
constexpr std::size_t N1 = LW1::size;
constexpr std::size_t N2 = LW2::size;
constexpr bool kCopy     = AllCopy<LX>::value;
constexpr bool kUnique   = Unique<LX>::value; // type-based forms exist only then
template <std::size_t I>
using Alt = typename At<I, LX>::type;

enum Op : unsigned {
    vEmplaceI,
    vEmplaceT,
    vAssignAltLv,
    vAssignAltRv,
    vAssignForeign,
    vAssignVarConst,
    vAssignVarRv,
    vSelfCopyAssign,
    vAssignOwnAlt,
    vSwapAdl,
    vSwapMember,
    vSwapSelf,
    vCopyCtor,
    vMoveCtor,
    vCtorAltLv,
    vCtorAltRv,
    vCtorInPlaceIndex,
    vCtorInPlaceType,
    vCtorDefault,
    vCtorForeign,
    vRel,
    vVisit1,
    vVisitVoid,
    vVisit2,
    vVisit3,
    vGet,
    vVisitIdx,
    kOpCount
};
constexpr OpInfo info(Op op)
{
    switch (op) {
    case vEmplaceI: return {"emplace<I>(args)", aJ | aV | aM};
    case vEmplaceT: return {"emplace<T>(args)", aJ | aV | aM};
    case vAssignAltLv: return {"operator=(T const&) converting", aJ | aV | aM};
    case vAssignAltRv: return {"operator=(T&&) converting", aJ | aV | aM};
    case vAssignForeign: return {"operator=(F&&) converting from a non-alternative type", aQ4 | aV | aM};
    case vAssignVarConst: return {"operator=(variant const&)", aJ | aV | aM};
    case vAssignVarRv: return {"operator=(variant&&)", aJ | aV | aM};
    case vSelfCopyAssign: return {"operator=(self const&)", aM};
    case vAssignOwnAlt: return {"operator=(own active alternative)", aM};
    case vSwapAdl: return {"swap(a,b)", aJ | aV | aM};
    case vSwapMember: return {"swap(other)", aJ | aV | aM};
    case vSwapSelf: return {"swap(self,self)", aM};
    case vCopyCtor: return {"ctor(variant const&)", 0};
    case vMoveCtor: return {"ctor(variant&&)", aM};
    case vCtorAltLv: return {"ctor(T const&) converting", aJ | aV};
    case vCtorAltRv: return {"ctor(T&&) converting", aJ | aV};
    case vCtorInPlaceIndex: return {"ctor(in_place_index<I>,args)", aJ | aV};
    case vCtorInPlaceType: return {"ctor(in_place_type<T>,args)", aJ | aV};
    case vCtorDefault: return {"ctor()", 0};
    case vCtorForeign: return {"ctor(F&&) converting from a non-alternative type", aQ4 | aV};
    case vRel: return {"relational(variant,variant)", aJ | aV};
    case vVisit1: return {"visit(f,v)", aQ4};
    case vVisitVoid: return {"visit(void f,v)", 0};
    case vVisit2: return {"visit(f,v,w)", aZ};
    case vVisit3: return {"visit(f,v,w,u)", aZ | aY};
    case vVisitIdx: return {"visit_with_index(f,v) [etl extension; model: index() + visit]", 0};
    case vGet: return {"get_if / holds_alternative / get of the active alternative", 0};
    default: return {"?", 0};
    }
}

template <typename L>
using EV = typename VarOf<Etl, L>::type;
template <typename L>
using SV = typename VarOf<Std, L>::type;

template <typename V>
inline constexpr bool kHasMemberSwapT = requires(V& a, V& b) { a.swap(b); };
inline constexpr bool kHasMemberSwap = kHasMemberSwapT<EV<LX>>;
// non-alternative argument types of converting construction / assignment: used only where BOTH libraries accept them
template <typename F>
inline constexpr bool kForeignCtorOk = std::is_constructible_v<SV<LX>, F> && requires(F f) { EV<LX>(static_cast<F&&>(f)); };
template <typename F>
inline constexpr bool kForeignAssignOk = std::is_assignable_v<SV<LX>&, F> && requires(EV<LX>& e, F f) { e = static_cast<F&&>(f); };
using ForeignList = TL<short, signed char, bool, unsigned char>;

constexpr bool applicable(Op op)
{
    switch (op) {
    case vAssignAltLv:
    case vAssignOwnAlt:
    case vCtorAltLv: return kCopy && kUnique;
    case vAssignVarConst:
    case vSelfCopyAssign:
    case vCopyCtor: return kCopy;
    case vSwapMember: return kHasMemberSwap;
    case vEmplaceT:
    case vAssignAltRv:
    case vCtorAltRv:
    case vCtorInPlaceType:
    case vAssignForeign:
    case vCtorForeign: return kUnique;
    case kOpCount: return false;
    default: return true;
    }
}

struct VisitLog {
    int calls = 0;
    int id[3]{-1, -1, -1};
    long long val[3]{-1, -1, -1};
    int cat[3]{-1, -1, -1};
};
struct LogVisitor {
    VisitLog* L;
    template <typename... A>
    long operator()(A&&... a) const
    {
        L->calls++;
        int k         = 0;
        long long sum = 0;
        ((L->id[k] = tid<std::remove_cvref_t<A>>(), L->val[k] = enc(a), L->cat[k] = category<A&&>(), sum += enc(a) * (k + 1), ++k), ...);
        return (long)sum + 100;
    }
};
struct VoidVisitor {
    VisitLog* L;
    template <typename A>
    void operator()(A&& a) const
    {
        L->calls++;
        L->id[0]  = tid<std::remove_cvref_t<A>>();
        L->val[0] = enc(a);
    }
};
inline void obs_log(Obs& r, VisitLog const& L, int n)
{
    static constexpr char const* nid[3]  = {"visitor.arg0-type", "visitor.arg1-type", "visitor.arg2-type"};
    static constexpr char const* nval[3] = {"visitor.arg0-value", "visitor.arg1-value", "visitor.arg2-value"};
    static constexpr char const* ncat[3] = {"visitor.arg0-category", "visitor.arg1-category", "visitor.arg2-category"};
    r.i("visitor.calls", L.calls);
    for (int k = 0; k < n; ++k) {
        r.i(nid[k], L.id[k]);
        r.i(nval[k], L.val[k]);
        r.i(ncat[k], L.cat[k]);
    }
}

template <typename NS>
struct VarWorld {
    using V  = typename VarOf<NS, LX>::type;
    using W1 = typename VarOf<NS, LW1>::type;
    using W2 = typename VarOf<NS, LW2>::type;
    V* x = nullptr;
    VarWorld() = default;
    VarWorld(VarWorld const&)            = delete;
    VarWorld& operator=(VarWorld const&) = delete;
    ~VarWorld() { delete x; }

    // prvalue of VV holding alternative j with value code v (guaranteed elision all the way: no move of the variant)
    template <typename VV, typename LL, std::size_t I = 0>
    static VV mk_in(std::size_t j, int v)
    {
        if constexpr (I + 1 < LL::size) {
            if (j != I) { return mk_in<VV, LL, I + 1>(j, v); }
        }
        return VV(NS::template ipi<I>, Make<typename At<I, LL>::type>::arg(v));
    }
    static V* mk_new(std::size_t j, long long e)
    {
        V* p = nullptr;
        with_index<N>(j, [&](auto I) { p = new V(NS::template ipi<I()>, Make<Alt<I()>>::from_enc(e)); });
        return p;
    }

    template <typename VV>
    static long long active_value(VV const& v)
    {
        long long e = -5;
        NS::visit([&](auto const& a) { e = enc(a); }, v);
        return e;
    }
    // index + value through get_if only (no visit): used for operands
    static void obs_var(Obs& r, char const* nidx, char const* nval, V const& v)
    {
        r.i(nidx, (long long)v.index());
        long long e = -5;
        with_index<N>(v.index(), [&](auto I) {
            auto const* p = NS::template get_if<I()>(&v);
            e             = p ? enc(*p) : -6;
        });
        r.i(nval, e);
    }

    void construct(int form, std::size_t j, int v)
    {
        if (form == 0) {
            x = new V();
            return;
        }
        with_index<N>(j, [&](auto I) {
            using T = Alt<I()>;
            if constexpr (!kUnique) {
                x = new V(NS::template ipi<I()>, Make<T>::arg(v)); // repeated types: only the index form exists
                return;
            } else
            switch (form) {
            case 1: x = new V(NS::template ipi<I()>, Make<T>::arg(v)); break;
            case 2: x = new V(NS::template ipt<T>, Make<T>::arg(v)); break;
            case 3: {
                T t = Make<T>::of(v);
                x   = new V(static_cast<T&&>(t));
                break;
            }
            default: {
                if constexpr (std::is_copy_constructible_v<T>) {
                    T const t = Make<T>::of(v);
                    x         = new V(t);
                } else {
                    x = new V(Make<T>::of(v));
                }
                break;
            }
            }
        });
    }
    void rebuild(std::size_t j, long long e)
    {
        delete x;
        x = mk_new(j, e);
    }

    void observe(Obs& r) const
    {
        V const& cv = *x;
        V& v        = *x;
        r.i("index", (long long)cv.index());
        static constexpr char const* nh[4]  = {"holds_alternative<T0>", "holds_alternative<T1>", "holds_alternative<T2>", "holds_alternative<T3>"};
        static constexpr char const* ng[4]  = {"get_if<0>!=null", "get_if<1>!=null", "get_if<2>!=null", "get_if<3>!=null"};
        static constexpr char const* ngt[4] = {"get_if<T0>!=null", "get_if<T1>!=null", "get_if<T2>!=null", "get_if<T3>!=null"};
        static constexpr char const* ngv[4] = {"*get_if<0>", "*get_if<1>", "*get_if<2>", "*get_if<3>"};
        [&]<std::size_t... Is>(std::index_sequence<Is...>) {
            if constexpr (kUnique) {
                ((r.b(nh[Is], NS::template holds<Alt<Is>>(cv)), r.b(ngt[Is], NS::template get_if_t<Alt<Is>>(&v) != nullptr)), ...);
            }
            ((r.b(ng[Is], NS::template get_if<Is>(&cv) != nullptr),
                 r.i(ngv[Is], NS::template get_if<Is>(&v) != nullptr ? enc(*NS::template get_if<Is>(&v)) : kAbsent)),
                ...);
        }(std::make_index_sequence<N>{});
    }

    void apply(Op op, Args const& a, Obs& r)
    {
        V& v             = *x;
        std::size_t const j = (std::size_t)a.j;
        switch (op) {
        case vEmplaceI:
            with_index<N>(j, [&](auto I) {
                auto& ref = v.template emplace<I()>(Make<Alt<I()>>::arg(a.v));
                r.b("emplace-returns-contained", &ref == NS::template get_if<I()>(&v));
            });
            break;
        case vEmplaceT:
            if constexpr (kUnique) {
                with_index<N>(j, [&](auto I) {
                    auto& ref = v.template emplace<Alt<I()>>(Make<Alt<I()>>::arg(a.v));
                    r.b("emplace-returns-contained", &ref == NS::template get_if<I()>(&v));
                });
            }
            break;
        case vAssignAltLv:
            if constexpr (kUnique) {
                with_index<N>(j, [&](auto I) {
                    using T = Alt<I()>;
                    if constexpr (std::is_copy_constructible_v<T>) {
                        T const t = Make<T>::of(a.v);
                        V& ret    = (v = t);
                        r.b("returns-self", &ret == &v);
                        r.i("src.value", enc(t));
                    }
                });
            }
            break;
        case vAssignAltRv:
            if constexpr (kUnique) {
                with_index<N>(j, [&](auto I) {
                    using T = Alt<I()>;
                    T t     = Make<T>::of(a.v);
                    v       = static_cast<T&&>(t);
                    r.i("src.value-after-move", enc(t));
                });
            }
            break;
        case vAssignForeign:
            with_index<ForeignList::size>((std::size_t)a.q, [&](auto I) {
                using F = typename At<I(), ForeignList>::type;
                if constexpr (kUnique) { // (with repeated types the query itself is a hard error in tetl: probe unit 5)
                    if constexpr (kForeignAssignOk<F>) { v = (F)a.v; }
                }
            });
            break;
        case vAssignVarConst:
            if constexpr (kCopy) {
                V const other = mk_in<V, LX>(j, a.v);
                V& ret        = (v = other);
                r.b("returns-self", &ret == &v);
                obs_var(r, "src.index", "src.value", other);
            }
            break;
        case vAssignVarRv: {
            V other = mk_in<V, LX>(j, a.v);
            V& ret  = (v = static_cast<V&&>(other));
            r.b("returns-self", &ret == &v);
            obs_var(r, "src.index-after-move", "src.value-after-move", other);
            break;
        }
        case vSelfCopyAssign:
            if constexpr (kCopy) {
                V const& self = v;
                v             = self;
            }
            break;
        case vAssignOwnAlt:
            if constexpr (kCopy && kUnique) {
                with_index<N>(v.index(), [&](auto I) { v = *NS::template get_if<I()>(&v); });
            }
            break;
        case vSwapAdl: {
            V other = mk_in<V, LX>(j, a.v);
            NS::adl_swap(v, other);
            obs_var(r, "other.index", "other.value", other);
            break;
        }
        case vSwapMember:
            if constexpr (kHasMemberSwap) {
                V other = mk_in<V, LX>(j, a.v);
                v.swap(other);
                obs_var(r, "other.index", "other.value", other);
            }
            break;
        case vSwapSelf: NS::adl_swap(v, v); break;
        case vCopyCtor:
            if constexpr (kCopy) {
                V c(v);
                obs_var(r, "copy.index", "copy.value", c);
            }
            break;
        case vMoveCtor: {
            V c(static_cast<V&&>(v));
            obs_var(r, "moved-to.index", "moved-to.value", c);
            break;
        }
        case vCtorAltLv:
            if constexpr (kUnique) {
                with_index<N>(j, [&](auto I) {
                    using T = Alt<I()>;
                    if constexpr (std::is_copy_constructible_v<T>) {
                        T const t = Make<T>::of(a.v);
                        V c(t);
                        obs_var(r, "converted.index", "converted.value", c);
                    }
                });
            }
            break;
        case vCtorAltRv:
            if constexpr (kUnique) {
                with_index<N>(j, [&](auto I) {
                    using T = Alt<I()>;
                    T t     = Make<T>::of(a.v);
                    V c(static_cast<T&&>(t));
                    obs_var(r, "converted.index", "converted.value", c);
                    r.i("src.value-after-move", enc(t));
                });
            }
            break;
        case vCtorInPlaceIndex:
            with_index<N>(j, [&](auto I) {
                V c(NS::template ipi<I()>, Make<Alt<I()>>::arg(a.v));
                obs_var(r, "constructed.index", "constructed.value", c);
            });
            break;
        case vCtorInPlaceType:
            if constexpr (kUnique) {
                with_index<N>(j, [&](auto I) {
                    V c(NS::template ipt<Alt<I()>>, Make<Alt<I()>>::arg(a.v));
                    obs_var(r, "constructed.index", "constructed.value", c);
                });
            }
            break;
        case vCtorDefault: {
            V c;
            obs_var(r, "default.index", "default.value", c);
            break;
        }
        case vCtorForeign:
            with_index<ForeignList::size>((std::size_t)a.q, [&](auto I) {
                using F = typename At<I(), ForeignList>::type;
                if constexpr (kUnique) {
                    if constexpr (kForeignCtorOk<F>) {
                        V c((F)a.v);
                        obs_var(r, "converted.index", "converted.value", c);
                    }
                }
            });
            break;
        case vRel: {
            V const other = mk_in<V, LX>(j, a.v);
            rel6(r, static_cast<V const&>(v), other);
            break;
        }
        case vVisit1: {
            VisitLog L;
            LogVisitor f{&L};
            V const& cv = v;
            long ret    = a.q == 0   ? NS::visit(f, v)
                        : a.q == 1 ? NS::visit(f, cv)
                        : a.q == 2 ? NS::visit(f, static_cast<V&&>(v))
                                   : NS::visit(f, static_cast<V const&&>(cv));
            obs_log(r, L, 1);
            r.i("visit-result", ret);
            break;
        }
        case vVisitVoid: {
            VisitLog L;
            VoidVisitor f{&L};
            NS::visit(f, v);
            obs_log(r, L, 1);
            break;
        }
        case vVisit2: {
            W1 const w = mk_in<W1, LW1>((std::size_t)a.z / 3, a.z % 3);
            VisitLog L;
            LogVisitor f{&L};
            long ret = NS::visit(f, static_cast<V const&>(v), w);
            obs_log(r, L, 2);
            r.i("visit-result", ret);
            VisitLog L2;
            LogVisitor f2{&L2};
            long ret2 = NS::visit(f2, w, v);
            obs_log(r, L2, 2);
            r.i("visit-result-swapped", ret2);
            break;
        }
        case vVisit3: {
            W1 const w = mk_in<W1, LW1>((std::size_t)a.z / 3, a.z % 3);
            W2 u       = mk_in<W2, LW2>((std::size_t)a.y / 3, a.y % 3);
            VisitLog L;
            LogVisitor f{&L};
            long ret = NS::visit(f, v, w, u);
            obs_log(r, L, 3);
            r.i("visit-result", ret);
            break;
        }
        case vGet:
            with_index<N>(v.index(), [&](auto I) {
                V const& cv = v;
                r.i("get<active>(lvalue)", enc(NS::template get_active<I()>(v)));
                r.i("get<active>(const lvalue)", enc(NS::template get_active<I()>(cv)));
                auto&& rr = NS::template get_active<I()>(static_cast<V&&>(v));
                r.b("get<active>(rvalue)-is-contained", &rr == NS::template get_if<I()>(&v));
                r.i("get<active>(rvalue)-category", category<decltype(NS::template get_active<I()>(static_cast<V&&>(v)))>());
                r.b("get_if<I>(const*)-is-contained", NS::template get_if<I()>(&cv) == NS::template get_if<I()>(&v));
                if constexpr (kUnique) { r.b("get_if<T>(const*)-is-contained", NS::template get_if_t<Alt<I()>>(&cv) == NS::template get_if<I()>(&v)); }
                r.b("get_if<I>(nullptr)", NS::template get_if<I()>(static_cast<V*>(nullptr)) == nullptr);
            });
            break;
        case vVisitIdx: {
            // etl::visit_with_index hands the visitor the active index together with the value; the std side is the
            // definition: index() and the value std::visit delivers
            long long idx = -1, val = kAbsent;
            int calls = 0;
            V const& cv = v;
            if constexpr (NS::is_etl) {
                etl::visit_with_index([&](auto p) {
                    ++calls;
                    idx = (long long)decltype(p)::index.value;
                    val = enc(p.value());
                }, cv);
            } else {
                ++calls;
                idx = (long long)cv.index();
                val = active_value(cv);
            }
            r.i("visit_with_index: calls", calls);
            r.i("visit_with_index: index", idx);
            r.i("visit_with_index: value", val);
            break;
        }
        default: break;
        }
    }
};

struct Table {
    Op ops[kOpCount]{};
    unsigned n = 0;
};
constexpr Table make_table()
{
    Table t;
    for (unsigned k = 0; k < kOpCount; ++k) {
        if (applicable((Op)k)) { t.ops[t.n++] = (Op)k; }
    }
    return t;
}

// (a template so that nothing in the not-taken branch is instantiated: with repeated alternative types the
// constructibility query itself is a hard error inside tetl, see probe unit 5)
template <typename FL, bool U>
std::string foreign_rejected()
{
    std::string r;
    if constexpr (!U) {
        r = " (repeated alternative types: emplace<T>, in_place_type, holds_alternative, get_if<T>, converting construction/assignment are ill-formed in both libraries)";
    } else {
        [&]<std::size_t... Is>(std::index_sequence<Is...>) {
            static constexpr char const* fnm[4] = {"short", "signed char", "bool", "unsigned char"};
            ((kForeignCtorOk<typename At<Is, FL>::type> && kForeignAssignOk<typename At<Is, FL>::type> ? (void)0 : (void)(r += std::string(" ") + fnm[Is])), ...);
        }(std::make_index_sequence<FL::size>{});
    }
    return r;
}

struct VarSubject {
    static constexpr Table table   = make_table();
    static constexpr unsigned kOps = table.n;
    static bool is_mutator(unsigned w) { return (info(table.ops[w]).args & aM) != 0; }
    static constexpr Mutators<Table, OpInfo (*)(Op)> muts{table, &info};
    static unsigned n_mutators() { return muts.n; }
    static unsigned mutator_at(unsigned k) { return muts.idx[k]; }

    VarWorld<Std> s;
    VarWorld<Etl> e;
    std::uint64_t nh = vf::fnv(kName);

    char const* name() const { return kName; }
    static char const* not_provided()
    {
        static std::string str = [] {
            std::string r;
            if (!kHasMemberSwap) { r += "member swap(); "; }
            r += "get<I>/get<T> (etl: unchecked_get / operator[] compared instead); valueless_by_exception; non-alternative argument types skipped because one library rejects them:";
            r += foreign_rejected<ForeignList, kUnique>();
            return r;
        }();
        return str.c_str();
    }
    static char const* label(Op op)
    {
        static std::string labs[kOpCount];
        if (labs[op].empty()) { labs[op] = std::string(kName).substr(0, 24) + " " + info(op).name; }
        return labs[op].c_str();
    }
    std::size_t mi() const { return s.x->index(); }
    long long mv() const { return VarWorld<Std>::active_value(*s.x); }

    void init(vf::Chooser& ch, unsigned nv)
    {
        int form      = (int)ch.pick(kUnique ? 5 : 2);
        std::size_t j = form ? ch.pick((unsigned)N) : 0;
        int v         = form ? (int)ch.pick(nv) : 0;
        static constexpr char const* fn[5] = {"ctor()", "ctor(in_place_index<I>,args)", "ctor(in_place_type<T>,args)", "ctor(T&&) converting", "ctor(T const&) converting"};
        char sit[48];
        std::snprintf(sit, sizeof sit, "to-index-%zu", j);
        vf::crumb(kName, fn[form], sit, "v=%d", v);
        s.construct(form, j, v);
        e.construct(form, j, v);
        Obs so, eo;
        s.observe(so);
        e.observe(eo);
        vf::cover(label(form == 0 ? vCtorDefault : form == 1 ? vCtorInPlaceIndex : form == 2 ? vCtorInPlaceType : form == 3 ? vCtorAltRv : vCtorAltLv),
            vf::mix(nh, vf::mix(form, vf::mix(j, v))), true);
        if (!compare(eo, so)) { e.rebuild(mi(), mv()); }
    }

    void step(unsigned w, vf::Chooser& ch, unsigned nv)
    {
        Op op      = table.ops[w];
        OpInfo inf = info(op);
        Args a;
        if (inf.args & aJ) { a.j = (int)ch.pick((unsigned)N); }
        if (inf.args & aV) { a.v = (int)ch.pick(nv); }
        if (inf.args & aQ4) { a.q = (int)ch.pick(4); }
        if (inf.args & aZ) { a.z = (int)ch.pick((unsigned)N1 * 3); }
        if (inf.args & aY) { a.y = (int)ch.pick((unsigned)N2 * 3); }
        std::size_t i = mi();
        long long st  = mv();
        char sit[96];
        int n = std::snprintf(sit, sizeof sit, "from-index-%zu", i);
        if (inf.args & aJ) { n += std::snprintf(sit + n, sizeof sit - n, ",to-index-%d", a.j); }
        if (op == vAssignForeign || op == vCtorForeign) {
            static constexpr char const* fnm[4] = {"short", "signed char", "bool", "unsigned char"};
            n += std::snprintf(sit + n, sizeof sit - n, ",arg-%s", fnm[a.q]);
        } else if (inf.args & aQ4) {
            static constexpr char const* qn[4] = {"&", "const&", "&&", "const&&"};
            n += std::snprintf(sit + n, sizeof sit - n, ",%s", qn[a.q]);
        }
        if (inf.args & aZ) { n += std::snprintf(sit + n, sizeof sit - n, ",w-index-%d", a.z / 3); }
        if (inf.args & aY) { n += std::snprintf(sit + n, sizeof sit - n, ",u-index-%d", a.y / 3); }
        vf::crumb(kName, inf.name, sit, "state=(index %zu, value %lld) j=%d v=%d q=%d z=%d y=%d", i, st, a.j, a.v, a.q, a.z, a.y);
        Obs so, eo;
        s.apply(op, a, so);
        e.apply(op, a, eo);
        s.observe(so);
        e.observe(eo);
        std::uint64_t h = vf::mix(vf::mix(nh, vf::mix(i, (std::uint64_t)(st + 1000))), vf::mix(op, vf::mix(vf::mix(a.j, a.v), vf::mix(a.q, vf::mix(a.z, a.y)))));
        vf::cover(label(op), h, true);
        if (!compare(eo, so)) { e.rebuild(mi(), mv()); }
    }
};

// compile-time facts compared with std (evaluated once, reported like any other divergence)
void check_traits()
{
    vf::crumb(kName, "type traits", "-", "-");
    vf::eq_int("variant_size_v", etl::variant_size_v<EV<LX>>, std::variant_size_v<SV<LX>>);
    vf::eq_bool("variant_alternative_t<0>", std::is_same_v<etl::variant_alternative_t<0, EV<LX>>, std::variant_alternative_t<0, SV<LX>>>, true);
    vf::eq_bool("variant_alternative_t<N-1>", std::is_same_v<etl::variant_alternative_t<N - 1, EV<LX>>, std::variant_alternative_t<N - 1, SV<LX>>>, true);
    vf::eq_bool("is_default_constructible", std::is_default_constructible_v<EV<LX>>, std::is_default_constructible_v<SV<LX>>);
    vf::eq_bool("is_copy_constructible", std::is_copy_constructible_v<EV<LX>>, std::is_copy_constructible_v<SV<LX>>);
    vf::eq_bool("is_move_constructible", std::is_move_constructible_v<EV<LX>>, std::is_move_constructible_v<SV<LX>>);
    vf::eq_bool("is_copy_assignable", std::is_copy_assignable_v<EV<LX>>, std::is_copy_assignable_v<SV<LX>>);
    vf::eq_bool("is_move_assignable", std::is_move_assignable_v<EV<LX>>, std::is_move_assignable_v<SV<LX>>);
    vf::eq_bool("is_trivially_copyable", std::is_trivially_copyable_v<EV<TL<int, char>>>, std::is_trivially_copyable_v<SV<TL<int, char>>>);
    vf::eq_bool("is_trivially_destructible", std::is_trivially_destructible_v<EV<LX>>, std::is_trivially_destructible_v<SV<LX>>);
    vf::cover("variant type traits", vf::fnv(kName), true);
}

vf::Spec spec(vf::Tier t)
{
    vf::Spec s;
    s.n_enum     = VarSubject::kOps;
    s.n_random   = t == vf::Tier::thorough ? 20000 : 1500;
    s.batch      = 1;
    s.timeout_s  = t == vf::Tier::thorough ? 3000 : 600;
    s.exhaustive = true;
    return s;
}
void run_case(vf::Case& c)
{
    if (c.enumerated) {
        bool th = c.tier == vf::Tier::thorough;
        if (c.index == 0) { check_traits(); }
        enumerate_first_op<VarSubject>((unsigned)c.index, kUnique ? 2 : 3, 3); // the repeated-type lists have few operations: chains of 3
        if (th) { enumerate_first_op<VarSubject>((unsigned)c.index, 3, 2); } // deeper, two payload values
    } else {
        random_history<VarSubject>(c.rng, 50, 3);
    }
}
} // namespace

VF_MAIN("C07", VF_UNIT, spec, run_case)
