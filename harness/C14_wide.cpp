// C14 - the integer utilities that accept *any* integer type, instantiated with __int128 / unsigned __int128
// (DESIGN section 4, C14; adversary round 5).  tetl's own traits do not list the 128-bit types, so every
// constrained family (bit functions, cmp_*, in_range, saturating ops, midpoint, lcm, byteswap, idiv, ipow, ilog2)
// rejects them at compile time - detected with `requires`, recorded as a sample, not a divergence.  The
// unconstrained templates etl::abs and etl::gcd accept them and are compared with straightforward reference code.
// Public tetl API only.
#include "vf.hpp"
#include "vf_contract.hpp"

#include <etl/bit.hpp>
#include <etl/cmath.hpp>
#include <etl/cstdlib.hpp>
#include <etl/numeric.hpp>
#include <etl/utility.hpp>

#include <algorithm>
#include <limits>
#include <string>
#include <type_traits>
#include <vector>

namespace {
using S = __int128;
using U = unsigned __int128;
using ull = unsigned long long;

constexpr U kUmax = ~U(0);
constexpr S kSmax = S(kUmax >> 1);
constexpr S kSmin = -kSmax - 1;

std::string su(U v)
{
    if (v == 0) { return "0"; }
    std::string s;
    while (v != 0) {
        s += char('0' + int(v % 10));
        v /= 10;
    }
    std::reverse(s.begin(), s.end());
    return s;
}
std::string ss(S v) { return v < 0 ? "-" + su(U(0) - U(v)) : su(U(v)); }
template <class T>
std::string show(T v)
{
    if constexpr (std::is_signed_v<T> || std::is_same_v<T, S>) {
        return ss(S(v));
    } else {
        return su(U(v));
    }
}
template <class T>
constexpr char const* tname()
{
    if constexpr (std::is_same_v<T, S>) {
        return "__int128";
    } else if constexpr (std::is_same_v<T, U>) {
        return "unsigned __int128";
    } else if constexpr (std::is_same_v<T, long>) {
        return "int64_t";
    } else if constexpr (std::is_same_v<T, unsigned long>) {
        return "uint64_t";
    } else if constexpr (std::is_same_v<T, int>) {
        return "int32_t";
    } else if constexpr (std::is_same_v<T, unsigned>) {
        return "uint32_t";
    } else if constexpr (std::is_same_v<T, short>) {
        return "int16_t";
    } else {
        return "uint8_t";
    }
}
template <class T>
constexpr bool is_signed_t = std::is_same_v<T, S> || (!std::is_same_v<T, U> && std::is_signed_v<T>);
template <class T>
constexpr int width_t = int(sizeof(T) * 8);
// |v| as an unsigned 128-bit value
template <class T>
U mag(T v)
{
    if constexpr (is_signed_t<T>) {
        if (v < 0) { return U(0) - U(S(v)); }
    }
    return U(v);
}
// largest magnitude representable in T (as a positive value)
template <class T>
constexpr U tmax()
{
    if constexpr (std::is_same_v<T, U>) {
        return kUmax;
    } else if constexpr (std::is_same_v<T, S>) {
        return U(kSmax);
    } else {
        return U(std::numeric_limits<T>::max());
    }
}

// ---------------------------------------------------------------- value sets: 128-bit patterns
std::vector<U> make_structured()
{
    std::vector<U> v;
    for (int k = 0; k < 128; ++k) {
        U p = U(1) << k;
        for (U x : {p, p - 1, p + 1, U(0) - p, U(0) - p - 1, U(0) - p + 1, p | (p >> 1), U(~(p | (p >> 1)))}) { v.push_back(x); }
    }
    for (U s = 0; s <= 17; ++s) {
        v.push_back(s);
        v.push_back(U(0) - s);
    }
    U t = 1;
    for (int i = 0; i < 39; ++i) {
        for (U x : {t, U(0) - t, t - 1, t + 1}) { v.push_back(x); }
        t *= 10;
    }
    ull const pats[] = {0x5555555555555555ull, 0xAAAAAAAAAAAAAAAAull, 0x0F0F0F0F0F0F0F0Full, 0x00FF00FF00FF00FFull, 0x0123456789ABCDEFull,
        0xDEADBEEFCAFEF00Dull, 0x00000000FFFFFFFFull, 0xFFFFFFFF00000000ull};
    for (ull a : pats) {
        for (ull b : pats) { v.push_back((U(a) << 64) | b); }
        v.push_back(a);
        v.push_back(U(a) << 64);
    }
    for (ull s : {6ull, 12ull, 30ull, 210ull, 2310ull, 30030ull, 4294967295ull, 4294967291ull, 18446744073709551557ull, 18446744073709551615ull}) {
        v.push_back(s);
        v.push_back(U(0) - s);
        v.push_back(U(s) * s);
        v.push_back(U(s) * 6);
    }
    std::sort(v.begin(), v.end());
    v.erase(std::unique(v.begin(), v.end()), v.end());
    return v;
}
std::vector<U> const& structured()
{
    static std::vector<U> const v = make_structured();
    return v;
}
// the small grid: every 8th bit +-1, limits, small values
std::vector<U> const& grid()
{
    static std::vector<U> const v = [] {
        std::vector<U> r;
        for (int k = 0; k < 128; k += 8) {
            U p = U(1) << k;
            for (U x : {p, p - 1, p + 1, U(0) - p, U(0) - p + 1}) { r.push_back(x); }
        }
        for (int k : {31, 63, 64, 65, 126, 127}) {
            U p = U(1) << k;
            for (U x : {p, p - 1, p + 1, U(0) - p, U(0) - p - 1, U(0) - p + 1}) { r.push_back(x); }
        }
        for (U s = 0; s <= 12; ++s) {
            r.push_back(s);
            r.push_back(U(0) - s);
        }
        for (ull s : {30ull, 210ull, 30030ull, 4294967295ull, 18446744073709551557ull}) {
            r.push_back(s);
            r.push_back(U(s) * s);
            r.push_back(U(0) - U(s) * 6);
        }
        std::sort(r.begin(), r.end());
        r.erase(std::unique(r.begin(), r.end()), r.end());
        return r;
    }();
    return v;
}
U rnd128(vf::Rng& r)
{
    std::uint64_t m = r.next();
    U v             = 0;
    switch (m & 7) {
    case 0:
    case 1: v = (U(r.next()) << 64) | r.next(); break;
    case 2:
    case 3: { // log-uniform magnitude, random sign
        int len = int((m >> 8) % 129);
        v       = (U(r.next()) << 64) | r.next();
        v       = len == 0 ? 0 : v >> (128 - len);
        if ((m >> 20) & 1) { v = U(0) - v; }
        break;
    }
    case 4: // small
        v = (m >> 8) % 40;
        if ((m >> 20) & 1) { v = U(0) - v; }
        break;
    case 5: // single bit +- delta
        v = (U(1) << ((m >> 8) % 128)) + U((m >> 16) % 5) - 2;
        if ((m >> 20) & 1) { v = U(0) - v; }
        break;
    case 6: { // a structured value
        auto const& s = structured();
        v             = s[r.below(s.size())];
        break;
    }
    default: { // product of two 64-bit-ish factors (common factors for gcd)
        int l1 = int((m >> 8) % 64) + 1, l2 = int((m >> 16) % 64) + 1;
        v      = U(r.next() >> (64 - l1)) * U(r.next() >> (64 - l2));
        if ((m >> 24) & 1) { v = U(0) - v; }
        break;
    }
    }
    return v;
}
// a value of type T from a 128-bit pattern (truncation for narrow types)
template <class T>
T from_bits(U bits)
{
    if constexpr (std::is_same_v<T, U>) {
        return bits;
    } else if constexpr (std::is_same_v<T, S>) {
        return S(bits);
    } else {
        using UT = std::make_unsigned_t<T>;
        return T(UT(ull(bits)));
    }
}
template <class T>
std::vector<T> typed(std::vector<U> const& src)
{
    std::vector<T> v;
    for (U b : src) { v.push_back(from_bits<T>(b)); }
    std::sort(v.begin(), v.end());
    v.erase(std::unique(v.begin(), v.end()), v.end());
    return v;
}

std::string sym_int(U o_mag, bool o_neg, U e_mag, bool e_neg)
{
    // classify obs - exp without overflowing: both as (sign, magnitude)
    if (o_mag == e_mag && o_neg != e_neg) { return "ret:negated"; }
    if (o_neg == e_neg) {
        U d     = o_mag > e_mag ? o_mag - e_mag : e_mag - o_mag;
        bool gt = (o_mag > e_mag) != o_neg;
        if (d <= 2) { return std::string("ret:") + (gt ? "+" : "-") + char('0' + int(d)); }
        if (o_mag == 0) { return "ret:zero"; }
        return gt ? "ret:greater" : "ret:less";
    }
    if (o_mag == 0) { return "ret:zero"; }
    return o_neg ? "ret:less" : "ret:greater";
}
template <class R>
void compare(R obs, R exp, char const* subject, char const* op, char const* sit, std::string const& args)
{
    if (obs == exp) { return; }
    vf::crumb(subject, op, sit, "%s", args.c_str());
    vf::diverge(sym_int(mag(obs), obs < 0, mag(exp), exp < 0).c_str(), show(obs), show(exp));
}

// ---------------------------------------------------------------- abs
template <class T>
void run_abs(bool explicit_t, vf::Case& c, bool random)
{
    std::string subj = std::string(explicit_t ? "abs<T><" : "abs<") + tname<T>() + ">";
    char const* op   = explicit_t ? "abs<T>(x)" : "abs(x)";
    if constexpr (requires(T x) { etl::abs(x); }) {
        std::vector<T> xs;
        if (random) {
            for (int i = 0; i < 8192; ++i) { xs.push_back(from_bits<T>(rnd128(c.rng))); }
        } else {
            xs = typed<T>(structured());
        }
        vf::crumb(subj.c_str(), op, random ? "random" : "structured", "%zu values", xs.size());
        std::uint64_t n = 0;
        for (T x : xs) {
            if constexpr (is_signed_t<T>) {
                if (x == kSmin) { continue; } // |min| is not representable
            }
            T exp            = x < 0 ? T(-x) : x;
            T obs            = explicit_t ? etl::abs<T>(x) : etl::abs(x);
            char const* sit  = x < 0 ? (mag(x) > U(~0ull) ? "neg,beyond-64-bit" : "neg") : (x == 0 ? "zero" : (mag(x) > U(~0ull) ? "pos,beyond-64-bit" : "pos"));
            compare<T>(obs, exp, subj.c_str(), op, sit, "x=" + show(x));
            ++n;
            if (n == 40 && vf::want_sample(subj.c_str())) { vf::sample(subj.c_str(), "%s x=%s -> %s", op, show(x).c_str(), show(exp).c_str()); }
        }
        vf::crumb(subj.c_str(), op, random ? "random" : "structured", "done");
        vf::cover_bulk(subj.c_str(), n, vf::mix(vf::fnv(subj.c_str()), random ? c.id + 77 : 1), random ? std::min<std::uint64_t>(n, 4096) : n);
    } else {
        vf::sample(subj.c_str(), "etl::abs does not accept %s (not a divergence)", tname<T>());
    }
}

// ---------------------------------------------------------------- gcd
U gcd_ref(U a, U b)
{
    while (b != 0) {
        U t = a % b;
        a   = b;
        b   = t;
    }
    return a;
}
template <class M, class N>
void run_gcd(vf::Case& c, int mode) // 0: grid x grid, 1: structured x grid (first arg dense), 2: grid x structured, 3: random
{
    using R          = decltype(true ? M{} : N{}); // usual arithmetic conversions == std::common_type for integers
    std::string subj = std::string("gcd<") + tname<M>() + "," + tname<N>() + ">";
    char const* op   = "gcd(m,n)";
    if constexpr (requires(M m, N n) { etl::gcd(m, n); }) {
        if constexpr (!std::is_same_v<decltype(etl::gcd(M{}, N{})), R>) {
            vf::crumb(subj.c_str(), op, "return-type", "decltype(gcd(m,n))");
            vf::diverge("type:not-common-type", "other", "common_type_t<M,N>");
        }
        std::vector<M> ms;
        std::vector<N> ns;
        char const* cls = "grid-x-grid";
        if (mode == 3) {
            cls = "random";
            for (int i = 0; i < 64; ++i) { ms.push_back(from_bits<M>(rnd128(c.rng))); }
            for (int i = 0; i < 64; ++i) {
                // half of the second arguments share a factor with a first argument
                U b = rnd128(c.rng);
                if (i & 1) { b = U(ms[std::size_t(i) % ms.size()]) * (1 + c.rng.below(30)); }
                ns.push_back(from_bits<N>(b));
            }
        } else {
            ms  = typed<M>(mode == 1 ? structured() : grid());
            ns  = typed<N>(mode == 2 ? structured() : grid());
            cls = mode == 0 ? "grid-x-grid" : mode == 1 ? "structured-x-grid" : "grid-x-structured";
        }
        // modes 1/2 only take a slice of the grid side so one case stays short
        std::size_t nlo = 0, nhi = ns.size(), mlo = 0, mhi = ms.size();
        if (mode == 1) { nhi = std::min<std::size_t>(ns.size(), 24); }
        if (mode == 2) { mhi = std::min<std::size_t>(ms.size(), 24); }
        vf::crumb(subj.c_str(), op, cls, "%zu x %zu", mhi - mlo, nhi - nlo);
        std::uint64_t cnt = 0, fresh = 0;
        std::vector<M> const gm = typed<M>(grid());
        std::vector<N> const gn = typed<N>(grid());
        for (std::size_t j = nlo; j < nhi; ++j) {
            N n = ns[j];
            for (std::size_t i = mlo; i < mhi; ++i) {
                M m = ms[i];
                // std domain: |m| and |n| representable in the common type
                if (mag(m) > tmax<R>() || mag(n) > tmax<R>()) { continue; }
                R exp           = R(gcd_ref(mag(m), mag(n)));
                R obs           = R(etl::gcd(m, n));
                // tuples of the grid x grid block are not counted again
                fresh += (mode == 1 && std::binary_search(gm.begin(), gm.end(), m)) || (mode == 2 && std::binary_search(gn.begin(), gn.end(), n)) ? 0 : 1;
                bool neg        = m < 0 || n < 0;
                bool zero       = m == 0 || n == 0;
                bool wide       = mag(m) > U(~0ull) || mag(n) > U(~0ull);
                char const* sit = (m == 0 && n == 0) ? "both-zero"
                                : zero               ? (neg ? "zero-arg,neg-arg" : "zero-arg")
                                : neg                ? (wide ? "neg-arg,beyond-64-bit" : "neg-arg")
                                                     : (wide ? "both-positive,beyond-64-bit" : "both-positive");
                compare<R>(obs, exp, subj.c_str(), op, sit, "m=" + show(m) + " n=" + show(n));
                ++cnt;
                if (cnt == 1000 && vf::want_sample(subj.c_str())) {
                    vf::sample(subj.c_str(), "%s m=%s n=%s -> %s  [%s]", op, show(m).c_str(), show(n).c_str(), show(exp).c_str(), cls);
                }
            }
        }
        vf::crumb(subj.c_str(), op, cls, "done");
        vf::cover_bulk(subj.c_str(), cnt, vf::mix(vf::fnv(subj.c_str()), mode == 3 ? c.id + 99 : std::uint64_t(mode) + 1),
            mode == 3 ? std::min<std::uint64_t>(cnt, 4096) : fresh);
    } else {
        vf::sample(subj.c_str(), "etl::gcd does not accept (%s,%s) (not a divergence)", tname<M>(), tname<N>());
    }
}

// ---------------------------------------------------------------- families tetl rejects for 128-bit types (recorded, not compared)
template <class T>
void record_absent()
{
    std::string missing, present;
    auto note = [&](bool ok, char const* name) { (ok ? present : missing) += std::string(name) + " "; };
    note(requires(T a) { etl::midpoint(a, a); }, "midpoint");
    note(requires(T a) { etl::lcm(a, a); }, "lcm");
    note(requires(T a) { etl::add_sat(a, a); }, "add_sat");
    note(requires(T a) { etl::div_sat(a, a); }, "div_sat");
    note(requires(T a) { etl::saturate_cast<long>(a); }, "saturate_cast");
    note(requires(T a) { etl::cmp_equal(a, a); }, "cmp_equal");
    note(requires(T a) { etl::cmp_less(a, a); }, "cmp_less");
    note(requires(T a) { etl::in_range<long>(a); }, "in_range");
    note(requires(T a) { etl::idiv(a, a); }, "idiv");
    note(requires(T a) { etl::ipow(a, a); }, "ipow");
    note(requires(T a) { etl::ilog2(a); }, "ilog2");
    note(requires(T a) { etl::byteswap(a); }, "byteswap");
    note(requires(T a) { etl::popcount(a); }, "popcount");
    note(requires(T a) { etl::countl_zero(a); }, "countl_zero");
    note(requires(T a) { etl::countr_zero(a); }, "countr_zero");
    note(requires(T a) { etl::bit_width(a); }, "bit_width");
    note(requires(T a) { etl::bit_ceil(a); }, "bit_ceil");
    note(requires(T a) { etl::bit_floor(a); }, "bit_floor");
    note(requires(T a) { etl::has_single_bit(a); }, "has_single_bit");
    note(requires(T a) { etl::rotl(a, 1); }, "rotl");
    note(requires(T a) { etl::rotr(a, 1); }, "rotr");
    note(requires(T a) { etl::set_bit(a, a); }, "set_bit");
    note(requires(T a) { etl::test_bit(a, a); }, "test_bit");
    std::string label = std::string("api<") + tname<T>() + ">";
    vf::sample(label.c_str(), "rejected at compile time (skipped): %s| accepted but without a 128-bit reference here: %s", missing.c_str(),
        present.empty() ? "(none)" : present.c_str());
}

// ---------------------------------------------------------------- case table
using Fn = void (*)(vf::Case&, int);
struct Entry {
    Fn fn;
    int mode;
};
template <class M, class N>
void gcd_case(vf::Case& c, int mode)
{
    run_gcd<M, N>(c, mode);
}
template <class T>
void abs_case(vf::Case& c, int mode)
{
    run_abs<T>((mode & 1) != 0, c, (mode & 2) != 0);
}
void absent_case(vf::Case&, int)
{
    record_absent<S>();
    record_absent<U>();
}
template <class M, class N>
void add_gcd(std::vector<Entry>& e, std::vector<Entry>& r)
{
    for (int m = 0; m < 3; ++m) { e.push_back({&gcd_case<M, N>, m}); }
    r.push_back({&gcd_case<M, N>, 3});
}
struct Table {
    std::vector<Entry> en, rn;
};
Table const& table()
{
    static Table const t = [] {
        Table q;
        q.en.push_back({&absent_case, 0});
        for (int m = 0; m < 2; ++m) {
            q.en.push_back({&abs_case<S>, m});
            q.en.push_back({&abs_case<U>, m});
            q.rn.push_back({&abs_case<S>, m | 2});
            q.rn.push_back({&abs_case<U>, m | 2});
        }
        add_gcd<S, S>(q.en, q.rn);
        add_gcd<U, U>(q.en, q.rn);
        add_gcd<S, U>(q.en, q.rn);
        add_gcd<U, S>(q.en, q.rn);
        add_gcd<S, long>(q.en, q.rn);
        add_gcd<long, S>(q.en, q.rn);
        add_gcd<S, unsigned long>(q.en, q.rn);
        add_gcd<unsigned long, U>(q.en, q.rn);
        add_gcd<U, int>(q.en, q.rn);
        add_gcd<short, U>(q.en, q.rn);
        add_gcd<unsigned, S>(q.en, q.rn);
        add_gcd<S, unsigned char>(q.en, q.rn);
        return q;
    }();
    return t;
}
vf::Spec spec(vf::Tier t)
{
    vf::Spec s;
    s.n_enum     = table().en.size();
    s.n_random   = table().rn.size() * (t == vf::Tier::thorough ? 64u : 4u);
    s.batch      = 2;
    s.timeout_s  = 120;
    s.exhaustive = true;
    return s;
}
void run_case(vf::Case& c)
{
    Table const& t = table();
    Entry const& e = c.enumerated ? t.en[c.index] : t.rn[c.index % t.rn.size()];
    e.fn(c, e.mode);
}
} // namespace

VF_MAIN("C14", "C14_wide", spec, run_case)
