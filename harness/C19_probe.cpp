// C19 - probe units: members that are declared but not defined upstream, and valid programs that did not
// compile on the tree this monitor was written against.  One probe per binary (-DVF_PROBE=n) so that a
// compile/link failure of one cannot hide the others or the main monitors.  A probe that builds is an ordinary
// (small) monitor: it checks the member against the closed-form model over all shapes of a few extents types.
//   1 layout_stride::mapping of rank 0 with explicit (empty) strides
//   2 as_bytes / as_writable_bytes on static-extent spans
//   3 mdspan(mdarray) class template argument deduction
//   4 layout_stride::mapping::required_span_size()
//   5 layout_stride::mapping::is_exhaustive()
//   6 layout_stride::mapping operator==
//   7 layout_stride::mapping(StridedLayoutMapping const&)   (from layout_left / layout_right mappings)
//   8 layout_left / layout_right ::mapping(layout_stride::mapping const&)
//   9 submdspan_extents(extents, full_extent / index ...) - order and values of the kept extents
//  10 submdspan_extents with run-time index-pair slices  [first,last)
//  11 submdspan_extents with index-pair slices of integral constants (static result extent)
//  12 mdspan copy/move assignment and swap (std::mdspan has them; a user-declared move constructor deletes the implicit ones)
#include "vf.hpp"
#include "vf_contract.hpp"

#include "vf_c19.hpp"

#include <etl/mdarray.hpp>
#include <etl/type_traits.hpp>
#include <etl/utility.hpp>

#include <algorithm>

#ifndef VF_PROBE
    #error "VF_PROBE required"
#endif

namespace {
using namespace c19;

// extents types swept by the mapping probes: every shape in {0..4}^rank on the dynamic positions
template <std::size_t K>
struct pt;
template <>
struct pt<0> {
    using type = etl::extents<Idx>;
};
template <>
struct pt<1> {
    using type = etl::extents<Idx, dyn>;
};
template <>
struct pt<2> {
    using type = etl::extents<Idx, dyn, dyn>;
};
template <>
struct pt<3> {
    using type = etl::extents<Idx, 3, dyn>;
};
template <>
struct pt<4> {
    using type = etl::extents<Idx, dyn, dyn, dyn>;
};
template <>
struct pt<5> {
    using type = etl::extents<Idx, dyn, 0, 2>;
};
template <>
struct pt<6> {
    using type = etl::extents<Idx, 2, dyn, 4, dyn>;
};
constexpr std::size_t NPT = 7;

struct Ctx {
    PInfo p;
    Arr shape;
    std::string sit, desc;
    std::uint64_t h;
    vf::Rng* rng;
};
void crumb(Ctx const& c, char const* subj, char const* op, std::string const& extra = "")
{
    vf::crumb(subj, op, c.sit.c_str(), "E=<%s> shape=%s %s", c.p.name, c.desc.c_str(), extra.c_str());
}
std::vector<Model> stride_sets(Ctx const& c, std::size_t R)
{
    std::vector<Model> v;
    unsigned const nperm = factorial(R);
    static constexpr LL ps[4][2] = {{0, 1}, {1, 1}, {0, 2}, {3, 2}};
    for (unsigned p = 0; p < nperm; ++p) {
        for (auto const& q : ps) {
            Model m = model_strided(c.shape, R, p, q[0], q[1]);
            if (fits<Idx>(m.span()) && fits<Idx>(m.max_stride() * 5)) { v.push_back(m); }
        }
    }
    return v;
}
template <typename E>
etl::layout_stride::mapping<E> make_strided(E const& e, Model const& m)
{
    etl::array<Idx, E::rank()> sa{};
    for (std::size_t r = 0; r < E::rank(); ++r) { sa[r] = static_cast<Idx>(m.st[r]); }
    return etl::layout_stride::mapping<E>(e, sa);
}
// exhaustive <=> some ordering of the dimensions has stride 1 first and each next stride = previous stride * previous extent
bool model_exhaustive(Model const& m)
{
    if (m.R == 0) { return true; }
    std::size_t idx[MAXR] = {0, 1, 2, 3};
    std::sort(idx, idx + m.R);
    do {
        bool ok = m.st[idx[0]] == 1;
        for (std::size_t k = 1; ok && k < m.R; ++k) { ok = m.st[idx[k]] == m.st[idx[k - 1]] * m.e[idx[k - 1]]; }
        if (ok) { return true; }
    } while (std::next_permutation(idx, idx + m.R));
    return false;
}

#if VF_PROBE == 1
constexpr char const* PNAME = "stride_rank0";
constexpr std::uint64_t NCASE = 1;
void probe(Ctx& c, std::size_t)
{
    using E = etl::extents<Idx>;
    using M = etl::layout_stride::mapping<E>;
    c.sit   = "rank0,rank0";
    char const* s = "layout_stride::mapping";
    crumb(c, s, "mapping(extents,array<T,0>)");
    M const m(E{}, etl::array<Idx, 0>{});
    vf::cover("mapping(extents,array<T,0>)", 1, true);
    crumb(c, s, "operator()()");
    vf::eq_int("offset", (LL)m(), 0);
    vf::cover("operator()()", 1, true);
    vf::eq_bool("is_unique", m.is_unique(), true);
    vf::eq_bool("is_strided", m.is_strided(), true);
    crumb(c, s, "mapping(extents,span<T,0>)");
    M const m2(E{}, etl::span<Idx, 0>{});
    vf::eq_int("offset", (LL)m2(), 0);
    vf::cover("mapping(extents,span<T,0>)", 1, true);
    // rank-0 mdspan over one cell with the strided layout
    vf::Buf<Cell> b(1);
    b[0] = Cell{0, -1};
    crumb(c, "mdspan<layout_stride>", "mdspan(ptr,mapping)");
    etl::mdspan<Cell, E, etl::layout_stride> const md(b.data(), m);
    vf::eq_bool("element-address", &md() == b.data(), true);
    vf::eq_int("size()", (LL)md.size(), 1);
    vf::cover("mdspan(ptr,mapping)", 1, true);
    b.check("cell");
}
#elif VF_PROBE == 2
constexpr char const* PNAME = "span_bytes";
constexpr std::uint64_t NCASE = 7;
template <typename T, std::size_t N>
void bytes_one(Ctx& c)
{
    c.sit = N == 0 ? "empty" : "nonempty";
    vf::Buf<T> b(N);
    etl::span<T, N> const sp(b.data(), N);
    crumb(c, "span<T,static>", "as_bytes(span)");
    auto by = etl::as_bytes(sp);
    vf::cover("as_bytes(span)", vf::mix(N, sizeof(T)), N > 0);
    vf::eq_bool("as_bytes:data()", static_cast<void const*>(by.data()) == static_cast<void const*>(b.data()), true);
    vf::eq_int("as_bytes:size()", (LL)by.size(), (LL)(N * sizeof(T)));
    vf::eq_int("as_bytes:extent", (LL)decltype(by)::extent, (LL)(N * sizeof(T)));
    crumb(c, "span<T,static>", "as_writable_bytes(span)");
    auto wb = etl::as_writable_bytes(sp);
    vf::cover("as_writable_bytes(span)", vf::mix(N, sizeof(T)), N > 0);
    vf::eq_bool("as_writable_bytes:data()", static_cast<void*>(wb.data()) == static_cast<void*>(b.data()), true);
    vf::eq_int("as_writable_bytes:size()", (LL)wb.size(), (LL)(N * sizeof(T)));
    vf::eq_int("as_writable_bytes:extent", (LL)decltype(wb)::extent, (LL)(N * sizeof(T)));
    b.check("span block");
}
template <std::size_t N>
void bytes_n(Ctx& c)
{
    bytes_one<unsigned char, N>(c);
    bytes_one<int, N>(c);
    bytes_one<Cell, N>(c);
}
void probe(Ctx& c, std::size_t k)
{
    [&]<std::size_t... Ns>(std::index_sequence<Ns...>) {
        using fn_t              = void (*)(Ctx&);
        static fn_t const tab[] = {&bytes_n<Ns>...};
        tab[k](c);
    }(std::make_index_sequence<7>{});
}
#elif VF_PROBE == 3
constexpr char const* PNAME = "ctad_mdarray";
constexpr std::uint64_t NCASE = 25;
void probe(Ctx& c, std::size_t k)
{
    using E = etl::extents<Idx, dyn, dyn>;
    using A = etl::mdarray<Cell, E, etl::layout_left, BufVec<Cell>>;
    c.p     = pinfo<E>();
    c.shape = shape_of(c.p, k);
    c.sit   = situation(c.p, c.shape);
    c.desc  = show(c.shape, 2);
    Model const mod = model_left(c.shape, 2);
    A a(make_extents<E>(c.shape));
    crumb(c, "mdspan", "mdspan(mdarray) deduction");
    auto md = etl::mdspan(a);
    static_assert(std::is_same_v<decltype(md), etl::mdspan<Cell, E, etl::layout_left>>);
    vf::cover("mdspan(mdarray) deduction", k, true);
    vf::eq_bool("data_handle()==container_data()", md.data_handle() == a.container_data(), true);
    std::vector<LL> got;
    Arr i{};
    if (!mod.empty()) {
        do {
            got.push_back((LL)(&md(static_cast<Idx>(i[0]), static_cast<Idx>(i[1])) - a.container_data()));
        } while (next(i, mod.e, 2));
    }
    judge_offsets("operator()(index_type...)", got, mod, k, "element-address");
}
#elif VF_PROBE >= 4 && VF_PROBE <= 8
    #if VF_PROBE == 4
constexpr char const* PNAME = "stride_rss";
    #elif VF_PROBE == 5
constexpr char const* PNAME = "stride_exh";
    #elif VF_PROBE == 6
constexpr char const* PNAME = "stride_eq";
    #elif VF_PROBE == 7
constexpr char const* PNAME = "stride_from";
    #else
constexpr char const* PNAME = "canon_from_stride";
    #endif
constexpr std::uint64_t NCASE = 1 + 5 + 25 + 5 + 125 + 5 + 25;

template <typename M>
void sweep_vs(Ctx const& c, char const* s, char const* op, M const& m, Model const& mod, std::uint64_t salt)
{
    constexpr std::size_t R = M::extents_type::rank();
    std::vector<LL> got;
    Arr i{};
    if (!mod.empty()) {
        do {
            crumb(c, s, op, "idx=" + show(i, R));
            got.push_back((LL)call_idx<Idx, R>(m, i));
        } while (next(i, mod.e, R));
    }
    judge_offsets(op, got, mod, vf::mix(c.h, salt));
}

template <std::size_t K>
struct One {
    static void run(Ctx& c, std::uint64_t s)
    {
        using E                 = typename pt<K>::type;
        constexpr std::size_t R = E::rank();
        c.p                     = pinfo<E>();
        c.shape                 = shape_of(c.p, s);
        if (!fits<Idx>(product(c.shape, R))) { return; }
        c.sit      = situation(c.p, c.shape);
        c.desc     = show(c.shape, R);
        c.h        = hash_arr(c.shape, R, K + 100);
        E const e  = make_extents<E>(c.shape);
        using MS   = etl::layout_stride::mapping<E>;
        char const* sn = "layout_stride::mapping";
        std::uint64_t n = 0;
    #if VF_PROBE == 7
        // layout_stride::mapping from the canonical mappings
        {
            etl::layout_left::mapping<E> const ml(e);
            crumb(c, sn, "mapping(layout_left::mapping)");
            MS const m(ml);
            vf::cover("mapping(layout_left::mapping)", c.h, R > 0);
            Model const mod = model_left(c.shape, R);
            for (std::size_t r = 0; r < R; ++r) { vf::eq_int("stride(r)", (LL)m.stride(r), mod.st[r]); }
            sweep_vs(c, sn, "mapping(layout_left::mapping)", m, mod, 1);
            etl::layout_right::mapping<E> const mr(e);
            crumb(c, sn, "mapping(layout_right::mapping)");
            MS const m2(mr);
            vf::cover("mapping(layout_right::mapping)", c.h, R > 0);
            Model const mod2 = model_right(c.shape, R);
            for (std::size_t r = 0; r < R; ++r) { vf::eq_int("stride(r)", (LL)m2.stride(r), mod2.st[r]); }
            sweep_vs(c, sn, "mapping(layout_right::mapping)", m2, mod2, 2);
        }
    #elif VF_PROBE == 8
        // canonical mappings from a layout_stride mapping with exactly their strides (the only inputs in the domain)
        if constexpr (R > 0) {
            Model const ml = model_left(c.shape, R);
            Model const mr = model_right(c.shape, R);
            bool const ok  = fits<Idx>(ml.max_stride() * 5) && fits<Idx>(mr.max_stride() * 5);
            if (ok) {
                MS const sl = make_strided(e, ml);
                crumb(c, "layout_left::mapping", "mapping(layout_stride::mapping)");
                etl::layout_left::mapping<E> const m(sl);
                vf::cover("layout_left::mapping(layout_stride::mapping)", c.h, true);
                sweep_vs(c, "layout_left::mapping", "mapping(layout_stride::mapping)", m, ml, 1);
                MS const sr = make_strided(e, mr);
                crumb(c, "layout_right::mapping", "mapping(layout_stride::mapping)");
                etl::layout_right::mapping<E> const m2(sr);
                vf::cover("layout_right::mapping(layout_stride::mapping)", c.h, true);
                sweep_vs(c, "layout_right::mapping", "mapping(layout_stride::mapping)", m2, mr, 2);
            }
        }
    #else
        if constexpr (R > 0) {
            Model prev{};
            bool have_prev = false;
            for (Model const& mod : stride_sets(c, R)) {
                ++n;
                std::string const ss = "strides=" + show(mod.st, R);
                MS const m           = make_strided(e, mod);
        #if VF_PROBE == 4
                crumb(c, sn, "required_span_size()", ss);
                LL const got = (LL)m.required_span_size();
                vf::cover("required_span_size()", vf::mix(c.h, n), true);
                vf::eq_int("required_span_size", got, mod.span());
                if (n == 1) {
                    // what needs it: mdarray(mapping) sizes its container with it
                    using A = etl::mdarray<Cell, E, etl::layout_stride, BufVec<Cell>>;
                    crumb(c, "mdarray<layout_stride>", "mdarray(mapping)", ss);
                    A a(m);
                    vf::cover("mdarray(mapping)", vf::mix(c.h, n), true);
                    vf::eq_int("container_size()", (LL)a.container_size(), mod.span());
                    crumb(c, "mdarray<layout_stride>", "mdarray(mapping,value)", ss);
                    A a2(m, Cell{4, 2});
                    vf::cover("mdarray(mapping,value)", vf::mix(c.h, n), true);
                    vf::eq_int("container_size()", (LL)a2.container_size(), mod.span());
                }
        #elif VF_PROBE == 5
                crumb(c, sn, "is_exhaustive()", ss);
                bool const got = m.is_exhaustive();
                vf::cover("is_exhaustive()", vf::mix(c.h, n), true);
                vf::eq_bool("is_exhaustive", got, model_exhaustive(mod));
        #elif VF_PROBE == 6
                crumb(c, sn, "operator==", ss);
                MS const same = make_strided(e, mod);
                vf::eq_bool("operator==:same-strides", m == same, true);
                if (have_prev && prev.st != mod.st) {
                    MS const other = make_strided(e, prev);
                    vf::eq_bool("operator==:other-strides", m == other, false);
                }
                vf::cover("operator==", vf::mix(c.h, n), true);
                prev      = mod;
                have_prev = true;
        #endif
            }
        }
        #if VF_PROBE == 4
        else {
            MS const m{}; // rank 0: the default mapping is the only one (explicit empty strides are probe 1)
            crumb(c, sn, "required_span_size()");
            vf::eq_int("required_span_size", (LL)m.required_span_size(), 1);
            vf::cover("required_span_size()", c.h, false);
        }
        #endif
    #endif
    }
};
void probe(Ctx& c, std::size_t k)
{
    // k -> (extents type, shape)
    static std::uint64_t const counts[NPT] = {1, 5, 25, 5, 125, 5, 25};
    std::size_t t                          = 0;
    std::uint64_t s                        = k;
    while (s >= counts[t]) {
        s -= counts[t];
        ++t;
    }
    [&]<std::size_t... Ks>(std::index_sequence<Ks...>) {
        using fn_t              = void (*)(Ctx&, std::uint64_t);
        static fn_t const tab[] = {&One<Ks>::run...};
        tab[t](c, s);
    }(std::make_index_sequence<NPT>{});
}
#elif VF_PROBE == 9
constexpr char const* PNAME = "subext";
constexpr std::uint64_t NCASE = 25;
template <typename X>
void expect_ext(Ctx const& c, char const* op, X const& x, std::initializer_list<LL> exp, std::initializer_list<std::size_t> exp_static)
{
    vf::cover(op, c.h, true);
    vf::eq_int("rank", (LL)X::rank(), (LL)exp.size());
    std::size_t r = 0;
    auto st       = exp_static.begin();
    for (LL v : exp) {
        if (r < X::rank()) {
            vf::eq_int("extent(r)", (LL)x.extent(r), v);
            vf::eq_bool(*st == dyn ? "static_extent(r)==dynamic_extent" : "static_extent(r)==source-static-extent", X::static_extent(r) == *st, true);
        }
        ++r;
        ++st;
    }
}
void probe(Ctx& c, std::size_t k)
{
    using E  = etl::extents<Idx, dyn, 3, dyn>;
    using E2 = etl::extents<Idx, 2, dyn, dyn>;
    c.p      = pinfo<E>();
    c.shape  = shape_of(c.p, k % 25);
    c.sit    = situation(c.p, c.shape);
    c.desc   = show(c.shape, 3);
    c.h      = hash_arr(c.shape, 3, 900);
    LL const a = c.shape[0], b = c.shape[2];
    E const e  = make_extents<E>(c.shape);
    char const* s = "submdspan_extents";
    crumb(c, s, "(full,full,full)");
    expect_ext(c, "(full,full,full)", etl::submdspan_extents(e, etl::full_extent, etl::full_extent, etl::full_extent), {a, 3, b}, {dyn, 3, dyn});
    crumb(c, s, "(index,full,full)");
    if (a > 0) { expect_ext(c, "(index,full,full)", etl::submdspan_extents(e, 0, etl::full_extent, etl::full_extent), {3, b}, {3, dyn}); }
    crumb(c, s, "(full,index,full)");
    expect_ext(c, "(full,index,full)", etl::submdspan_extents(e, etl::full_extent, 1, etl::full_extent), {a, b}, {dyn, dyn});
    crumb(c, s, "(full,full,index)");
    if (b > 0) { expect_ext(c, "(full,full,index)", etl::submdspan_extents(e, etl::full_extent, etl::full_extent, 0), {a, 3}, {dyn, 3}); }
    crumb(c, s, "(index,index,full)");
    if (a > 0) { expect_ext(c, "(index,index,full)", etl::submdspan_extents(e, 0, 2, etl::full_extent), {b}, {dyn}); }
    crumb(c, s, "(index,index,index)");
    if (a > 0 && b > 0) { expect_ext(c, "(index,index,index)", etl::submdspan_extents(e, 0, 2, 0), {}, {}); }
    // a second pattern with the static extent first
    Arr sh2{2, a, b, 0};
    E2 const e2 = make_extents<E2>(sh2);
    crumb(c, s, "(full,full,full):static-first");
    expect_ext(c, "(full,full,full):static-first", etl::submdspan_extents(e2, etl::full_extent, etl::full_extent, etl::full_extent), {2, a, b}, {2, dyn, dyn});
    crumb(c, s, "(full,index,full):static-first");
    if (a > 0) { expect_ext(c, "(full,index,full):static-first", etl::submdspan_extents(e2, etl::full_extent, 0, etl::full_extent), {2, b}, {2, dyn}); }
}
#elif VF_PROBE == 10 || VF_PROBE == 11
    #if VF_PROBE == 10
constexpr char const* PNAME = "subext_pair";
    #else
constexpr char const* PNAME = "subext_cpair";
    #endif
constexpr std::uint64_t NCASE = 25;
template <typename X>
void expect_ext(Ctx const& c, char const* op, X const& x, std::initializer_list<LL> exp, std::initializer_list<std::size_t> exp_static, std::uint64_t salt)
{
    vf::cover(op, vf::mix(c.h, salt), true);
    vf::eq_int("rank", (LL)X::rank(), (LL)exp.size());
    std::size_t r = 0;
    auto st       = exp_static.begin();
    for (LL v : exp) {
        if (r < X::rank()) {
            vf::eq_int(r == 0 ? "extent(0)" : (r == 1 ? "extent(1)" : "extent(2)"), (LL)x.extent(r), v);
            vf::eq_bool("static_extent(r)", X::static_extent(r) == *st, true);
        }
        ++r;
        ++st;
    }
}
void probe(Ctx& c, std::size_t k)
{
    using E = etl::extents<Idx, dyn, 3, dyn>;
    c.p     = pinfo<E>();
    c.shape = shape_of(c.p, k);
    c.sit   = situation(c.p, c.shape);
    c.desc  = show(c.shape, 3);
    c.h     = hash_arr(c.shape, 3, 901);
    LL const a = c.shape[0], b = c.shape[2];
    E const e  = make_extents<E>(c.shape);
    char const* s = "submdspan_extents";
    #if VF_PROBE == 10
    using P = etl::pair<Idx, Idx>;
    for (LL f = 0; f <= a; ++f) {
        for (LL l = f; l <= a; ++l) {
            std::string const ar = "pair=[" + std::to_string(f) + "," + std::to_string(l) + ")";
            crumb(c, s, "(pair,full,full)", ar);
            expect_ext(c, "(pair,full,full)", etl::submdspan_extents(e, P{(Idx)f, (Idx)l}, etl::full_extent, etl::full_extent), {l - f, 3, b}, {dyn, 3, dyn}, (std::uint64_t)(f * 8 + l));
            if (b > 0) {
                crumb(c, s, "(pair,full,index)", ar);
                expect_ext(c, "(pair,full,index)", etl::submdspan_extents(e, P{(Idx)f, (Idx)l}, etl::full_extent, 0), {l - f, 3}, {dyn, 3}, (std::uint64_t)(f * 8 + l));
            }
        }
    }
    for (LL f = 0; f <= 3; ++f) {
        for (LL l = f; l <= 3; ++l) {
            std::string const ar = "pair=[" + std::to_string(f) + "," + std::to_string(l) + ")";
            crumb(c, s, "(full,pair,full)", ar);
            expect_ext(c, "(full,pair,full)", etl::submdspan_extents(e, etl::full_extent, P{(Idx)f, (Idx)l}, etl::full_extent), {a, l - f, b}, {dyn, dyn, dyn}, (std::uint64_t)(f * 8 + l));
            for (LL f2 = 0; f2 <= b; ++f2) {
                crumb(c, s, "(full,pair,pair)", ar);
                expect_ext(c, "(full,pair,pair)", etl::submdspan_extents(e, etl::full_extent, P{(Idx)f, (Idx)l}, P{(Idx)f2, (Idx)b}), {a, l - f, b - f2}, {dyn, dyn, dyn}, (std::uint64_t)(f * 64 + l * 8 + f2));
            }
        }
    }
    #else
    using P13 = etl::pair<etl::integral_constant<Idx, 1>, etl::integral_constant<Idx, 3>>;
    using P02 = etl::pair<etl::integral_constant<Idx, 0>, etl::integral_constant<Idx, 2>>;
    using P22 = etl::pair<etl::integral_constant<Idx, 2>, etl::integral_constant<Idx, 2>>;
    crumb(c, s, "(full,pair<ic,ic>,full)", "[1,3)");
    expect_ext(c, "(full,pair<ic,ic>,full)", etl::submdspan_extents(e, etl::full_extent, P13{}, etl::full_extent), {a, 2, b}, {dyn, 2, dyn}, 1);
    crumb(c, s, "(full,pair<ic,ic>,full)", "[0,2)");
    expect_ext(c, "(full,pair<ic,ic>,full)", etl::submdspan_extents(e, etl::full_extent, P02{}, etl::full_extent), {a, 2, b}, {dyn, 2, dyn}, 2);
    crumb(c, s, "(full,pair<ic,ic>,full)", "[2,2)");
    expect_ext(c, "(full,pair<ic,ic>,full)", etl::submdspan_extents(e, etl::full_extent, P22{}, etl::full_extent), {a, 0, b}, {dyn, 0, dyn}, 3);
    if (a > 0) {
        crumb(c, s, "(index,pair<ic,ic>,full)", "[1,3)");
        expect_ext(c, "(index,pair<ic,ic>,full)", etl::submdspan_extents(e, 0, P13{}, etl::full_extent), {2, b}, {2, dyn}, 4);
    }
    #endif
}
#elif VF_PROBE == 12
constexpr char const* PNAME = "mdspan_assign";
constexpr std::uint64_t NCASE = 25;
void probe(Ctx& c, std::size_t k)
{
    using E  = etl::extents<Idx, dyn, dyn>;
    using MD = etl::mdspan<Cell, E, etl::layout_left>;
    static_assert(std::is_copy_assignable_v<MD>, "mdspan must be copy assignable");
    static_assert(std::is_move_assignable_v<MD>, "mdspan must be move assignable");
    c.p     = pinfo<E>();
    c.shape = shape_of(c.p, k);
    c.sit   = situation(c.p, c.shape);
    c.desc  = show(c.shape, 2);
    Arr const sh2   = other_shape(c.p, c.shape);
    Model const m1  = model_left(c.shape, 2), m2 = model_left(sh2, 2);
    vf::Buf<Cell> b1((std::size_t)m1.span()), b2((std::size_t)m2.span());
    MD x(b1.data(), make_extents<E>(c.shape));
    MD y(b2.data(), make_extents<E>(sh2));
    auto verify = [&](char const* op, MD const& md, Cell* base, Model const& mod, std::uint64_t salt) {
        vf::cover(op, vf::mix(k, salt), true);
        vf::eq_bool("data_handle()", md.data_handle() == base, true);
        std::vector<LL> got;
        Arr i{};
        if (!mod.empty()) {
            do { got.push_back((LL)(&md(static_cast<Idx>(i[0]), static_cast<Idx>(i[1])) - base)); } while (next(i, mod.e, 2));
        }
        for (std::size_t r = 0; r < 2; ++r) { vf::eq_int("extent(r)", (LL)md.extent(r), mod.e[r]); }
        judge_offsets("operator()(index_type...)", got, mod, vf::mix(k, salt), "element-address");
    };
    crumb(c, "mdspan", "operator=(mdspan const&)");
    x = y;
    verify("operator=(mdspan const&)", x, b2.data(), m2, 1);
    crumb(c, "mdspan", "operator=(mdspan&&)");
    x = MD(b1.data(), make_extents<E>(c.shape));
    verify("operator=(mdspan&&)", x, b1.data(), m1, 2);
    crumb(c, "mdspan", "swap(mdspan&,mdspan&)");
    swap(x, y);
    verify("swap(mdspan&,mdspan&)", x, b2.data(), m2, 3);
    verify("swap(mdspan&,mdspan&)", y, b1.data(), m1, 4);
}
#else
    #error "unknown VF_PROBE"
#endif

vf::Spec spec(vf::Tier)
{
    vf::Spec s;
    s.n_enum     = NCASE;
    s.n_random   = 0;
    s.batch      = 16;
    s.exhaustive = true;
    return s;
}
void run_case(vf::Case& c)
{
    Ctx x;
    x.p     = PInfo{};
    x.shape = Arr{};
    x.sit   = "probe";
    x.h     = c.index + 1;
    x.rng   = &c.rng;
    if (vf::want_sample("probe")) { vf::sample("probe", "%s: builds and runs on this tree (the member is observable)", PNAME); }
    probe(x, (std::size_t)c.index);
}
} // namespace

#define VF_STR2(x) #x
#define VF_STR(x) VF_STR2(x)
VF_MAIN("C19", "C19_probe_" VF_STR(VF_PROBE), spec, run_case)
