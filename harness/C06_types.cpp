// C06 - arithmetic element types through raw pointers: signed char (with negatives), char, unsigned char (>= 0x80),
//       short (values whose low byte is 0), float (-0.0 / +0.0 compare equal but differ bitwise)  vs libstdc++.
// Type-specific fast paths (memcmp / memcpy / memmove keyed on sizeof or triviality) are a realistic change in
// any of the comparison- and copy-based algorithms; they only show with these element types and raw pointers.
// -DC06_TYPES_PART=1: signed char, char   =2: unsigned char, short   =3: float
#include "vf.hpp"
#include "vf_contract.hpp"
#include "vf_algo_tests.hpp"

#ifndef C06_TYPES_PART
    #define C06_TYPES_PART 1
#endif

namespace c06 {

template <typename T>
struct TV;
template <>
struct TV<signed char> {
    static constexpr char const* name = "ptr<signed char>";
    static signed char val(int k)
    {
        static signed char const v[5] = {-2, 1, 0, -1, 5};
        return v[k % 5];
    }
};
template <>
struct TV<char> {
    static constexpr char const* name = "ptr<char>";
    static char val(int k)
    {
        static char const v[5] = {'a', (char)0xE9, '\0', 'b', 'z'};
        return v[k % 5];
    }
};
template <>
struct TV<unsigned char> {
    static constexpr char const* name = "ptr<unsigned char>";
    static unsigned char val(int k)
    {
        static unsigned char const v[5] = {0, 200, 100, 255, 7};
        return v[k % 5];
    }
};
template <>
struct TV<short> {
    static constexpr char const* name = "ptr<short>";
    static short val(int k)
    {
        static short const v[5] = {-300, 7, 256, 0, 1000};
        return v[k % 5];
    }
};
template <>
struct TV<float> {
    static constexpr char const* name = "ptr<float>";
    static float val(int k)
    {
        static float const v[5] = {-0.0f, 0.0f, 1.5f, -2.25f, 9.0f};
        return v[k % 5];
    }
};

template <typename T>
std::vector<T> vals(Seq const& s)
{
    std::vector<T> v;
    for (auto const& e : s) { v.push_back(TV<T>::val(e.key)); }
    return v;
}
template <typename T>
std::string shw(std::vector<T> const& v)
{
    std::string o = "[";
    for (std::size_t i = 0; i < v.size(); ++i) {
        char b[32];
        std::snprintf(b, sizeof b, "%s%g", i ? " " : "", (double)v[i]);
        o += b;
    }
    return o + "]";
}
template <typename T>
bool bits_eq(std::vector<T> const& a, std::vector<T> const& b)
{
    return a.size() == b.size() && (a.empty() || std::memcmp(a.data(), b.data(), a.size() * sizeof(T)) == 0);
}
// bitwise (copies, stable results) or by value (results whose order among equal elements is unspecified)
template <typename T>
bool same(Trial& t, char const* name, std::vector<T> const& obs, std::vector<T> const& exp, bool bitwise = true)
{
    if (!t.clean) { return true; }
    bool ok = bitwise ? bits_eq(obs, exp) : obs == exp;
    if (ok) { return true; }
    char sym[96];
    std::snprintf(sym, sizeof sym, "%s:%s", name, obs.size() != exp.size() ? "length" : "values-differ");
    vf::diverge(sym, shw(obs), shw(exp));
    return false;
}
template <typename T>
void fin(Trial& t, Range<T>& r, std::vector<T> const& orig)
{
    same(t, "input", r.get(), orig);
    t.guards(r);
    t.done();
}

// ---------------------------------------------------------------- two ranges: comparison / search
template <typename T>
void pair_cmp(Ctx& c, std::vector<T> const& x, std::vector<T> const& y, int which)
{
    char const* K       = TV<T>::name;
    std::size_t const nx = x.size(), ny = y.size();
    std::string const d = "x=" + shw(x) + " y=" + shw(y);
    LenHint lh(nx);
    std::uint64_t const hb = vf::mix(vf::fnv_bytes(x.data(), nx * sizeof(T)), vf::mix(vf::fnv_bytes(y.data(), ny * sizeof(T)), (std::uint64_t)which));
    auto rel = [&] { return nx == ny ? "len2=len1" : (ny < nx ? "len2<len1" : "len2>len1"); };
    for (Pres pr : pres_for<KPtr>(nx)) {
        Pres pr2 = pres2(pr, ny);
#define T2(OP, H, EXTRA, ...)                                                                                          \
    do {                                                                                                               \
        char ex_[64];                                                                                                  \
        std::snprintf(ex_, sizeof ex_, "%s,%s", rel(), EXTRA);                                                         \
        Trial t(c, K, OP, pr, ex_, vf::mix(hb, H), "%s", d.c_str());                                                   \
        Range<T> r1(x, pr, false), r2(y, pr2, false);                                                                  \
        T const *f1 = r1.lo, *l1 = r1.hi, *f2 = r2.lo, *l2 = r2.hi;                                                    \
        (void)f1; (void)l1; (void)f2; (void)l2;                                                                        \
        __VA_ARGS__;                                                                                                        \
        same(t, "input2", r2.get(), y);                                                                                \
        t.guards(r2);                                                                                                  \
        fin(t, r1, x);                                                                                                 \
    } while (0)
        {
            bool se = std::lexicographical_compare(x.begin(), x.end(), y.begin(), y.end());
            T2("lexicographical_compare(f1,l1,f2,l2)", 1, se ? "true" : "false",
                t.boolean("ret", t.call([&] { return etl::lexicographical_compare(f1, l1, f2, l2); }), se));
            T2("lexicographical_compare(f1,l1,f2,l2,c)/etl::less<>", 2, se ? "true" : "false",
                t.boolean("ret", t.call([&] { return etl::lexicographical_compare(f1, l1, f2, l2, etl::less<>{}); }), se));
            bool sg = std::lexicographical_compare(x.begin(), x.end(), y.begin(), y.end(), std::greater<>{});
            T2("lexicographical_compare(f1,l1,f2,l2,c)/etl::greater<T>", 3, sg ? "true" : "false",
                t.boolean("ret", t.call([&] { return etl::lexicographical_compare(f1, l1, f2, l2, etl::greater<T>{}); }), sg));
        }
        {
            bool se = std::equal(x.begin(), x.end(), y.begin(), y.end());
            T2("equal(f1,l1,f2,l2)", 4, se ? "true" : "false", t.boolean("ret", t.call([&] { return etl::equal(f1, l1, f2, l2); }), se));
            auto sp = std::mismatch(x.begin(), x.end(), y.begin(), y.end());
            T2("mismatch(f1,l1,f2,l2)", 5, (sp.first == x.end() || sp.second == y.end()) ? "to-end" : "differ", {
                auto ep = t.call([&] { return etl::mismatch(f1, l1, f2, l2); });
                t.off("ret.first", ep.first - f1, sp.first - x.begin());
                t.off("ret.second", ep.second - f2, sp.second - y.begin());
            });
            bool sq = std::is_permutation(x.begin(), x.end(), y.begin(), y.end());
            T2("is_permutation(f1,l1,f2,l2)", 6, sq ? "true" : "false", t.boolean("ret", t.call([&] { return etl::is_permutation(f1, l1, f2, l2); }), sq));
        }
        {
            auto ss = std::search(x.begin(), x.end(), y.begin(), y.end()) - x.begin();
            T2("search(f,l,sf,sl)", 7, ss == (long)nx ? "absent" : "found", t.off("ret", t.call([&] { return etl::search(f1, l1, f2, l2); }) - f1, ss));
            auto sf = std::find_end(x.begin(), x.end(), y.begin(), y.end()) - x.begin();
            T2("find_end(f,l,sf,sl)", 8, sf == (long)nx ? "absent" : "found", t.off("ret", t.call([&] { return etl::find_end(f1, l1, f2, l2); }) - f1, sf));
            auto so = std::find_first_of(x.begin(), x.end(), y.begin(), y.end()) - x.begin();
            T2("find_first_of(f,l,sf,sl)", 9, so == (long)nx ? "absent" : "found",
                t.off("ret", t.call([&] { return etl::find_first_of(f1, l1, f2, l2); }) - f1, so));
        }
        if (ny >= nx) { // 3-iterator forms; second range cut to exactly nx elements
            std::vector<T> yp(y.begin(), y.begin() + (long)nx);
            bool se = std::equal(x.begin(), x.end(), yp.begin());
            auto sp = std::mismatch(x.begin(), x.end(), yp.begin());
            Trial t(c, K, "equal(f1,l1,f2)", pr, se ? "true" : "false", vf::mix(hb, 10), "%s", d.c_str());
            Range<T> r1(x, pr, false), r2(yp, pres2(pr, nx), false);
            t.boolean("ret", t.call([&] { return etl::equal((T const*)r1.lo, (T const*)r1.hi, (T const*)r2.lo); }), se);
            t.guards(r2);
            fin(t, r1, x);
            Trial t2(c, K, "mismatch(f1,l1,f2)", pr, sp.first == x.end() ? "to-end" : "differ", vf::mix(hb, 11), "%s", d.c_str());
            Range<T> q1(x, pr, false), q2(yp, pres2(pr, nx), false);
            auto ep = t2.call([&] { return etl::mismatch((T const*)q1.lo, (T const*)q1.hi, (T const*)q2.lo); });
            t2.off("ret.first", ep.first - q1.lo, sp.first - x.begin());
            t2.off("ret.second", ep.second - q2.lo, sp.second - yp.begin());
            t2.guards(q2);
            fin(t2, q1, x);
        }
        // sorted inputs: includes / merge / set operations
        if (std::is_sorted(x.begin(), x.end()) && std::is_sorted(y.begin(), y.end())) {
            bool si = std::includes(x.begin(), x.end(), y.begin(), y.end());
            T2("includes(f1,l1,f2,l2)", 12, si ? "true" : "false", t.boolean("ret", t.call([&] { return etl::includes(f1, l1, f2, l2); }), si));
            for (int op = 0; op < 5; ++op) {
                std::vector<T> exp;
                auto bi = std::back_inserter(exp);
                char const* name = "";
                switch (op) {
                case 0: std::merge(x.begin(), x.end(), y.begin(), y.end(), bi); name = "merge(f1,l1,f2,l2,d)"; break;
                case 1: std::set_union(x.begin(), x.end(), y.begin(), y.end(), bi); name = "set_union(f1,l1,f2,l2,d)"; break;
                case 2: std::set_intersection(x.begin(), x.end(), y.begin(), y.end(), bi); name = "set_intersection(f1,l1,f2,l2,d)"; break;
                case 3: std::set_difference(x.begin(), x.end(), y.begin(), y.end(), bi); name = "set_difference(f1,l1,f2,l2,d)"; break;
                default: std::set_symmetric_difference(x.begin(), x.end(), y.begin(), y.end(), bi); name = "set_symmetric_difference(f1,l1,f2,l2,d)"; break;
                }
                T2(name, 20 + op, exp.empty() ? "result-empty" : "result-nonempty", {
                    Sink<T> s(exp.size(), pr);
                    T* dd  = s.r.lo;
                    T* ret = t.call([&] {
                        switch (op) {
                        case 0: return etl::merge(f1, l1, f2, l2, dd);
                        case 1: return etl::set_union(f1, l1, f2, l2, dd);
                        case 2: return etl::set_intersection(f1, l1, f2, l2, dd);
                        case 3: return etl::set_difference(f1, l1, f2, l2, dd);
                        default: return etl::set_symmetric_difference(f1, l1, f2, l2, dd);
                        }
                    });
                    t.off("ret", ret - dd, (long)exp.size());
                    same(t, "output", s.r.get(), exp);
                    t.guards(s.r, "output");
                });
            }
        }
#undef T2
    }
}
template <typename T>
void t_pairs(Ctx& c)
{
    std::vector<T> const a = vals<T>(c.a);
    for (Seq const& nd : c.needles) {
        std::vector<T> b = vals<T>(nd);
        pair_cmp<T>(c, a, b, 0);
        pair_cmp<T>(c, b, a, 1);
        if (!c.enumerated) { // sorted variants for the merge / set family
            std::vector<T> sa = a, sb = b;
            std::sort(sa.begin(), sa.end());
            std::sort(sb.begin(), sb.end());
            pair_cmp<T>(c, sa, sb, 2);
        }
    }
    std::vector<T> p = a;
    pair_cmp<T>(c, a, p, 3);
    std::reverse(p.begin(), p.end());
    pair_cmp<T>(c, a, p, 4);
    if (!a.empty()) {
        p = a;
        p.back() = TV<T>::val(c.a.back().key + 1);
        pair_cmp<T>(c, a, p, 5);
        p = a;
        p.pop_back();
        pair_cmp<T>(c, a, p, 6);
        pair_cmp<T>(c, p, a, 7);
    }
}

// ---------------------------------------------------------------- one range: scans, binary searches, in-place by value
template <typename T>
void t_scan(Ctx& c)
{
    char const* K         = TV<T>::name;
    std::vector<T> const m = vals<T>(c.a);
    std::size_t const n   = m.size();
    std::string const d   = "vals=" + shw(m);
    bool const sorted     = std::is_sorted(m.begin(), m.end());
    for (Pres pr : pres_for<KPtr>(n)) {
#define T1(OP, H, EXTRA, WR, ...)                                                                                      \
    do {                                                                                                               \
        Trial t(c, K, OP, pr, EXTRA, H, "%s", d.c_str());                                                              \
        Range<T> r(m, pr, WR);                                                                                         \
        T *f = r.lo, *l = r.hi;                                                                                        \
        T const *cf = r.lo, *cl = r.hi;                                                                                \
        (void)f; (void)l; (void)cf; (void)cl;                                                                          \
        __VA_ARGS__;                                                                                                        \
        t.guards(r);                                                                                                   \
        t.done();                                                                                                      \
    } while (0)
        for (int v = 0; v <= c.maxkey + 1; ++v) {
            T const val = TV<T>::val(v);
            auto sf     = std::find(m.begin(), m.end(), val) - m.begin();
            T1("find(f,l,v)", 1 + v, sf == (long)n ? "absent" : "found", false, t.off("ret", t.call([&] { return etl::find(cf, cl, val); }) - cf, sf); same(t, "input", r.get(), m));
            auto sc = std::count(m.begin(), m.end(), val);
            T1("count(f,l,v)", 10 + v, sc == 0 ? "none" : "some", false, t.off("ret", t.call([&] { return etl::count(cf, cl, val); }), sc); same(t, "input", r.get(), m));
            for (long k = 0; k <= (long)n + 1 && k <= 3; ++k) {
                auto ss = std::search_n(m.begin(), m.end(), k, val) - m.begin();
                T1("search_n(f,l,n,v)", vf::mix(20 + v, k), ss == (long)n ? "absent" : "found", false, t.off("ret", t.call([&] { return etl::search_n(cf, cl, k, val); }) - cf, ss));
            }
            {
                std::vector<T> exp = m;
                auto se = std::remove(exp.begin(), exp.end(), val) - exp.begin();
                exp.resize((std::size_t)se);
                T1("remove(f,l,v)", 40 + v, se == (long)n ? "none-removed" : "some-removed", true, {
                    auto ret = t.call([&] { return etl::remove(f, l, val); });
                    if (t.off("ret", ret - f, se)) {
                        auto got = r.get();
                        got.resize((std::size_t)se);
                        same(t, "kept-part", got, exp);
                    }
                });
            }
            {
                std::vector<T> exp = m;
                T const nv        = TV<T>::val(4);
                std::replace(exp.begin(), exp.end(), val, nv);
                T1("replace(f,l,old,new)", 50 + v, "", true, t.call([&] { etl::replace(f, l, val, nv); }); same(t, "range", r.get(), exp));
            }
            if (sorted) {
                auto lb = std::lower_bound(m.begin(), m.end(), val) - m.begin();
                auto ub = std::upper_bound(m.begin(), m.end(), val) - m.begin();
                bool bs = std::binary_search(m.begin(), m.end(), val);
                T1("lower_bound(f,l,v)", 60 + v, bs ? "present" : "absent", false, t.off("ret", t.call([&] { return etl::lower_bound(cf, cl, val); }) - cf, lb));
                T1("upper_bound(f,l,v)", 70 + v, bs ? "present" : "absent", false, t.off("ret", t.call([&] { return etl::upper_bound(cf, cl, val); }) - cf, ub));
                T1("binary_search(f,l,v)", 80 + v, bs ? "present" : "absent", false, t.boolean("ret", t.call([&] { return etl::binary_search(cf, cl, val); }), bs));
                T1("equal_range(f,l,v)", 90 + v, bs ? "present" : "absent", false, {
                    auto ep = t.call([&] { return etl::equal_range(cf, cl, val); });
                    t.off("ret.first", ep.first - cf, lb);
                    t.off("ret.second", ep.second - cf, ub);
                });
            }
        }
        {
            auto sa = std::adjacent_find(m.begin(), m.end()) - m.begin();
            T1("adjacent_find(f,l)", 100, sa == (long)n ? "absent" : "found", false, t.off("ret", t.call([&] { return etl::adjacent_find(cf, cl); }) - cf, sa));
            auto su = std::is_sorted_until(m.begin(), m.end()) - m.begin();
            T1("is_sorted_until(f,l)", 101, sorted ? "sorted" : "unsorted", false, t.off("ret", t.call([&] { return etl::is_sorted_until(cf, cl); }) - cf, su));
            T1("is_sorted(f,l)", 102, sorted ? "sorted" : "unsorted", false, t.boolean("ret", t.call([&] { return etl::is_sorted(cf, cl); }), sorted));
            auto mn = std::min_element(m.begin(), m.end()) - m.begin();
            auto mx = std::max_element(m.begin(), m.end()) - m.begin();
            auto mm = std::minmax_element(m.begin(), m.end());
            T1("min_element(f,l)", 103, "", false, t.off("ret", t.call([&] { return etl::min_element(cf, cl); }) - cf, mn));
            T1("max_element(f,l)", 104, "", false, t.off("ret", t.call([&] { return etl::max_element(cf, cl); }) - cf, mx));
            T1("minmax_element(f,l)", 105, "", false, {
                auto ep = t.call([&] { return etl::minmax_element(cf, cl); });
                t.off("ret.first", ep.first - cf, mm.first - m.begin());
                t.off("ret.second", ep.second - cf, mm.second - m.begin());
            });
            std::vector<T> exp = m;
            auto se            = std::unique(exp.begin(), exp.end()) - exp.begin();
            exp.resize((std::size_t)se);
            T1("unique(f,l)", 106, se == (long)n ? "no-duplicates" : "duplicates", true, {
                auto ret = t.call([&] { return etl::unique(f, l); });
                if (t.off("ret", ret - f, se)) {
                    auto got = r.get();
                    got.resize((std::size_t)se);
                    same(t, "kept-part", got, exp);
                }
            });
            if (n == 2) {
                T const& sr = std::min(m[0], m[1]);
                T const& sx = std::max(m[0], m[1]);
                T1("min(a,b)", 107, "", false, t.off("ret-object", &etl::min(cf[0], cf[1]) - cf, &sr - m.data()));
                T1("max(a,b)", 108, "", false, t.off("ret-object", &etl::max(cf[0], cf[1]) - cf, &sx - m.data()));
            }
            if (n == 3 && !(m[2] < m[1])) {
                T const& sr = std::clamp(m[0], m[1], m[2]);
                T1("clamp(v,lo,hi)", 109, "", false, t.off("ret-object", &etl::clamp(cf[0], cf[1], cf[2]) - cf, &sr - m.data()));
            }
        }
#undef T1
    }
}

// ---------------------------------------------------------------- sorts and merges
template <typename T>
void t_sorts(Ctx& c)
{
    char const* K         = TV<T>::name;
    std::vector<T> const m = vals<T>(c.a);
    std::size_t const n   = m.size();
    std::string const d   = "vals=" + shw(m);
    static char const* const names[] = {"sort(f,l)", "stable_sort(f,l)", "gnome_sort(f,l)", "bubble_sort(f,l)", "exchange_sort(f,l)", "insertion_sort(f,l)",
        "merge_sort(f,l)", "sort(f,l,c)/etl::greater<>", "stable_sort(f,l,c)/etl::less<T>"};
    for (Pres pr : pres_for<KPtr>(n)) {
        for (int f = 0; f < 9; ++f) {
            std::vector<T> exp = m;
            bool stable        = f == 1 || f == 3 || f == 5 || f == 8;
            if (f == 7) {
                std::stable_sort(exp.begin(), exp.end(), std::greater<>{});
            } else {
                std::stable_sort(exp.begin(), exp.end());
            }
            Trial t(c, K, names[f], pr, std::is_sorted(m.begin(), m.end()) ? "already-sorted" : "unsorted", (std::uint64_t)f, "%s", d.c_str());
            Range<T> r(m, pr, true);
            T *b = r.lo, *e = r.hi;
            t.call([&] {
                switch (f) {
                case 0: etl::sort(b, e); break;
                case 1: etl::stable_sort(b, e); break;
                case 2: etl::gnome_sort(b, e); break;
                case 3: etl::bubble_sort(b, e); break;
                case 4: etl::exchange_sort(b, e); break;
                case 5: etl::insertion_sort(b, e); break;
                case 6: etl::merge_sort(b, e); break;
                case 7: etl::sort(b, e, etl::greater<>{}); break;
                default: etl::stable_sort(b, e, etl::less<T>{}); break;
                }
            });
            // equal elements of an arithmetic type are indistinguishable except -0.0/+0.0: stable results bitwise, others by value
            same(t, "range", r.get(), exp, stable);
            t.guards(r);
            t.done();
        }
        for (std::size_t mid = 0; mid <= n; ++mid) {
            {
                std::vector<T> exp = m;
                std::partial_sort(exp.begin(), exp.begin() + (long)mid, exp.end());
                exp.resize(mid);
                Trial t(c, K, "partial_sort(f,m,l)", pr, mid == 0 ? "mid=first" : (mid == n ? "mid=last" : "mid-inner"), 20 + mid, "%s mid=%zu", d.c_str(), mid);
                Range<T> r(m, pr, true);
                t.call([&] { etl::partial_sort(r.lo, r.lo + mid, r.hi); });
                auto got = r.get();
                auto all = got;
                got.resize(mid);
                same(t, "sorted-prefix", got, exp, false);
                std::vector<T> s1 = all, s2 = m;
                std::sort(s1.begin(), s1.end());
                std::sort(s2.begin(), s2.end());
                same(t, "range-as-multiset", s1, s2, false);
                t.guards(r);
                t.done();
            }
            if (mid < n) {
                std::vector<T> srt = m;
                std::sort(srt.begin(), srt.end());
                Trial t(c, K, "nth_element(f,nth,l)", pr, mid == 0 ? "nth=first" : "nth-inner", 40 + mid, "%s nth=%zu", d.c_str(), mid);
                Range<T> r(m, pr, true);
                t.call([&] { etl::nth_element(r.lo, r.lo + mid, r.hi); });
                auto got = r.get();
                bool ok  = got[mid] == srt[mid];
                for (std::size_t i = 0; i < mid; ++i) { ok = ok && !(got[mid] < got[i]); }
                for (std::size_t j = mid; j < n; ++j) { ok = ok && !(got[j] < got[mid]); }
                t.require("range:nth-not-in-sorted-position", ok, shw(got), "element at nth as after a full sort");
                std::sort(got.begin(), got.end());
                same(t, "range-as-multiset", got, srt, false);
                t.guards(r);
                t.done();
            }
            if (std::is_sorted(m.begin(), m.begin() + (long)mid) && std::is_sorted(m.begin() + (long)mid, m.end())) {
                std::vector<T> exp = m;
                std::inplace_merge(exp.begin(), exp.begin() + (long)mid, exp.end());
                Trial t(c, K, "inplace_merge(f,m,l)", pr, mid == 0 ? "mid=first" : (mid == n ? "mid=last" : "mid-inner"), 60 + mid, "%s mid=%zu", d.c_str(), mid);
                Range<T> r(m, pr, true);
                t.call([&] { etl::inplace_merge(r.lo, r.lo + mid, r.hi); });
                same(t, "range", r.get(), exp);
                t.guards(r);
                t.done();
            }
        }
    }
}

// ---------------------------------------------------------------- copy / move / fill family incl. the overlapping cases the standard allows
template <typename T>
void t_copies(Ctx& c)
{
    char const* K         = TV<T>::name;
    std::vector<T> const m = vals<T>(c.a);
    std::size_t const n   = m.size();
    std::string const d   = "vals=" + shw(m);
    std::vector<T> const y = vals<T>(Seq(c.a.rbegin(), c.a.rend()));
    for (Pres pr : pres_for<KPtr>(n)) {
        // to a separate destination
        for (int op = 0; op < 6; ++op) {
            static char const* const nm[] = {"copy(f,l,d)", "move(f,l,d)", "copy_backward(f,l,dl)", "move_backward(f,l,dl)", "reverse_copy(f,l,d)", "copy_n(f,n,d)"};
            std::vector<T> exp = m;
            if (op == 4) { std::reverse(exp.begin(), exp.end()); }
            Trial t(c, K, nm[op], pr, "separate", (std::uint64_t)op, "%s", d.c_str());
            Range<T> r(m, pr, false);
            Sink<T> s(n, pr);
            T const *f = r.lo, *l = r.hi;
            T* dd = s.r.lo;
            long ro = 0;
            switch (op) {
            case 0: ro = t.call([&] { return etl::copy(f, l, dd); }) - dd; break;
            case 1: ro = t.call([&] { return etl::move(r.lo, r.hi, dd); }) - dd; break;
            case 2: ro = (long)n + (t.call([&] { return etl::copy_backward(f, l, s.r.hi); }) - dd); break;
            case 3: ro = (long)n + (t.call([&] { return etl::move_backward(r.lo, r.hi, s.r.hi); }) - dd); break;
            case 4: ro = t.call([&] { return etl::reverse_copy(f, l, dd); }) - dd; break;
            default: ro = t.call([&] { return etl::copy_n(f, (long)n, dd); }) - dd; break;
            }
            t.off("ret", ro, (long)n);
            same(t, "output", s.r.get(), exp);
            t.guards(s.r, "output");
            fin(t, r, m);
        }
        // within one range (the overlaps the standard permits)
        for (std::size_t k = 1; k <= n; ++k) {
            for (int op = 0; op < 4; ++op) {
                static char const* const nm[] = {"copy(f,l,d)", "move(f,l,d)", "copy_backward(f,l,dl)", "move_backward(f,l,dl)"};
                std::vector<T> exp = m;
                long sr;
                if (op < 2) {
                    sr = std::copy(exp.begin() + (long)k, exp.end(), exp.begin()) - exp.begin();
                } else {
                    sr = std::copy_backward(exp.begin(), exp.end() - (long)k, exp.end()) - exp.begin();
                }
                Trial t(c, K, nm[op], pr, op < 2 ? "overlapping-left" : "overlapping-right", vf::mix(10 + op, k), "%s shift=%zu", d.c_str(), k);
                Range<T> r(m, pr, true);
                T *f = r.lo, *l = r.hi;
                long ro = 0;
                switch (op) {
                case 0: ro = t.call([&] { return etl::copy((T const*)f + k, (T const*)l, f); }) - f; break;
                case 1: ro = t.call([&] { return etl::move(f + k, l, f); }) - f; break;
                case 2: ro = t.call([&] { return etl::copy_backward((T const*)f, (T const*)l - k, l); }) - f; break;
                default: ro = t.call([&] { return etl::move_backward(f, l - k, l); }) - f; break;
                }
                t.off("ret", ro, sr);
                same(t, "range", r.get(), exp); // arithmetic types: a moved-from element keeps its value in both libraries
                t.guards(r);
                t.done();
            }
        }
        for (std::size_t mid = 0; mid <= n; ++mid) {
            {
                std::vector<T> exp = m;
                auto sr            = std::rotate(exp.begin(), exp.begin() + (long)mid, exp.end()) - exp.begin();
                Trial t(c, K, "rotate(f,m,l)", pr, mid == 0 ? "mid=first" : (mid == n ? "mid=last" : "mid-inner"), 30 + mid, "%s mid=%zu", d.c_str(), mid);
                Range<T> r(m, pr, true);
                auto ret = t.call([&] { return etl::rotate(r.lo, r.lo + mid, r.hi); });
                t.off("ret", ret - r.lo, sr);
                same(t, "range", r.get(), exp);
                t.guards(r);
                t.done();
            }
            {
                std::vector<T> exp;
                std::rotate_copy(m.begin(), m.begin() + (long)mid, m.end(), std::back_inserter(exp));
                Trial t(c, K, "rotate_copy(f,m,l,d)", pr, mid == 0 ? "mid=first" : (mid == n ? "mid=last" : "mid-inner"), 50 + mid, "%s mid=%zu", d.c_str(), mid);
                Range<T> r(m, pr, false);
                Sink<T> s(n, pr);
                auto ret = t.call([&] { return etl::rotate_copy((T const*)r.lo, (T const*)r.lo + mid, (T const*)r.hi, s.r.lo); });
                t.off("ret", ret - s.r.lo, (long)n);
                same(t, "output", s.r.get(), exp);
                t.guards(s.r, "output");
                fin(t, r, m);
            }
        }
        for (long k = 0; k <= (long)n + 1; ++k) {
            {
                std::vector<T> exp = m;
                auto se            = std::shift_left(exp.begin(), exp.end(), k) - exp.begin();
                exp.resize((std::size_t)se);
                Trial t(c, K, "shift_left(f,l,n)", pr, ncls(k, n), 70 + (std::uint64_t)k, "%s n=%ld", d.c_str(), k);
                Range<T> r(m, pr, true);
                auto ret = t.call([&] { return etl::shift_left(r.lo, r.hi, k); });
                if (t.off("ret", ret - r.lo, se)) {
                    auto got = r.get();
                    got.resize((std::size_t)se);
                    same(t, "shifted-part", got, exp);
                }
                t.guards(r);
                t.done();
            }
            {
                std::vector<T> exp = m;
                auto se            = std::shift_right(exp.begin(), exp.end(), k) - exp.begin();
                Trial t(c, K, "shift_right(f,l,n)", pr, ncls(k, n), 90 + (std::uint64_t)k, "%s n=%ld", d.c_str(), k);
                Range<T> r(m, pr, true);
                auto ret = t.call([&] { return etl::shift_right(r.lo, r.hi, k); });
                if (t.off("ret", ret - r.lo, se)) {
                    auto got = r.get();
                    same(t, "shifted-part", std::vector<T>(got.begin() + se, got.end()), std::vector<T>(exp.begin() + se, exp.end()));
                }
                t.guards(r);
                t.done();
            }
            if (k <= (long)n) {
                T const val = TV<T>::val(3);
                std::vector<T> exp((std::size_t)k, fresh_value<T>());
                std::fill_n(exp.begin(), k, val);
                Trial t(c, K, "fill_n(d,n,v)", pr, ncls(k, n), 110 + (std::uint64_t)k, "n=%ld", k);
                Sink<T> s((std::size_t)k, pr);
                auto ret = t.call([&] { return etl::fill_n(s.r.lo, k, val); });
                t.off("ret", ret - s.r.lo, k);
                same(t, "output", s.r.get(), exp);
                t.guards(s.r, "output");
                t.done();
            }
        }
        {
            T const val = TV<T>::val(3);
            std::vector<T> exp(n, val);
            Trial t(c, K, "fill(f,l,v)", pr, "", 130, "%s", d.c_str());
            Range<T> r(m, pr, true);
            t.call([&] { etl::fill(r.lo, r.hi, val); });
            same(t, "range", r.get(), exp);
            t.guards(r);
            t.done();
        }
        {
            std::vector<T> exp = m;
            std::reverse(exp.begin(), exp.end());
            Trial t(c, K, "reverse(f,l)", pr, n % 2 ? "odd" : "even", 131, "%s", d.c_str());
            Range<T> r(m, pr, true);
            t.call([&] { etl::reverse(r.lo, r.hi); });
            same(t, "range", r.get(), exp);
            t.guards(r);
            t.done();
        }
        {
            Trial t(c, K, "swap_ranges(f1,l1,f2)", pr, "", 132, "%s", d.c_str());
            Range<T> r(m, pr, true), r2(y, pr, true);
            auto ret = t.call([&] { return etl::swap_ranges(r.lo, r.hi, r2.lo); });
            t.off("ret", ret - r2.lo, (long)n);
            same(t, "range1", r.get(), y);
            same(t, "range2", r2.get(), m);
            t.guards(r);
            t.guards(r2);
            t.done();
        }
        {
            std::vector<T> exp;
            std::unique_copy(m.begin(), m.end(), std::back_inserter(exp));
            Trial t(c, K, "unique_copy(f,l,d)", pr, exp.size() == n ? "no-duplicates" : "duplicates", 133, "%s", d.c_str());
            Range<T> r(m, pr, false);
            Sink<T> s(exp.size(), pr);
            auto ret = t.call([&] { return etl::unique_copy((T const*)r.lo, (T const*)r.hi, s.r.lo); });
            t.off("ret", ret - s.r.lo, (long)exp.size());
            same(t, "output", s.r.get(), exp);
            t.guards(s.r, "output");
            fin(t, r, m);
        }
    }
}

#if C06_TYPES_PART == 1
Test const kTests[] = {
    {"schar_pairs", t_pairs<signed char>}, {"schar_scan", t_scan<signed char>}, {"schar_sorts", t_sorts<signed char>}, {"schar_copies", t_copies<signed char>},
    {"char_pairs", t_pairs<char>}, {"char_scan", t_scan<char>}, {"char_sorts", t_sorts<char>}, {"char_copies", t_copies<char>},
};
#elif C06_TYPES_PART == 2
Test const kTests[] = {
    {"uchar_pairs", t_pairs<unsigned char>}, {"uchar_scan", t_scan<unsigned char>}, {"uchar_sorts", t_sorts<unsigned char>}, {"uchar_copies", t_copies<unsigned char>},
    {"short_pairs", t_pairs<short>}, {"short_scan", t_scan<short>}, {"short_sorts", t_sorts<short>}, {"short_copies", t_copies<short>},
};
#else
Test const kTests[] = {
    {"float_pairs", t_pairs<float>}, {"float_scan", t_scan<float>}, {"float_sorts", t_sorts<float>}, {"float_copies", t_copies<float>},
};
#endif
std::size_t const kNumTests = sizeof(kTests) / sizeof(kTests[0]);

} // namespace c06

#if C06_TYPES_PART == 1
C06_MAIN("C06_types_char")
#elif C06_TYPES_PART == 2
C06_MAIN("C06_types_uchar_short")
#else
C06_MAIN("C06_types_float")
#endif
