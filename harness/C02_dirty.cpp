// C02 (d) - dirty-storage construction (DESIGN 3.4): default- and value-initialised library objects are
// placement-constructed on storage pre-filled with 0xAB / 0x00 / 0xFF and must report the empty state.
// Any dependence on an indeterminate member becomes a deterministic wrong answer (and, in the vg flavour,
// a memcheck report).  The same objects are then used once (one push/append/emplace) and destroyed.
#include "vf.hpp"
#include "vf_contract.hpp"
#include "vf_tracked.hpp"

#include <etl/bitset.hpp>
#include <etl/expected.hpp>
#include <etl/flat_set.hpp>
#include <etl/functional.hpp>
#include <etl/inplace_vector.hpp>
#include <etl/optional.hpp>
#include <etl/set.hpp>
#include <etl/span.hpp>
#include <etl/stack.hpp>
#include <etl/string.hpp>
#include <etl/string_view.hpp>
#include <etl/variant.hpp>
#include <etl/vector.hpp>

#include <new>
#include <type_traits>

namespace {
unsigned char const kFill[] = {0xAB, 0x00, 0xFF};
char const* const kFillName[] = {"fill=0xAB", "fill=0x00", "fill=0xFF"};

// raw aligned storage on the heap (exact size: an overrun of the object is an ASan report)
template <typename T>
struct Raw {
    void* p;
    explicit Raw(unsigned char fill)
    {
        p = ::operator new(sizeof(T), std::align_val_t(alignof(T)));
        std::memset(p, fill, sizeof(T));
    }
    ~Raw() { ::operator delete(p, std::align_val_t(alignof(T))); }
};

template <typename T, typename Obs>
void dirty(char const* subject, Obs obs, std::uint64_t h)
{
    for (unsigned f = 0; f < 3; ++f) {
        {
            Raw<T> raw(kFill[f]);
            char sit[64];
            std::snprintf(sit, sizeof sit, "default-init,%s", kFillName[f]);
            vf::crumb(subject, "default-initialisation (T x;)", sit, "sizeof=%zu", sizeof(T));
            T* x = ::new (raw.p) T; // default-initialisation
            obs(*x);
            vf::cover(subject, vf::mix(h, f * 2), true);
            vf::crumb(subject, "destructor after default-initialisation", sit, "sizeof=%zu", sizeof(T));
            x->~T();
        }
        {
            Raw<T> raw(kFill[f]);
            char sit[64];
            std::snprintf(sit, sizeof sit, "value-init,%s", kFillName[f]);
            vf::crumb(subject, "value-initialisation (T x{};)", sit, "sizeof=%zu", sizeof(T));
            T* x = ::new (raw.p) T{}; // value-initialisation
            obs(*x);
            vf::cover(subject, vf::mix(h, f * 2 + 1), true);
            vf::crumb(subject, "destructor after value-initialisation", sit, "sizeof=%zu", sizeof(T));
            x->~T();
        }
    }
}

template <typename V>
void obs_vector(V& v)
{
    vf::eq_int("size", v.size(), 0);
    vf::eq_bool("empty", v.empty(), true);
    vf::eq_bool("begin==end", v.begin() == v.end(), true);
    vf::eq_int("capacity", v.capacity(), V::capacity());
}
template <typename V, std::size_t N>
void obs_svector(V& v)
{
    vf::eq_int("size", v.size(), 0);
    vf::eq_bool("empty", v.empty(), true);
    vf::eq_bool("begin==end", v.begin() == v.end(), true);
    vf::eq_bool("full", v.full(), N == 0);
    if constexpr (N > 0) {
        v.emplace_back(7);
        vf::eq_int("size-after-emplace_back", v.size(), 1);
        vf::eq_int("front-after-emplace_back", vf::val(v.front()), 7);
    }
}
template <typename S, std::size_t N>
void obs_string(S& s)
{
    vf::eq_int("size", s.size(), 0);
    vf::eq_bool("empty", s.empty(), true);
    vf::eq_bool("terminated", s.data()[0] == typename S::value_type(0), true);
    vf::eq_bool("begin==end", s.begin() == s.end(), true);
    if constexpr (N > 0) {
        s.push_back(typename S::value_type('x'));
        vf::eq_int("size-after-push_back", s.size(), 1);
        vf::eq_bool("terminated-after-push_back", s.data()[1] == typename S::value_type(0), true);
    }
}

template <std::size_t N>
void vectors_at(unsigned which)
{
    char subj[96];
    switch (which) {
    case 0:
        std::snprintf(subj, sizeof subj, "static_vector<int,%zu>", N);
        dirty<etl::static_vector<int, N>>(subj, [](auto& v) { obs_svector<std::remove_reference_t<decltype(v)>, N>(v); }, N * 10 + 0);
        break;
    case 1:
        std::snprintf(subj, sizeof subj, "static_vector<tracked,%zu>", N);
        dirty<etl::static_vector<vf::TCM, N>>(subj, [](auto& v) { obs_svector<std::remove_reference_t<decltype(v)>, N>(v); }, N * 10 + 1);
        break;
    case 2:
        std::snprintf(subj, sizeof subj, "inplace_vector<int,%zu>", N);
        dirty<etl::inplace_vector<int, N>>(subj,
            [](auto& v) {
                obs_vector(v);
                if constexpr (N > 0) {
                    auto* p = v.try_emplace_back(7);
                    vf::eq_bool("try_emplace_back-non-null", p != nullptr, true);
                    vf::eq_int("size-after-try_emplace_back", v.size(), 1);
                }
            },
            N * 10 + 2);
        break;
    case 3:
        std::snprintf(subj, sizeof subj, "inplace_vector<tracked,%zu>", N);
        dirty<etl::inplace_vector<vf::TCM, N>>(subj, [](auto& v) { obs_vector(v); }, N * 10 + 3);
        break;
    case 4:
        std::snprintf(subj, sizeof subj, "inplace_string<char,%zu>", N);
        dirty<etl::inplace_string<N>>(subj, [](auto& s) { obs_string<std::remove_reference_t<decltype(s)>, N>(s); }, N * 10 + 4);
        break;
    case 5:
        std::snprintf(subj, sizeof subj, "inplace_wstring<%zu>", N);
        dirty<etl::inplace_wstring<N>>(subj, [](auto& s) { obs_string<std::remove_reference_t<decltype(s)>, N>(s); }, N * 10 + 5);
        break;
    case 6:
        if constexpr (N > 0) {
            std::snprintf(subj, sizeof subj, "stack<int,static_vector<%zu>>", N);
            dirty<etl::stack<int, etl::static_vector<int, N>>>(subj,
                [](auto& s) {
                    vf::eq_int("size", s.size(), 0);
                    vf::eq_bool("empty", s.empty(), true);
                },
                N * 10 + 6);
        }
        break;
    default:
        if constexpr (N > 0 && N <= 16) {
            std::snprintf(subj, sizeof subj, "static_set<int,%zu>", N);
            dirty<etl::static_set<int, N>>(subj,
                [](auto& s) {
                    vf::eq_int("size", s.size(), 0);
                    vf::eq_bool("empty", s.empty(), true);
                    vf::eq_bool("begin==end", s.begin() == s.end(), true);
                },
                N * 10 + 7);
            std::snprintf(subj, sizeof subj, "flat_set<int,static_vector<%zu>>", N);
            dirty<etl::flat_set<int, etl::static_vector<int, N>>>(subj,
                [](auto& s) {
                    vf::eq_int("size", s.size(), 0);
                    vf::eq_bool("empty", s.empty(), true);
                },
                N * 10 + 8);
        }
        break;
    }
}

template <std::size_t W>
void bitset_at()
{
    char subj[64];
    std::snprintf(subj, sizeof subj, "bitset<%zu>", W);
    dirty<etl::bitset<W>>(subj,
        [](auto& b) {
            vf::eq_bool("none", b.none(), true);
            vf::eq_bool("any", b.any(), false);
            vf::eq_int("count", b.count(), 0);
            vf::eq_bool("test(0)", b.test(0), false);
            vf::eq_bool("test(last)", b.test(W - 1), false);
        },
        W * 1000 + 9);
}

void others(unsigned which)
{
    switch (which) {
    case 0:
        dirty<etl::string_view>("string_view", [](auto& v) {
            vf::eq_int("size", v.size(), 0);
            vf::eq_bool("empty", v.empty(), true);
            vf::eq_bool("data-null", v.data() == nullptr, true);
        }, 9001);
        break;
    case 1:
        dirty<etl::span<int>>("span<int>", [](auto& v) {
            vf::eq_int("size", v.size(), 0);
            vf::eq_bool("empty", v.empty(), true);
            vf::eq_bool("data-null", v.data() == nullptr, true);
        }, 9002);
        break;
    case 2:
        dirty<etl::optional<int>>("optional<int>", [](auto& o) { vf::eq_bool("has_value", o.has_value(), false); }, 9003);
        dirty<etl::optional<vf::TCM>>("optional<tracked>", [](auto& o) {
            vf::eq_bool("has_value", o.has_value(), false);
            o.emplace(3);
            vf::eq_bool("has_value-after-emplace", o.has_value(), true);
        }, 9004);
        dirty<etl::optional<int&>>("optional<int&>", [](auto& o) { vf::eq_bool("has_value", o.has_value(), false); }, 9005);
        break;
    case 3:
        dirty<etl::variant<int, char>>("variant<int,char>", [](auto& v) {
            vf::eq_int("index", v.index(), 0);
            if (auto* p = etl::get_if<0>(&v)) { vf::eq_int("value-initialised-first-alternative", *p, 0); }
        }, 9006);
        dirty<etl::variant<vf::TCM, int>>("variant<tracked,int>", [](auto& v) { vf::eq_int("index", v.index(), 0); }, 9007);
        break;
    case 4:
        dirty<etl::inplace_function<int(int), 16>>("inplace_function<int(int),16>", [](auto& f) {
            vf::eq_bool("operator bool", static_cast<bool>(f), false);
            vf::eq_bool("==nullptr", f == nullptr, true);
        }, 9008);
        break;
    default:
        bitset_at<1>();
        bitset_at<8>();
        bitset_at<9>();
        bitset_at<64>();
        bitset_at<65>();
        bitset_at<129>();
        break;
    }
}

constexpr unsigned kVecKinds = 8;
vf::Spec spec(vf::Tier)
{
    vf::Spec s;
    s.n_enum     = 7 * kVecKinds + 6;
    s.batch      = 1; // a garbage size can send a destructor anywhere: isolate every case
    s.exhaustive = true;
    s.timeout_s  = 60;
    return s;
}
void run_case(vf::Case& c)
{
    vf::registry().reset();
    if (c.index < 7 * kVecKinds) {
        unsigned capi = (unsigned)(c.index / kVecKinds), which = (unsigned)(c.index % kVecKinds);
        switch (capi) {
        case 0: vectors_at<0>(which); break;
        case 1: vectors_at<1>(which); break;
        case 2: vectors_at<15>(which); break;
        case 3: vectors_at<16>(which); break;
        case 4: vectors_at<254>(which); break;
        case 5: vectors_at<255>(which); break;
        default: vectors_at<256>(which); break;
        }
    } else {
        others((unsigned)(c.index - 7 * kVecKinds));
    }
    if (vf::want_sample("dirty")) { vf::sample("dirty", "case %llu: default- and value-initialisation on 0xAB/0x00/0xFF storage, observers, one mutation, destruction", (unsigned long long)c.index); }
}
} // namespace

VF_MAIN("C02", "C02_dirty", spec, run_case)
