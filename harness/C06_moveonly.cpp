// C06 - the permuting algorithms on a move-only element type whose self-move-assignment is destructive (the standard requires only
//       MoveConstructible/MoveAssignable/Swappable for them)  vs libstdc++ (DESIGN 4, C06)
// -DC06_MO_PART=1: everything that compiles on the unfixed tree; =2: stable_sort / insertion_sort (copy their elements there)
#include "vf.hpp"
#include "vf_contract.hpp"
#include "vf_algo_tests.hpp"

#ifndef C06_MO_PART
    #define C06_MO_PART 1
#endif

namespace c06 {

struct Mo {
    int key;
    int tag;
    Mo() noexcept : key(-7), tag(-7) { }
    Mo(int k, int t) noexcept : key(k), tag(t) { }
    Mo(Mo const&)            = delete;
    Mo& operator=(Mo const&) = delete;
    Mo(Mo&& o) noexcept : key(o.key), tag(o.tag)
    {
        vi::touch_write(&o, sizeof o, "move-from-outside-range");
        o.key = MOVED;
    }
    Mo& operator=(Mo&& o) noexcept
    {
        vi::touch_write(&o, sizeof o, "move-from-outside-range");
        vi::touch_write(this, sizeof o, "write-outside-range");
        if (this != &o) {
            key   = o.key;
            tag   = o.tag;
            o.key = MOVED;
        } else {
            // destructive under self-move-assignment (like a handle that releases its resource before taking the
            // other one): Cpp17MoveAssignable promises nothing for t = move(t), so no algorithm may depend on it.
            // A move-based self-swap (tmp = move(a); a = move(a); a = move(tmp)) still ends with the right value;
            // only final values are judged, against libstdc++ run on the plain copyable element.
            key = SELF_MOVED;
        }
        return *this;
    }
    friend bool operator==(Mo const& a, Mo const& b)
    {
        vi::touch_read(&a, sizeof a, "pred-outside-range");
        vi::touch_read(&b, sizeof b, "pred-outside-range");
        return a.key == b.key;
    }
    friend bool operator<(Mo const& a, Mo const& b)
    {
        vi::touch_read(&a, sizeof a, "pred-outside-range");
        vi::touch_read(&b, sizeof b, "pred-outside-range");
        return a.key < b.key;
    }
};

// a sequence of Mo in harness memory (exact-size block or embedded between guard objects)
struct MoRange {
    static constexpr std::size_t PAD = 2;
    vf::Buf<Mo> buf;
    Mo* lo;
    Mo* hi;
    std::size_t n;
    Pres pres;
    vi::Desc<Mo> desc;
    template <typename K>
    typename K::template it<Mo> at(std::size_t i)
    {
        desc.lo = lo;
        desc.hi = hi;
        return K::template make<Mo>(lo ? lo + i : nullptr, &desc);
    }
    MoRange(Seq const& v, Pres p) : buf(p == Pres::embedded ? v.size() + 2 * PAD : (p == Pres::null ? 0 : v.size())), n(v.size()), pres(p)
    {
        if (p == Pres::null) {
            lo = hi = nullptr;
            return;
        }
        lo = buf.data() + (p == Pres::embedded ? PAD : 0);
        hi = lo + n;
        if (p == Pres::embedded) {
            for (std::size_t i = 0; i < PAD; ++i) {
                new (buf.data() + i) Mo(i & 1, -1000 - (int)i);
                new (hi + i) Mo(i & 1, -1002 - (int)i);
            }
        }
        for (std::size_t i = 0; i < n; ++i) { new (lo + i) Mo(v[i].key, v[i].tag); }
        vi::add_block(buf.data(), buf.data() + buf.size());
        vi::add_handed(lo, hi, true);
    }
    Seq get() const
    {
        Seq s;
        for (Mo* p = lo; p != hi; ++p) { s.push_back(El{p->key, p->tag}); }
        return s;
    }
    bool guards_ok() const
    {
        if (pres != Pres::embedded) { return true; }
        for (std::size_t i = 0; i < PAD; ++i) {
            if (buf.data()[i].tag != -1000 - (int)i || buf.data()[i].key != (int)(i & 1)) { return false; }
            if (hi[i].tag != -1002 - (int)i || hi[i].key != (int)(i & 1)) { return false; }
        }
        return true;
    }
};
// the reference runs libstdc++ on the plain element El (its self-move-assignment is harmless; libstdc++'s own
// unique/remove self-move-assign), tetl runs on Mo
inline Seq to_mo(Seq const& s) { return s; }
inline Seq from_mo(Seq const& v) { return v; }
inline std::vector<Pres> mo_pres(std::size_t n)
{
    std::vector<Pres> v{Pres::exact, Pres::embedded};
    if (n == 0) { v.push_back(Pres::null); }
    return v;
}
inline void mo_fin(Trial& t, MoRange& r)
{
    if (!r.guards_ok()) { vf::diverge("guard-element-outside-range-modified", "range", "untouched"); }
    r.buf.check("range");
    t.done();
}
constexpr char const* KIND = "ptr<move-only>";

#if C06_MO_PART == 1
// ---------------------------------------------------------------- sorts (result: sorted permutation), partial_sort, nth_element
template <int F>
void mo_sort_call(Mo* b, Mo* e, int cm)
{
    Comp cmp{cm < 0 ? 0 : cm};
    if constexpr (F == 0) {
        cm < 0 ? etl::sort(b, e) : etl::sort(b, e, cmp);
    } else if constexpr (F == 1) {
        cm < 0 ? etl::gnome_sort(b, e) : etl::gnome_sort(b, e, cmp);
    } else if constexpr (F == 2) {
        cm < 0 ? etl::bubble_sort(b, e) : etl::bubble_sort(b, e, cmp);
    } else if constexpr (F == 3) {
        cm < 0 ? etl::exchange_sort(b, e) : etl::exchange_sort(b, e, cmp);
    } else {
        cm < 0 ? etl::merge_sort(b, e) : etl::merge_sort(b, e, cmp);
    }
}
template <int F>
void mo_sort(Ctx& c, char const* name)
{
    std::size_t const n = c.a.size();
    for (Pres pr : mo_pres(n)) {
        for (int cm = -1; cm <= 2; ++cm) {
            char op[64];
            std::snprintf(op, sizeof op, "%s(f,l%s)%s", name, cm < 0 ? "" : ",c", comp_name(cm));
            Trial t(c, KIND, op, pr, is_sorted_keys(c.a, cm) ? "already-sorted" : "unsorted", vf::mix(F, cm + 1), "-");
            MoRange r(c.a, pr);
            t.call([&] { mo_sort_call<F>(r.lo, r.hi, cm); });
            Seq got = r.get();
            if (t.permutation("range", got, c.a)) {
                if (F == 2) { // bubble_sort documents stability
                    Seq exp = c.a;
                    std::stable_sort(exp.begin(), exp.end(), Comp{cm < 0 ? 0 : cm});
                    t.seq("range", got, exp);
                } else {
                    t.require("range:not-sorted", is_sorted_keys(got, cm), show(got), "sorted w.r.t. the comparator");
                }
            }
            mo_fin(t, r);
        }
    }
}
void t_mo_sorts(Ctx& c)
{
    mo_sort<0>(c, "sort");
    mo_sort<1>(c, "gnome_sort");
    mo_sort<2>(c, "bubble_sort");
    mo_sort<3>(c, "exchange_sort");
    mo_sort<4>(c, "merge_sort");
}
void t_mo_partial(Ctx& c)
{
    std::size_t const n = c.a.size();
    for (Pres pr : mo_pres(n)) {
        for (int cm = -1; cm <= 2; ++cm) {
            Comp cmp{cm < 0 ? 0 : cm};
            char op[64];
            for (std::size_t mid = 0; mid <= n; ++mid) {
                {
                    std::snprintf(op, sizeof op, "partial_sort(f,m,l%s)%s", cm < 0 ? "" : ",c", comp_name(cm));
                    Trial t(c, KIND, op, pr, mid == 0 ? "mid=first" : (mid == n ? "mid=last" : "mid-inner"), vf::mix(mid, cm + 1), "mid=%zu", mid);
                    MoRange r(c.a, pr);
                    if (cm < 0) {
                        t.call([&] { etl::partial_sort(r.lo, r.lo + mid, r.hi); });
                    } else {
                        t.call([&] { etl::partial_sort(r.lo, r.lo + mid, r.hi, cmp); });
                    }
                    Seq got = r.get();
                    if (t.permutation("range", got, c.a)) {
                        bool ok = is_sorted_keys(Seq(got.begin(), got.begin() + (long)mid), cm);
                        for (std::size_t i = 0; ok && i < mid; ++i) {
                            for (std::size_t j = mid; j < n; ++j) {
                                if (cmp(got[j], got[i])) { ok = false; }
                            }
                        }
                        t.require("range:prefix-not-the-sorted-smallest", ok, show(got), "[first,middle) sorted and no later element less than any of them");
                    }
                    mo_fin(t, r);
                }
                {
                    std::snprintf(op, sizeof op, "nth_element(f,nth,l%s)%s", cm < 0 ? "" : ",c", comp_name(cm));
                    Trial t(c, KIND, op, pr, mid == 0 ? "nth=first" : (mid == n ? "nth=last" : "nth-inner"), vf::mix(mid, cm + 11), "nth=%zu", mid);
                    MoRange r(c.a, pr);
                    if (cm < 0) {
                        t.call([&] { etl::nth_element(r.lo, r.lo + mid, r.hi); });
                    } else {
                        t.call([&] { etl::nth_element(r.lo, r.lo + mid, r.hi, cmp); });
                    }
                    Seq got = r.get();
                    if (t.permutation("range", got, c.a) && mid < n) {
                        bool ok = true;
                        for (std::size_t i = 0; i < mid; ++i) {
                            for (std::size_t j = mid; j < n; ++j) {
                                if (cmp(got[j], got[i])) { ok = false; }
                            }
                        }
                        Seq srt = c.a;
                        std::stable_sort(srt.begin(), srt.end(), cmp);
                        if (cmp(srt[mid], got[mid]) || cmp(got[mid], srt[mid])) { ok = false; }
                        t.require("range:nth-not-in-sorted-position", ok, show(got), "element at nth as after a full sort; none before it greater, none after it less");
                    }
                    mo_fin(t, r);
                }
            }
        }
    }
}

// ---------------------------------------------------------------- in-place permuting / removing algorithms
void t_mo_inplace(Ctx& c)
{
    std::size_t const n = c.a.size();
    for (Pres pr : mo_pres(n)) {
        for (std::size_t mid = 0; mid <= n; ++mid) {
            auto m  = to_mo(c.a);
            auto se = std::rotate(m.begin(), m.begin() + (long)mid, m.end()) - m.begin();
            Trial t(c, KIND, "rotate(f,m,l)", pr, mid == 0 ? "mid=first" : (mid == n ? "mid=last" : "mid-inner"), 1 + mid, "mid=%zu", mid);
            MoRange r(c.a, pr);
            auto ret = t.call([&] { return etl::rotate(r.lo, r.lo + mid, r.hi); });
            t.off("ret", ret - r.lo, se);
            t.seq("range", r.get(), from_mo(m));
            mo_fin(t, r);
        }
        {
            auto m = to_mo(c.a);
            std::reverse(m.begin(), m.end());
            Trial t(c, KIND, "reverse(f,l)", pr, n % 2 ? "odd" : "even", 30, "-");
            MoRange r(c.a, pr);
            t.call([&] { etl::reverse(r.lo, r.hi); });
            t.seq("range", r.get(), from_mo(m));
            mo_fin(t, r);
        }
        for (int v = 0; v <= c.maxkey + 1; ++v) {
            Mo const val{v, -1};
            auto m  = to_mo(c.a);
            auto se = std::remove(m.begin(), m.end(), El{v, -1}) - m.begin();
            Trial t(c, KIND, "remove(f,l,v)", pr, se == 0 ? "all-removed" : (se == (long)n ? "none-removed" : "some-removed"), 40 + v, "v=%d", v);
            MoRange r(c.a, pr);
            auto ret = t.call([&] { return etl::remove(r.lo, r.hi, val); });
            if (t.off("ret", ret - r.lo, se)) {
                Seq got = r.get(), exp = from_mo(m);
                got.resize((std::size_t)se);
                exp.resize((std::size_t)se);
                t.seq("kept-part", got, exp);
            }
            mo_fin(t, r);
        }
        for (auto const& ps : kPreds) {
            Pred p{ps.mode, ps.arg};
            {
                auto m  = to_mo(c.a);
                auto se = std::remove_if(m.begin(), m.end(), p) - m.begin();
                Trial t(c, KIND, "remove_if(f,l,p)", pr, se == 0 ? "all-removed" : (se == (long)n ? "none-removed" : "some-removed"),
                    vf::mix(50 + ps.mode, ps.arg), "pred %s", ps.name);
                MoRange r(c.a, pr);
                auto ret = t.call([&] { return etl::remove_if(r.lo, r.hi, p); });
                if (t.off("ret", ret - r.lo, se)) {
                    Seq got = r.get(), exp = from_mo(m);
                    got.resize((std::size_t)se);
                    exp.resize((std::size_t)se);
                    t.seq("kept-part", got, exp);
                }
                mo_fin(t, r);
            }
            {
                long cnt = std::count_if(c.a.begin(), c.a.end(), p);
                Trial t(c, KIND, "partition(f,l,p)", pr, cnt == 0 ? "none-true" : (cnt == (long)n ? "all-true" : "mixed"), vf::mix(60 + ps.mode, ps.arg),
                    "pred %s", ps.name);
                MoRange r(c.a, pr);
                auto ret = t.call([&] { return etl::partition(r.lo, r.hi, p); });
                Seq got  = r.get();
                t.off("ret", ret - r.lo, cnt);
                if (t.permutation("range", got, c.a)) {
                    t.require("range:not-partitioned", std::is_partitioned(got.begin(), got.end(), p), show(got), "all true elements before all false ones");
                }
                mo_fin(t, r);
            }
            {
                auto m  = to_mo(c.a);
                auto se = std::stable_partition(m.begin(), m.end(), p) - m.begin();
                Trial t(c, KIND, "stable_partition(f,l,p)", pr, se == 0 ? "none-true" : (se == (long)n ? "all-true" : "mixed"), vf::mix(70 + ps.mode, ps.arg),
                    "pred %s", ps.name);
                MoRange r(c.a, pr);
                auto ret = t.call([&] { return etl::stable_partition(r.lo, r.hi, p); });
                t.off("ret", ret - r.lo, se);
                t.seq("range", r.get(), from_mo(m));
                mo_fin(t, r);
            }
        }
        for (int em = -1; em <= 1; ++em) {
            Eq eq{em < 0 ? 0 : em};
            auto m  = to_mo(c.a);
            auto se = (em < 0 ? std::unique(m.begin(), m.end()) : std::unique(m.begin(), m.end(), eq)) - m.begin();
            char op[48];
            std::snprintf(op, sizeof op, "unique(f,l%s)%s", em < 0 ? "" : ",p", eq_name(em));
            Trial t(c, KIND, op, pr, se == (long)n ? "no-duplicates" : "duplicates", 80 + em, "-");
            MoRange r(c.a, pr);
            auto ret = em < 0 ? t.call([&] { return etl::unique(r.lo, r.hi); }) : t.call([&] { return etl::unique(r.lo, r.hi, eq); });
            if (t.off("ret", ret - r.lo, se)) {
                Seq got = r.get(), exp = from_mo(m);
                got.resize((std::size_t)se);
                exp.resize((std::size_t)se);
                t.seq("kept-part", got, exp);
            }
            mo_fin(t, r);
        }
        for (long k = 0; k <= (long)n + 1; ++k) {
            {
                auto m  = to_mo(c.a);
                auto se = std::shift_left(m.begin(), m.end(), k) - m.begin();
                Trial t(c, KIND, "shift_left(f,l,n)", pr, ncls(k, n), 90 + (std::uint64_t)k, "n=%ld", k);
                MoRange r(c.a, pr);
                auto ret = t.call([&] { return etl::shift_left(r.lo, r.hi, k); });
                if (t.off("ret", ret - r.lo, se)) {
                    Seq got = r.get(), exp = from_mo(m);
                    got.resize((std::size_t)se);
                    exp.resize((std::size_t)se);
                    t.seq("shifted-part", got, exp);
                }
                mo_fin(t, r);
            }
            {
                auto m  = to_mo(c.a);
                auto se = std::shift_right(m.begin(), m.end(), k) - m.begin();
                Trial t(c, KIND, "shift_right(f,l,n)", pr, ncls(k, n), 120 + (std::uint64_t)k, "n=%ld", k);
                MoRange r(c.a, pr);
                auto ret = t.call([&] { return etl::shift_right(r.lo, r.hi, k); });
                if (t.off("ret", ret - r.lo, se)) {
                    Seq got = r.get(), exp = from_mo(m);
                    t.seq("shifted-part", Seq(got.begin() + se, got.end()), Seq(exp.begin() + se, exp.end()));
                }
                mo_fin(t, r);
            }
        }
        for (int cm = -1; cm <= 2; ++cm) {
            Comp cmp{cm < 0 ? 0 : cm};
            for (std::size_t mid = 0; mid <= n; ++mid) {
                Seq in = c.a;
                if (!(is_sorted_keys(Seq(in.begin(), in.begin() + (long)mid), cm) && is_sorted_keys(Seq(in.begin() + (long)mid, in.end()), cm))) {
                    if (c.enumerated) { continue; }
                    std::stable_sort(in.begin(), in.begin() + (long)mid, cmp);
                    std::stable_sort(in.begin() + (long)mid, in.end(), cmp);
                }
                auto m = to_mo(in);
                std::inplace_merge(m.begin(), m.begin() + (long)mid, m.end(), cmp);
                char op[64];
                std::snprintf(op, sizeof op, "inplace_merge(f,m,l%s)%s", cm < 0 ? "" : ",c", comp_name(cm));
                Trial t(c, KIND, op, pr, mid == 0 ? "mid=first" : (mid == n ? "mid=last" : "mid-inner"), vf::mix(vf::mix(150 + mid, cm + 1), hash_seq(in)),
                    "in=%s mid=%zu", show(in, false).c_str(), mid);
                MoRange r(in, pr);
                if (cm < 0) {
                    t.call([&] { etl::inplace_merge(r.lo, r.lo + mid, r.hi); });
                } else {
                    t.call([&] { etl::inplace_merge(r.lo, r.lo + mid, r.hi, cmp); });
                }
                t.seq("range", r.get(), from_mo(m));
                mo_fin(t, r);
            }
        }
    }
}

// ---------------------------------------------------------------- move / move_backward / swap_ranges / iter_swap / swap
void t_mo_move(Ctx& c)
{
    std::size_t const n = c.a.size();
    Seq const fresh(n, El{-5, -5});
    for (Pres pr : mo_pres(n)) {
        {
            Trial t(c, KIND, "move(f,l,d)", pr, "", 1, "-");
            MoRange r(c.a, pr), d(fresh, pres2(pr, n));
            auto ret = t.call([&] { return etl::move(r.lo, r.hi, d.lo); });
            t.off("ret", ret - d.lo, (long)n);
            t.seq("output", d.get(), c.a);
            if (!d.guards_ok()) { vf::diverge("guard-element-outside-range-modified", "output", "untouched"); }
            d.buf.check("output");
            mo_fin(t, r);
        }
        {
            Trial t(c, KIND, "move_backward(f,l,dl)", pr, "", 2, "-");
            MoRange r(c.a, pr), d(fresh, pres2(pr, n));
            auto ret = t.call([&] { return etl::move_backward(r.lo, r.hi, d.hi); });
            t.off("ret", ret - d.lo, 0);
            t.seq("output", d.get(), c.a);
            if (!d.guards_ok()) { vf::diverge("guard-element-outside-range-modified", "output", "untouched"); }
            d.buf.check("output");
            mo_fin(t, r);
        }
        for (std::size_t k = 1; k <= n; ++k) { // within one range: the overlaps the standard permits
            {
                Trial t(c, KIND, "move(f,l,d)", pr, "overlapping-left", 100 + k, "shift=%zu", k);
                MoRange r(c.a, pr);
                auto ret = t.call([&] { return etl::move(r.lo + k, r.hi, r.lo); });
                t.off("ret", ret - r.lo, (long)(n - k));
                Seq got = r.get();
                t.seq("moved-part", Seq(got.begin(), got.end() - (long)k), Seq(c.a.begin() + (long)k, c.a.end()));
                mo_fin(t, r);
            }
            {
                Trial t(c, KIND, "move_backward(f,l,dl)", pr, "overlapping-right", 200 + k, "shift=%zu", k);
                MoRange r(c.a, pr);
                auto ret = t.call([&] { return etl::move_backward(r.lo, r.hi - k, r.hi); });
                t.off("ret", ret - r.lo, (long)k);
                Seq got = r.get();
                t.seq("moved-part", Seq(got.begin() + (long)k, got.end()), Seq(c.a.begin(), c.a.end() - (long)k));
                mo_fin(t, r);
            }
        }
        {
            Seq y(c.a.rbegin(), c.a.rend());
            for (auto& e : y) { e.tag += 200; }
            Trial t(c, KIND, "swap_ranges(f1,l1,f2)", pr, "", 3, "y=reverse(a)");
            MoRange r(c.a, pr), r2(y, pr);
            auto ret = t.call([&] { return etl::swap_ranges(r.lo, r.hi, r2.lo); });
            t.off("ret", ret - r2.lo, (long)n);
            t.seq("range1", r.get(), y);
            t.seq("range2", r2.get(), c.a);
            if (!r2.guards_ok()) { vf::diverge("guard-element-outside-range-modified", "range2", "untouched"); }
            mo_fin(t, r);
        }
        for (std::size_t i = 0; i < n; ++i) {
            for (std::size_t j = i; j < n; ++j) {
                Seq exp = c.a;
                std::iter_swap(exp.begin() + (long)i, exp.begin() + (long)j);
                {
                    Trial t(c, KIND, "iter_swap(a,b)", pr, i == j ? "same" : "distinct", 10 + vf::mix(i, j), "i=%zu j=%zu", i, j);
                    MoRange r(c.a, pr);
                    t.call([&] { etl::iter_swap(r.lo + i, r.lo + j); });
                    t.seq("range", r.get(), exp);
                    mo_fin(t, r);
                }
                {
                    Trial t(c, KIND, "swap(a,b)", pr, i == j ? "same" : "distinct", 40 + vf::mix(i, j), "i=%zu j=%zu", i, j);
                    MoRange r(c.a, pr);
                    t.call([&] { etl::swap(r.lo[i], r.lo[j]); });
                    t.seq("range", r.get(), exp);
                    mo_fin(t, r);
                }
            }
        }
    }
}

// ---------------------------------------------------------------- the same element through the iterator wrappers (weakest category each)
template <typename K>
void mo_wrapped_fwd(Ctx& c)
{
    std::size_t const n = c.a.size();
    char kind[48];
    std::snprintf(kind, sizeof kind, "%s<move-only>", K::name);
    for (Pres pr : pres_for<K>(n)) {
        for (int em = -1; em <= 1; ++em) {
            Eq eq{em < 0 ? 0 : em};
            Seq m   = c.a;
            auto se = (em < 0 ? std::unique(m.begin(), m.end()) : std::unique(m.begin(), m.end(), eq)) - m.begin();
            char op[48];
            std::snprintf(op, sizeof op, "unique(f,l%s)%s", em < 0 ? "" : ",p", eq_name(em));
            Trial t(c, kind, op, pr, se == (long)n ? "no-duplicates" : "duplicates", 80 + em, "-");
            MoRange r(c.a, pr);
            auto ret = em < 0 ? t.call([&] { return etl::unique(r.at<K>(0), r.at<K>(n)); }) : t.call([&] { return etl::unique(r.at<K>(0), r.at<K>(n), eq); });
            if (t.off("ret", K::raw(ret) - r.lo, se)) {
                Seq got = r.get();
                got.resize((std::size_t)se);
                m.resize((std::size_t)se);
                t.seq("kept-part", got, m);
            }
            mo_fin(t, r);
        }
        for (auto const& ps : kPreds) {
            Pred p{ps.mode, ps.arg};
            {
                Seq m   = c.a;
                auto se = std::remove_if(m.begin(), m.end(), p) - m.begin();
                Trial t(c, kind, "remove_if(f,l,p)", pr, se == 0 ? "all-removed" : (se == (long)n ? "none-removed" : "some-removed"), vf::mix(50 + ps.mode, ps.arg),
                    "pred %s", ps.name);
                MoRange r(c.a, pr);
                auto ret = t.call([&] { return etl::remove_if(r.at<K>(0), r.at<K>(n), p); });
                if (t.off("ret", K::raw(ret) - r.lo, se)) {
                    Seq got = r.get();
                    got.resize((std::size_t)se);
                    m.resize((std::size_t)se);
                    t.seq("kept-part", got, m);
                }
                mo_fin(t, r);
            }
            {
                long cnt = std::count_if(c.a.begin(), c.a.end(), p);
                Trial t(c, kind, "partition(f,l,p)", pr, cnt == 0 ? "none-true" : (cnt == (long)n ? "all-true" : "mixed"), vf::mix(60 + ps.mode, ps.arg), "pred %s",
                    ps.name);
                MoRange r(c.a, pr);
                auto ret = t.call([&] { return etl::partition(r.at<K>(0), r.at<K>(n), p); });
                Seq got  = r.get();
                t.off("ret", K::raw(ret) - r.lo, cnt);
                if (t.permutation("range", got, c.a)) {
                    t.require("range:not-partitioned", std::is_partitioned(got.begin(), got.end(), p), show(got), "all true elements before all false ones");
                }
                mo_fin(t, r);
            }
        }
        for (std::size_t mid = 0; mid <= n; ++mid) {
            Seq m   = c.a;
            auto se = std::rotate(m.begin(), m.begin() + (long)mid, m.end()) - m.begin();
            Trial t(c, kind, "rotate(f,m,l)", pr, mid == 0 ? "mid=first" : (mid == n ? "mid=last" : "mid-inner"), 1 + mid, "mid=%zu", mid);
            MoRange r(c.a, pr);
            auto ret = t.call([&] { return etl::rotate(r.at<K>(0), r.at<K>(mid), r.at<K>(n)); });
            t.off("ret", K::raw(ret) - r.lo, se);
            t.seq("range", r.get(), m);
            mo_fin(t, r);
        }
        for (long k = 0; k <= (long)n + 1; ++k) {
            Seq m   = c.a;
            auto se = std::shift_left(m.begin(), m.end(), k) - m.begin();
            Trial t(c, kind, "shift_left(f,l,n)", pr, ncls(k, n), 90 + (std::uint64_t)k, "n=%ld", k);
            MoRange r(c.a, pr);
            auto ret = t.call([&] { return etl::shift_left(r.at<K>(0), r.at<K>(n), k); });
            if (t.off("ret", K::raw(ret) - r.lo, se)) {
                Seq got = r.get();
                got.resize((std::size_t)se);
                m.resize((std::size_t)se);
                t.seq("shifted-part", got, m);
            }
            mo_fin(t, r);
        }
        if constexpr (!std::is_same_v<K, KFwd>) {
            {
                Seq m(c.a.rbegin(), c.a.rend());
                Trial t(c, kind, "reverse(f,l)", pr, n % 2 ? "odd" : "even", 30, "-");
                MoRange r(c.a, pr);
                t.call([&] { etl::reverse(r.at<K>(0), r.at<K>(n)); });
                t.seq("range", r.get(), m);
                mo_fin(t, r);
            }
            for (long k = 0; k <= (long)n + 1; ++k) {
                Seq m   = c.a;
                auto se = std::shift_right(m.begin(), m.end(), k) - m.begin();
                Trial t(c, kind, "shift_right(f,l,n)", pr, ncls(k, n), 120 + (std::uint64_t)k, "n=%ld", k);
                MoRange r(c.a, pr);
                auto ret = t.call([&] { return etl::shift_right(r.at<K>(0), r.at<K>(n), k); });
                if (t.off("ret", K::raw(ret) - r.lo, se)) {
                    Seq got = r.get();
                    t.seq("shifted-part", Seq(got.begin() + se, got.end()), Seq(m.begin() + se, m.end()));
                }
                mo_fin(t, r);
            }
            for (auto const& ps : kPreds) {
                Pred p{ps.mode, ps.arg};
                Seq m   = c.a;
                auto se = std::stable_partition(m.begin(), m.end(), p) - m.begin();
                Trial t(c, kind, "stable_partition(f,l,p)", pr, se == 0 ? "none-true" : (se == (long)n ? "all-true" : "mixed"), vf::mix(70 + ps.mode, ps.arg),
                    "pred %s", ps.name);
                MoRange r(c.a, pr);
                auto ret = t.call([&] { return etl::stable_partition(r.at<K>(0), r.at<K>(n), p); });
                t.off("ret", K::raw(ret) - r.lo, se);
                t.seq("range", r.get(), m);
                mo_fin(t, r);
            }
        }
    }
}
void t_mo_wrapped(Ctx& c)
{
    mo_wrapped_fwd<KFwd>(c);
    mo_wrapped_fwd<KBidi>(c);
}

Test const kTests[] = {
    {"mo_sorts", t_mo_sorts},
    {"mo_partial", t_mo_partial},
    {"mo_inplace", t_mo_inplace},
    {"mo_move", t_mo_move},
    {"mo_wrapped", t_mo_wrapped},
};
std::size_t const kNumTests = sizeof(kTests) / sizeof(kTests[0]);
} // namespace c06
C06_MAIN("C06_moveonly")

#else
// ---------------------------------------------------------------- stable_sort / insertion_sort on move-only elements
template <int F>
void mo_stable(Ctx& c, char const* name)
{
    std::size_t const n = c.a.size();
    for (Pres pr : mo_pres(n)) {
        for (int cm = -1; cm <= 2; ++cm) {
            Comp cmp{cm < 0 ? 0 : cm};
            char op[64];
            std::snprintf(op, sizeof op, "%s(f,l%s)%s", name, cm < 0 ? "" : ",c", comp_name(cm));
            Trial t(c, KIND, op, pr, is_sorted_keys(c.a, cm) ? "already-sorted" : "unsorted", vf::mix(F, cm + 1), "-");
            MoRange r(c.a, pr);
            if constexpr (F == 0) {
                t.call([&] { cm < 0 ? etl::stable_sort(r.lo, r.hi) : etl::stable_sort(r.lo, r.hi, cmp); });
            } else {
                t.call([&] { cm < 0 ? etl::insertion_sort(r.lo, r.hi) : etl::insertion_sort(r.lo, r.hi, cmp); });
            }
            Seq got = r.get();
            if (t.permutation("range", got, c.a)) {
                auto m = to_mo(c.a); // both document stability
                std::stable_sort(m.begin(), m.end(), cmp);
                t.seq("range", got, from_mo(m));
            }
            mo_fin(t, r);
        }
    }
}
void t_mo_stable(Ctx& c)
{
    mo_stable<0>(c, "stable_sort");
    mo_stable<1>(c, "insertion_sort");
}
Test const kTests[]         = {{"mo_stable_sort", t_mo_stable}};
std::size_t const kNumTests = 1;
} // namespace c06
C06_MAIN("C06_probe_stable_sort_moveonly")
#endif
