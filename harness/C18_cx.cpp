// C18 - constant-evaluation twin (DESIGN 4, C18): every function of the property that is declared constexpr is
// evaluated on a table of calls THREE times - by the compiler in a constant expression (etl), at run time with
// laundered inputs (etl), and at run time by the host C library - and both etl results are compared with glibc.
//   -DVF_WIDE=0: str* (all constexpr narrow functions), cctype, div/ldiv/lldiv/imaxdiv/abs/labs/llabs
//   -DVF_WIDE=1: wcs*, wmemcmp/wmemchr/wmemcpy/wmemmove/wmemset, cwctype
// (narrow memcpy/memmove/memset/memcmp/memchr are not constexpr in tetl: nothing to twin.)
// One generic routine `run<Lib>(op, ia, ib, in)` builds its operands from indices and performs the call through the
// policy Lib (etl or libc), so the constexpr table, the run-time twin and the reference share the exact same set-up.
// Tables: all pairs of strings of length <= VF_CX_LEN (3) over {a, b, 0xE9} x every count 0..len+2 and SIZE_MAX;
// blocks of length <= 3 over {a, b, 0xE9, 0} for wmemcmp/wmemchr/wmemcpy; every (src, dst, n) inside an 8-element
// buffer x 2 content patterns for wmemmove / wmemcpy (disjoint) / wmemset; classification: EOF + 0..255 / WEOF + 0..0x3FF.
#include "vf.hpp"
#include "vf_contract.hpp"
#include "vf_cstr.hpp"

#include <array>
#include <cctype>
#include <cinttypes>
#include <climits>
#include <clocale>
#include <cstdlib>
#include <cstring>
#include <cwchar>
#include <cwctype>
#include <limits>
#include <utility>

#include <etl/cctype.hpp>
#include <etl/cstdlib.hpp>
#include <etl/cstring.hpp>
#include <etl/cwchar.hpp>
#include <etl/cwctype.hpp>

#ifndef VF_WIDE
    #define VF_WIDE 0
#endif
#ifndef VF_CX_LEN
    #define VF_CX_LEN 3
#endif

#if VF_WIDE
    #define NM(s, w) w
    #define SUBJ     "cwchar"
    #define UNIT     "C18_cx_wchar_t"
using Ch = wchar_t;
#else
    #define NM(s, w) s
    #define SUBJ     "cstring"
    #define UNIT     "C18_cx_char"
using Ch = char;
#endif

namespace {
using C = Ch const;
using vfc::opaque;
constexpr auto SMAX       = static_cast<std::size_t>(-1);
constexpr unsigned L      = VF_CX_LEN;
constexpr std::size_t IMG = 2 * L + 4 < 10 ? 10 : 2 * L + 4; // sentinel + destination extent (<= 2L+2, >= 8 for the move table) + spare
constexpr Ch PRE          = Ch(0x11);
constexpr Ch ROOM         = Ch(0x5A);
constexpr Ch HI           = static_cast<Ch>(0xE9);

constexpr unsigned count_strings(unsigned A, unsigned maxlen)
{
    unsigned t = 0, c = 1;
    for (unsigned l = 0; l <= maxlen; ++l, c *= A) { t += c; }
    return t;
}
constexpr unsigned NS3 = count_strings(3, L);
constexpr unsigned NS4 = count_strings(4, L);

struct S {
    Ch c[L + 1]; // c[len] == 0 for strings; blocks use c[0..len)
    unsigned len;
};
constexpr Ch sym(unsigned i) { return i == 0 ? Ch('a') : (i == 1 ? Ch('b') : (i == 2 ? HI : Ch(0))); }
constexpr S nth(unsigned k, unsigned A)
{
    S s{};
    unsigned cnt = 1;
    for (unsigned len = 0; len <= L; ++len, cnt *= A) {
        if (k < cnt) {
            s.len = len;
            for (unsigned i = 0; i < len; ++i) {
                s.c[len - 1 - i] = sym(k % A);
                k /= A;
            }
            return s;
        }
        k -= cnt;
    }
    return s;
}
constexpr Ch CHS[5] = {Ch('a'), Ch('b'), HI, Ch(0), Ch('c')};

struct Res {
    long long ret; // length / sign / offset (-1 = null)
    Ch img[IMG];   // destination image (sentinel, extent, spare)
};
constexpr int sgn(long long v) { return (v > 0) - (v < 0); }

// ------------------------------------------------------------------ the two libraries behind one interface
struct EtlLib {
    static constexpr auto len(C* s) { return etl::NM(strlen, wcslen)(s); }
    static constexpr auto cmp(C* a, C* b) { return etl::NM(strcmp, wcscmp)(a, b); }
    static constexpr auto ncmp(C* a, C* b, std::size_t n) { return etl::NM(strncmp, wcsncmp)(a, b, n); }
    static constexpr auto cpy(Ch* d, C* s) { return etl::NM(strcpy, wcscpy)(d, s); }
    static constexpr auto ncpy(Ch* d, C* s, std::size_t n) { return etl::NM(strncpy, wcsncpy)(d, s, n); }
    static constexpr auto cat(Ch* d, C* s) { return etl::NM(strcat, wcscat)(d, s); }
    static constexpr auto ncat(Ch* d, C* s, std::size_t n) { return etl::NM(strncat, wcsncat)(d, s, n); }
    static constexpr C* chr_c(C* s, int c) { return etl::NM(strchr, wcschr)(s, c); }
    static constexpr Ch* chr_m(Ch* s, int c) { return etl::NM(strchr, wcschr)(s, c); }
    static constexpr C* rchr_c(C* s, int c) { return etl::NM(strrchr, wcsrchr)(s, c); }
    static constexpr Ch* rchr_m(Ch* s, int c) { return etl::NM(strrchr, wcsrchr)(s, c); }
    static constexpr auto spn(C* a, C* b) { return etl::NM(strspn, wcsspn)(a, b); }
    static constexpr auto cspn(C* a, C* b) { return etl::NM(strcspn, wcscspn)(a, b); }
    static constexpr C* pbrk_c(C* a, C* b) { return etl::NM(strpbrk, wcspbrk)(a, b); }
    static constexpr Ch* pbrk_m(Ch* a, Ch* b) { return etl::NM(strpbrk, wcspbrk)(a, b); }
    static constexpr C* str_c(C* a, C* b) { return etl::NM(strstr, wcsstr)(a, b); }
    static constexpr Ch* str_m(Ch* a, Ch* b) { return etl::NM(strstr, wcsstr)(a, b); }
#if VF_WIDE
    static constexpr auto mcmp(C* a, C* b, std::size_t n) { return etl::wmemcmp(a, b, n); }
    static constexpr C* mchr_c(C* a, Ch c, std::size_t n) { return etl::wmemchr(a, c, n); }
    static constexpr Ch* mchr_m(Ch* a, Ch c, std::size_t n) { return etl::wmemchr(a, c, n); }
    static constexpr auto mcpy(Ch* d, C* s, std::size_t n) { return etl::wmemcpy(d, s, n); }
    static constexpr auto mmove(Ch* d, C* s, std::size_t n) { return etl::wmemmove(d, s, n); }
    static constexpr auto mset(Ch* d, Ch c, std::size_t n) { return etl::wmemset(d, c, n); }
#endif
};
struct LibcLib { // never constant-evaluated
    static auto len(C* s) { return ::NM(strlen, wcslen)(s); }
    static auto cmp(C* a, C* b) { return ::NM(strcmp, wcscmp)(a, b); }
    static auto ncmp(C* a, C* b, std::size_t n) { return ::NM(strncmp, wcsncmp)(a, b, n); }
    static auto cpy(Ch* d, C* s) { return ::NM(strcpy, wcscpy)(d, s); }
    static auto ncpy(Ch* d, C* s, std::size_t n) { return ::NM(strncpy, wcsncpy)(d, s, n); }
    static auto cat(Ch* d, C* s) { return ::NM(strcat, wcscat)(d, s); }
    static auto ncat(Ch* d, C* s, std::size_t n) { return ::NM(strncat, wcsncat)(d, s, n); }
    static C* chr_c(C* s, int c) { return ::NM(strchr, wcschr)(s, static_cast<NM(int, wchar_t)>(c)); }
    static Ch* chr_m(Ch* s, int c) { return ::NM(strchr, wcschr)(s, static_cast<NM(int, wchar_t)>(c)); }
    static C* rchr_c(C* s, int c) { return ::NM(strrchr, wcsrchr)(s, static_cast<NM(int, wchar_t)>(c)); }
    static Ch* rchr_m(Ch* s, int c) { return ::NM(strrchr, wcsrchr)(s, static_cast<NM(int, wchar_t)>(c)); }
    static auto spn(C* a, C* b) { return ::NM(strspn, wcsspn)(a, b); }
    static auto cspn(C* a, C* b) { return ::NM(strcspn, wcscspn)(a, b); }
    static C* pbrk_c(C* a, C* b) { return ::NM(strpbrk, wcspbrk)(a, b); }
    static Ch* pbrk_m(Ch* a, Ch* b) { return ::NM(strpbrk, wcspbrk)(a, static_cast<C*>(b)); }
    static C* str_c(C* a, C* b) { return ::NM(strstr, wcsstr)(a, b); }
    static Ch* str_m(Ch* a, Ch* b) { return ::NM(strstr, wcsstr)(a, static_cast<C*>(b)); }
#if VF_WIDE
    static auto mcmp(C* a, C* b, std::size_t n) { return ::wmemcmp(a, b, n); }
    static C* mchr_c(C* a, Ch c, std::size_t n) { return ::wmemchr(a, c, n); }
    static Ch* mchr_m(Ch* a, Ch c, std::size_t n) { return ::wmemchr(a, c, n); }
    static auto mcpy(Ch* d, C* s, std::size_t n) { return ::wmemcpy(d, s, n); }
    static auto mmove(Ch* d, C* s, std::size_t n) { return ::wmemmove(d, s, n); }
    static auto mset(Ch* d, Ch c, std::size_t n) { return ::wmemset(d, c, n); }
#endif
};

// ------------------------------------------------------------------ operations
enum Op : unsigned {
    O_LEN,
    O_CPY,
    O_NCPY,
    O_CHR_C,
    O_CHR_M,
    O_RCHR_C,
    O_RCHR_M,
    O_CMP,
    O_NCMP,
    O_CAT,
    O_NCAT,
    O_SPN,
    O_CSPN,
    O_PBRK_C,
    O_PBRK_M,
    O_STR_C,
    O_STR_M,
#if VF_WIDE
    O_MCMP,
    O_MCHR_C,
    O_MCHR_M,
    O_MCPY,
    O_MOVE, // ia = pattern*9 + src offset, ib = dst offset, in = n (clamped)
    O_MCPY_ARENA,
    O_MSET, // ia = value index, ib = dst offset, in = n (clamped)
#endif
    O_COUNT
};
constexpr char const* OPNAME[] = {NM("strlen", "wcslen"), NM("strcpy", "wcscpy"), NM("strncpy", "wcsncpy"), NM("strchr(char const*)", "wcschr(wchar_t const*)"),
    NM("strchr(char*)", "wcschr(wchar_t*)"), NM("strrchr(char const*)", "wcsrchr(wchar_t const*)"), NM("strrchr(char*)", "wcsrchr(wchar_t*)"), NM("strcmp", "wcscmp"),
    NM("strncmp", "wcsncmp"), NM("strcat", "wcscat"), NM("strncat", "wcsncat"), NM("strspn", "wcsspn"), NM("strcspn", "wcscspn"),
    NM("strpbrk(char const*)", "wcspbrk(wchar_t const*)"), NM("strpbrk(char*)", "wcspbrk(wchar_t*)"), NM("strstr(char const*)", "wcsstr(wchar_t const*)"),
    NM("strstr(char*)", "wcsstr(wchar_t*)"),
#if VF_WIDE
    "wmemcmp", "wmemchr(wchar_t const*)", "wmemchr(wchar_t*)", "wmemcpy", "wmemmove", "wmemcpy[arena]", "wmemset",
#endif
};
constexpr bool is_ptr_op(unsigned op)
{
    switch (op) {
    case O_LEN:
    case O_CMP:
    case O_NCMP:
    case O_SPN:
    case O_CSPN: return false;
#if VF_WIDE
    case O_MCMP: return false;
#endif
    default: return true;
    }
}
constexpr unsigned ARENA = 8;
constexpr unsigned dimA(unsigned op)
{
#if VF_WIDE
    if (op == O_MOVE || op == O_MCPY_ARENA) { return 2 * (ARENA + 1); }
    if (op == O_MSET) { return 4; }
    if (op >= O_MCMP) { return NS4; }
#endif
    return NS3;
}
constexpr unsigned dimB(unsigned op)
{
#if VF_WIDE
    if (op == O_MOVE || op == O_MCPY_ARENA || op == O_MSET) { return ARENA + 1; }
    if (op == O_MCMP) { return NS4; }
    if (op > O_MCMP) { return 1; }
#endif
    return op >= O_CMP ? NS3 : 1;
}
constexpr unsigned dimN(unsigned op)
{
    switch (op) {
    case O_NCMP:
    case O_NCAT: return L + 4; // 0..L+2, SIZE_MAX
    case O_NCPY: return L + 3; // 0..L+2
    case O_CHR_C:
    case O_CHR_M:
    case O_RCHR_C:
    case O_RCHR_M: return 5;
#if VF_WIDE
    case O_MCMP: return L + 1;
    case O_MCHR_C:
    case O_MCHR_M: return (L + 1) * 5;
    case O_MOVE:
    case O_MCPY_ARENA:
    case O_MSET: return ARENA + 1;
#endif
    default: return 1;
    }
}
constexpr std::size_t cells(unsigned op) { return std::size_t{dimA(op)} * dimB(op) * dimN(op); }

#if VF_WIDE
constexpr Ch arena_elem(unsigned pat, unsigned i) { return pat == 0 ? static_cast<Ch>('A' + i) : (i % 3 == 1 ? Ch(0) : static_cast<Ch>(0xE0 + i)); }
constexpr Ch SETV[4] = {Ch(0), Ch('a'), HI, static_cast<Ch>(WCHAR_MAX)};
#endif

// Marks a cell whose call C does not define (overlapping wmemcpy); never compared.
constexpr long long SKIP = -77;

template <typename Lib>
constexpr Res run(unsigned op, unsigned ia, unsigned ib, unsigned in)
{
    Res r{};
    for (auto& c : r.img) { c = ROOM; }
    r.img[0]    = PRE;
    Ch* const d = r.img + 1;
    auto po     = [](C* p, C* base) -> long long { return p == nullptr ? -1 : static_cast<long long>(p - base); };
#if VF_WIDE
    if (op == O_MOVE || op == O_MCPY_ARENA || op == O_MSET) {
        Ch* const a = r.img + 1; // 8-element arena inside the image
        unsigned pat = op == O_MSET ? 1 : ia / (ARENA + 1);
        for (unsigned i = 0; i < ARENA; ++i) { a[i] = arena_elem(pat, i); }
        unsigned so = op == O_MSET ? 0 : ia % (ARENA + 1), dof = ib;
        unsigned mx = ARENA - (so > dof ? so : dof);
        std::size_t n = in < mx ? in : mx;
        if (op == O_MSET) {
            r.ret = po(Lib::mset(a + dof, SETV[ia], n), a + dof);
        } else if (op == O_MOVE) {
            r.ret = po(Lib::mmove(a + dof, a + so, n), a + dof);
        } else {
            bool overlap = n != 0 && so < dof + n && dof < so + n;
            r.ret        = overlap ? SKIP : po(Lib::mcpy(a + dof, a + so, n), a + dof);
        }
        return r;
    }
    if (op >= O_MCMP) {
        S x = nth(ia, 4), y = nth(ib, 4);
        switch (op) {
        case O_MCMP: {
            std::size_t n = in;
            if (n > x.len) { n = x.len; }
            if (n > y.len) { n = y.len; }
            r.ret = sgn(Lib::mcmp(x.c, y.c, n));
        } break;
        case O_MCHR_C: {
            std::size_t n = in / 5 < x.len ? in / 5 : x.len;
            r.ret         = po(Lib::mchr_c(x.c, CHS[in % 5], n), x.c);
        } break;
        case O_MCHR_M: {
            std::size_t n = in / 5 < x.len ? in / 5 : x.len;
            r.ret         = po(Lib::mchr_m(x.c, CHS[in % 5], n), x.c);
        } break;
        default: r.ret = po(Lib::mcpy(d, x.c, x.len), d); break;
        }
        return r;
    }
#endif
    S a = nth(ia, 3), b = nth(ib, 3);
    C* const ca         = a.c;
    C* const cb         = b.c;
    std::size_t const n = in <= L + 2 ? in : SMAX;
    switch (op) {
    case O_LEN: r.ret = static_cast<long long>(Lib::len(ca)); break;
    case O_CPY: r.ret = po(Lib::cpy(d, ca), d); break;
    case O_NCPY: r.ret = po(Lib::ncpy(d, ca, n), d); break;
    case O_CHR_C: r.ret = po(Lib::chr_c(ca, CHS[in]), ca); break;
    case O_CHR_M: r.ret = po(Lib::chr_m(a.c, CHS[in]), ca); break;
    case O_RCHR_C: r.ret = po(Lib::rchr_c(ca, CHS[in]), ca); break;
    case O_RCHR_M: r.ret = po(Lib::rchr_m(a.c, CHS[in]), ca); break;
    case O_CMP: r.ret = sgn(Lib::cmp(ca, cb)); break;
    case O_NCMP: r.ret = sgn(Lib::ncmp(ca, cb, n)); break;
    case O_CAT:
    case O_NCAT:
        for (unsigned i = 0; i <= a.len; ++i) { d[i] = a.c[i]; }
        r.ret = op == O_CAT ? po(Lib::cat(d, cb), d) : po(Lib::ncat(d, cb, n), d);
        break;
    case O_SPN: r.ret = static_cast<long long>(Lib::spn(ca, cb)); break;
    case O_CSPN: r.ret = static_cast<long long>(Lib::cspn(ca, cb)); break;
    case O_PBRK_C: r.ret = po(Lib::pbrk_c(ca, cb), ca); break;
    case O_PBRK_M: r.ret = po(Lib::pbrk_m(a.c, b.c), ca); break;
    case O_STR_C: r.ret = po(Lib::str_c(ca, cb), ca); break;
    default: r.ret = po(Lib::str_m(a.c, b.c), ca); break;
    }
    return r;
}

// ------------------------------------------------------------------ constant-evaluated tables, one constant expression per op
template <unsigned OP>
constexpr auto make_table()
{
    std::array<Res, cells(OP)> t{};
    std::size_t k = 0;
    for (unsigned ia = 0; ia < dimA(OP); ++ia) {
        for (unsigned ib = 0; ib < dimB(OP); ++ib) {
            for (unsigned in = 0; in < dimN(OP); ++in) { t[k++] = run<EtlLib>(OP, ia, ib, in); }
        }
    }
    return t;
}
template <unsigned OP>
inline constexpr auto TABLE = make_table<OP>();
template <unsigned... I>
Res const* table_of(unsigned op, std::integer_sequence<unsigned, I...>)
{
    static Res const* const p[] = {TABLE<I>.data()...};
    return p[op];
}
Res const* table_of(unsigned op) { return table_of(op, std::make_integer_sequence<unsigned, O_COUNT>{}); }

// ------------------------------------------------------------------ classification / cstdlib twins
#if VF_WIDE
using CArg            = wint_t;
constexpr unsigned NC = 0x401; // WEOF, 0..0x3FF
constexpr CArg carg(unsigned i) { return i == 0 ? WEOF : static_cast<CArg>(i - 1); }
    #define CT_SUBJ "cwctype"
    #define CT_LIST(X) X(iswalnum) X(iswalpha) X(iswblank) X(iswcntrl) X(iswdigit) X(iswgraph) X(iswlower) X(iswprint) X(iswpunct) X(iswspace) X(iswupper) X(iswxdigit)
    #define CV_LIST(X) X(towlower) X(towupper)
#else
using CArg            = int;
constexpr unsigned NC = 257; // EOF, 0..255
constexpr CArg carg(unsigned i) { return static_cast<int>(i) - 1; }
    #define CT_SUBJ "cctype"
    #define CT_LIST(X) X(isalnum) X(isalpha) X(isblank) X(iscntrl) X(isdigit) X(isgraph) X(islower) X(isprint) X(ispunct) X(isspace) X(isupper) X(isxdigit)
    #define CV_LIST(X) X(tolower) X(toupper)
#endif
struct CFn {
    char const* name;
    bool conv;
    long long const* ct;        // constant-evaluated results
    long long (*rt)(CArg);      // etl at run time
    long long (*volatile g)(CArg); // glibc
};
#define CT_TAB(n)                                                                                                      \
    constexpr auto CT_##n = [] {                                                                                       \
        std::array<long long, NC> t{};                                                                                 \
        for (unsigned i = 0; i < NC; ++i) { t[i] = static_cast<long long>(etl::n(carg(i))); }                          \
        return t;                                                                                                      \
    }();
CT_LIST(CT_TAB)
CV_LIST(CT_TAB)
#define CT_ROW(n) {#n, false, CT_##n.data(), [](CArg c) -> long long { return etl::n(c); }, [](CArg c) -> long long { return ::n(c); }},
#define CV_ROW(n) {#n, true, CT_##n.data(), [](CArg c) -> long long { return static_cast<long long>(etl::n(c)); }, [](CArg c) -> long long { return static_cast<long long>(::n(c)); }},
CFn CFNS[] = {CT_LIST(CT_ROW) CV_LIST(CV_ROW)};
constexpr unsigned NCF = sizeof CFNS / sizeof CFNS[0];

#if !VF_WIDE
// cstdlib: 11 x 11 boundary grid per type; C's undefined points (y == 0, MIN / -1, abs(MIN)) are left out of both evaluations
template <typename T>
constexpr T gridv(unsigned i)
{
    constexpr T MX = std::numeric_limits<T>::max();
    constexpr T MN = std::numeric_limits<T>::min();
    constexpr T v[11] = {MN, static_cast<T>(MN + 1), T(-7), T(-2), T(-1), T(0), T(1), T(2), T(7), static_cast<T>(MX - 1), MX};
    return v[i];
}
template <typename T>
constexpr bool div_ok(T x, T y)
{
    return y != 0 && !(x == std::numeric_limits<T>::min() && y == T(-1));
}
struct QR {
    long long q, r;
    bool ok;
};
enum DivFn : unsigned { D_DIV_I, D_DIV_L, D_DIV_LL, D_LDIV, D_LLDIV, D_IMAXDIV, D_ABS_I, D_ABS_L, D_ABS_LL, D_LABS, D_LLABS, D_COUNT };
constexpr char const* DIVNAME[] = {"div(int,int)", "div(long,long)", "div(long long,long long)", "ldiv", "lldiv", "imaxdiv", "abs(int)", "abs(long)", "abs(long long)", "labs", "llabs"};
template <typename T, typename F>
constexpr QR dv(unsigned i, unsigned j, F f)
{
    T x = gridv<T>(i), y = gridv<T>(j);
    if (!div_ok(x, y)) { return {0, 0, false}; }
    auto r = f(x, y);
    return {r.quot, r.rem, true};
}
template <typename T, typename F>
constexpr QR ab(unsigned i, unsigned j, F f)
{
    T x = gridv<T>(i);
    if (j != 0 || x == std::numeric_limits<T>::min()) { return {0, 0, false}; }
    return {f(x), 0, true};
}
constexpr QR etl_div(unsigned fn, unsigned i, unsigned j)
{
    switch (fn) {
    case D_DIV_I: return dv<int>(i, j, [](int x, int y) { return etl::div(x, y); });
    case D_DIV_L: return dv<long>(i, j, [](long x, long y) { return etl::div(x, y); });
    case D_DIV_LL: return dv<long long>(i, j, [](long long x, long long y) { return etl::div(x, y); });
    case D_LDIV: return dv<long>(i, j, [](long x, long y) { return etl::ldiv(x, y); });
    case D_LLDIV: return dv<long long>(i, j, [](long long x, long long y) { return etl::lldiv(x, y); });
    case D_IMAXDIV: return dv<long long>(i, j, [](long long x, long long y) { return etl::imaxdiv(x, y); });
    case D_ABS_I: return ab<int>(i, j, [](int x) { return etl::abs(x); });
    case D_ABS_L: return ab<long>(i, j, [](long x) { return etl::abs(x); });
    case D_ABS_LL: return ab<long long>(i, j, [](long long x) { return etl::abs(x); });
    case D_LABS: return ab<long>(i, j, [](long x) { return etl::labs(x); });
    default: return ab<long long>(i, j, [](long long x) { return etl::llabs(x); });
    }
}
QR libc_div(unsigned fn, unsigned i, unsigned j)
{
    switch (fn) {
    case D_DIV_I: return dv<int>(i, j, [](int x, int y) { return ::div(x, y); });
    case D_DIV_L:
    case D_LDIV: return dv<long>(i, j, [](long x, long y) { return ::ldiv(x, y); });
    case D_DIV_LL:
    case D_LLDIV: return dv<long long>(i, j, [](long long x, long long y) { return ::lldiv(x, y); });
    case D_IMAXDIV: return dv<long long>(i, j, [](long long x, long long y) { return ::imaxdiv(x, y); });
    case D_ABS_I: return ab<int>(i, j, [](int x) { return ::abs(x); });
    case D_ABS_L:
    case D_LABS: return ab<long>(i, j, [](long x) { return ::labs(x); });
    default: return ab<long long>(i, j, [](long long x) { return ::llabs(x); });
    }
}
constexpr auto DIVTAB = [] {
    std::array<QR, D_COUNT * 121> t{};
    for (unsigned f = 0; f < D_COUNT; ++f) {
        for (unsigned i = 0; i < 11; ++i) {
            for (unsigned j = 0; j < 11; ++j) { t[(f * 11 + i) * 11 + j] = etl_div(f, i, j); }
        }
    }
    return t;
}();
constexpr unsigned NDIVCASES = D_COUNT;
#else
constexpr unsigned NDIVCASES = 0;
#endif

// ------------------------------------------------------------------ runner
struct Layout {
    std::uint64_t opStart[O_COUNT + 1];
    std::uint64_t ctype, divs;
    std::uint64_t total() const { return opStart[O_COUNT] + ctype + divs; }
};
Layout layout()
{
    Layout l{};
    std::uint64_t k = 0;
    for (unsigned op = 0; op < O_COUNT; ++op) {
        l.opStart[op] = k;
        k += dimA(op);
    }
    l.opStart[O_COUNT] = k;
    l.ctype            = NCF;
    l.divs             = NDIVCASES;
    return l;
}
vf::Spec spec(vf::Tier)
{
    vf::Spec s;
    s.n_enum     = layout().total();
    s.n_random   = 0; // the twin is a fixed table: nothing depends on the seed
    s.batch      = 16;
    s.exhaustive = true;
    return s;
}

std::string show_res(Res const& r)
{
    char b[48];
    if (r.ret == -1) {
        std::snprintf(b, sizeof b, "ret=-1/null ");
    } else {
        std::snprintf(b, sizeof b, "ret=%lld ", r.ret);
    }
    return b + vfc::show(r.img, IMG);
}
void compare(char const* how, unsigned op, char const* sit, char const* args, Res const& e, Res const& g)
{
    char subj[64];
    std::snprintf(subj, sizeof subj, "%s[%s]", SUBJ, how);
    vf::crumb(subj, OPNAME[op], sit, "%s", args);
    if (is_ptr_op(op)) {
        vfc::eq_off("ret", e.ret, g.ret);
    } else {
        vf::eq_int("ret", e.ret, g.ret);
    }
    for (std::size_t i = 0; i < IMG; ++i) {
        if (e.img[i] != g.img[i]) {
            vf::diverge(e.img[i] == Ch(0) ? "dest:zero-for-value" : (g.img[i] == Ch(0) ? "dest:value-for-zero" : "dest:value"), show_res(e), show_res(g));
            break;
        }
    }
}

using run_t                  = Res(unsigned, unsigned, unsigned, unsigned);
run_t* volatile rt_etl       = &run<EtlLib>;
run_t* volatile rt_libc      = &run<LibcLib>;

void op_case(unsigned op, unsigned ia)
{
    Res const* tab = table_of(op);
    if (vf::want_sample("twin")) { vf::sample("twin", "%s: first operand #%u against %u second operands x %u counts/characters", OPNAME[op], ia, dimB(op), dimN(op)); }
    for (unsigned ib = 0; ib < dimB(op); ++ib) {
        for (unsigned in = 0; in < dimN(op); ++in) {
            std::size_t idx = (std::size_t{ia} * dimB(op) + ib) * dimN(op) + in;
            char sit[96];
            char args[300];
#if VF_WIDE
            if (op == O_MOVE || op == O_MCPY_ARENA || op == O_MSET) {
                unsigned so = op == O_MSET ? 0 : ia % (ARENA + 1), dof = ib;
                unsigned mx = ARENA - (so > dof ? so : dof);
                unsigned n  = in < mx ? in : mx;
                bool overlap = n != 0 && so < dof + n && dof < so + n;
                if (in > mx) { continue; } // clamped duplicates
                if (op == O_MSET) {
                    std::snprintf(sit, sizeof sit, "%s", n == 0 ? "n=0" : "n>0");
                    std::snprintf(args, sizeof args, "8-element arena dst=+%u value#%u n=%u", dof, ia, n);
                } else {
                    std::snprintf(sit, sizeof sit, "%s", n == 0 ? "n=0" : (so == dof ? "same" : (!overlap ? "disjoint" : (dof > so ? "overlap-dst-above-src" : "overlap-dst-below-src"))));
                    std::snprintf(args, sizeof args, "8-element arena pattern %u src=+%u dst=+%u n=%u", ia / (ARENA + 1), so, dof, n);
                }
            } else
#endif
            {
                bool block = false;
#if VF_WIDE
                block = op >= O_MCMP;
#endif
                S a = nth(ia, block ? 4 : 3), b = nth(ib, block ? 4 : 3);
                std::snprintf(sit, sizeof sit, "a-%s%s%s", a.len ? "nonempty" : "empty", dimB(op) > 1 ? (b.len ? ",b-nonempty" : ",b-empty") : "",
                    dimN(op) > 1 ? ",counted" : "");
                std::snprintf(args, sizeof args, "a=%s b=%s n/ch index=%u", vfc::show(a.c, a.len).c_str(), vfc::show(b.c, b.len).c_str(), in);
            }
            Res g = rt_libc(opaque(op), opaque(ia), opaque(ib), opaque(in));
            if (g.ret == SKIP) { continue; }
            Res e = rt_etl(opaque(op), opaque(ia), opaque(ib), opaque(in));
            vf::cover(OPNAME[op], vf::mix(vf::mix(op, ia), vf::mix(ib, in)), true);
            compare("constexpr", op, sit, args, tab[idx], g);
            compare("runtime-twin", op, sit, args, e, g);
        }
    }
}

void ctype_case(unsigned f)
{
    CFn& fn = CFNS[f];
    if (vf::want_sample("ctype-twin")) { vf::sample("ctype-twin", "%s over %u arguments, constant-evaluated and at run time", fn.name, NC); }
    for (unsigned i = 0; i < NC; ++i) {
        CArg c       = carg(i);
        char const* sit = i == 0 ? "eof" : (i - 1 < 0x80 ? "ascii" : "high");
        long long g  = fn.g(opaque(c));
        long long rt = fn.rt(opaque(c));
        long long ct = fn.ct[i];
        vf::cover(fn.name, i, true);
        for (int w = 0; w < 2; ++w) {
            vf::crumb(w ? CT_SUBJ "[runtime-twin]" : CT_SUBJ "[constexpr]", fn.name, sit, "arg index %u (value %lld)", i, (long long)c);
            long long e = w ? rt : ct;
            if (fn.conv) {
                vf::eq_int("ret", e, g);
            } else {
                vf::eq_bool("ret", e != 0, g != 0);
            }
        }
    }
}

#if !VF_WIDE
void div_case(unsigned f)
{
    static QR (*volatile rt)(unsigned, unsigned, unsigned) = &etl_div;
    for (unsigned i = 0; i < 11; ++i) {
        for (unsigned j = 0; j < 11; ++j) {
            QR g = libc_div(opaque(f), opaque(i), opaque(j));
            if (!g.ok) { continue; }
            QR e  = rt(opaque(f), opaque(i), opaque(j));
            QR ct = DIVTAB[(f * 11 + i) * 11 + j];
            vf::cover(DIVNAME[f], vf::mix(i, j), true);
            for (int w = 0; w < 2; ++w) {
                vf::crumb(w ? "cstdlib[runtime-twin]" : "cstdlib[constexpr]", DIVNAME[f], "grid", "grid x#%u y#%u", i, j);
                QR const& v = w ? e : ct;
                vf::eq_bool("defined", v.ok, true);
                vf::eq_int("quot", v.q, g.q);
                vf::eq_int("rem", v.r, g.r);
            }
        }
    }
}
#endif

void run_case(vf::Case& c)
{
    Layout l        = layout();
    std::uint64_t k = c.index;
    if (k < l.opStart[O_COUNT]) {
        unsigned op = 0;
        while (k >= l.opStart[op + 1]) { ++op; }
        op_case(op, static_cast<unsigned>(k - l.opStart[op]));
        return;
    }
    k -= l.opStart[O_COUNT];
    if (k < l.ctype) {
        ctype_case(static_cast<unsigned>(k));
        return;
    }
#if !VF_WIDE
    k -= l.ctype;
    div_case(static_cast<unsigned>(k));
#endif
}
} // namespace

int main(int argc, char** argv)
{
    std::setlocale(LC_ALL, "C");
    return vf::run_main(argc, argv, "C18", UNIT, spec, run_case);
}
