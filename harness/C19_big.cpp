// C19 - layout mappings with 64-bit index types and offsets beyond 2^31 / 2^32 (mapping-only: no memory is touched).
// layout_stride with huge strides over tiny extents (all multi-indices), layout_left / layout_right over huge extents
// (corner + seeded multi-indices), linalg::layout_transpose over both; operator(), stride(r), strides(),
// required_span_size(), extents() against an __int128 closed-form model; injectivity and offset < required_span_size().
// Build: -DVF_IDX=<64-bit index type> -DVF_IDX_NAME="..."
#include "vf.hpp"
#include "vf_contract.hpp"

#include <etl/array.hpp>
#include <etl/linalg.hpp>
#include <etl/mdspan.hpp>

#include <algorithm>
#include <array>
#include <limits>
#include <string>
#include <vector>

#ifndef VF_IDX
    #define VF_IDX long
    #define VF_IDX_NAME "int64"
#endif

namespace {
#define NOINL __attribute__((noinline))
using Idx                  = VF_IDX;
constexpr char const* IDXN = VF_IDX_NAME;
static_assert(sizeof(Idx) == 8, "this unit is about 64-bit index types");
using W                   = __int128;
constexpr std::size_t dyn = etl::dynamic_extent;
constexpr std::size_t MAXR = 3;
using Arr                  = std::array<W, MAXR>;
constexpr W IMAX           = (W)std::numeric_limits<Idx>::max();
constexpr W kSat           = (W)(~(unsigned __int128)0 >> 1); // saturation value of the model arithmetic (never fits an index type)

std::string w2s(W v)
{
    if (v == 0) { return "0"; }
    bool neg = v < 0;
    if (neg) { v = -v; }
    std::string s;
    while (v > 0) {
        s.insert(s.begin(), char('0' + (int)(v % 10)));
        v /= 10;
    }
    return neg ? "-" + s : s;
}
std::string show(Arr const& a, std::size_t R)
{
    std::string s = "(";
    for (std::size_t r = 0; r < R; ++r) { s += w2s(a[r]) + (r + 1 < R ? "," : ""); }
    return s + ")";
}

struct Model {
    std::size_t R{};
    Arr e{};
    Arr st{};
    // the model's own arithmetic saturates (three extents near 2^63 overflow even 128 bits); a saturated model never "fits"
    static W mul_sat(W a, W b)
    {
        W r = 0;
        return __builtin_mul_overflow(a, b, &r) ? kSat : r;
    }
    static W add_sat(W a, W b)
    {
        W r = 0;
        return __builtin_add_overflow(a, b, &r) ? kSat : r;
    }
    W size() const
    {
        W p = 1;
        for (std::size_t r = 0; r < R; ++r) { p = mul_sat(p, e[r]); }
        return p;
    }
    W span() const
    {
        W s = 1;
        for (std::size_t r = 0; r < R; ++r) {
            if (e[r] == 0) { return 0; }
            s = add_sat(s, mul_sat(e[r] - 1, st[r]));
        }
        return s;
    }
    W off(Arr const& i) const
    {
        W o = 0;
        for (std::size_t r = 0; r < R; ++r) { o += i[r] * st[r]; }
        return o;
    }
    // everything the library has to represent fits the index type
    bool fits() const
    {
        if (span() > IMAX || size() > IMAX) { return false; }
        for (std::size_t r = 0; r < R; ++r) {
            if (st[r] > IMAX || st[r] <= 0 || e[r] > IMAX || (e[r] > 0 && mul_sat(e[r], st[r]) > IMAX)) { return false; }
        }
        return true;
    }
};
Model model_left(Arr const& e, std::size_t R)
{
    Model m;
    m.R = R;
    m.e = e;
    W s = 1;
    for (std::size_t r = 0; r < R; ++r) {
        m.st[r] = s;
        s       = Model::mul_sat(s, e[r]);
    }
    return m;
}
Model model_right(Arr const& e, std::size_t R)
{
    Model m;
    m.R = R;
    m.e = e;
    W s = 1;
    for (std::size_t r = R; r-- > 0;) {
        m.st[r] = s;
        s       = Model::mul_sat(s, e[r]);
    }
    return m;
}
// which power of two the largest in-range offset reaches
char const* crossing(W maxoff)
{
    if (maxoff < ((W)1 << 31)) { return "offsets<2^31"; }
    if (maxoff < ((W)1 << 32)) { return "offsets-cross-2^31"; }
    if (maxoff < ((W)1 << 33)) { return "offsets-cross-2^32"; }
    if (maxoff < ((W)1 << 48)) { return "offsets-cross-2^33"; }
    return "offsets-cross-2^48";
}

struct Ctx {
    std::string sit;
    std::string desc;
    std::uint64_t h;
};
NOINL void crumb(Ctx const& c, std::string const& s, char const* op, std::string const& extra = "")
{
    vf::crumb(s.c_str(), op, c.sit.c_str(), "%s %s", c.desc.c_str(), extra.c_str());
}
NOINL void expect_w(char const* name, W got, W exp)
{
    if (got == exp) { return; }
    std::string sym = name;
    W const d       = got - exp;
    W const two32   = (W)1 << 32;
    if (got < 0) {
        sym += ":negative";
    } else if (got == (exp & (two32 - 1)) || got == (W)(long long)(int)(long long)exp) {
        sym += ":truncated-to-32-bits";
    } else if (d % two32 == 0) {
        sym += ":off-by-multiple-of-2^32";
    } else if (got == 0) {
        sym += ":zero";
    } else {
        sym += d > 0 ? ":greater" : ":less";
    }
    vf::diverge(sym.c_str(), w2s(got), w2s(exp));
}
std::string subj(char const* layout) { return std::string(layout) + "::mapping<" + IDXN + ">"; }

// the multi-indices tried: all of them when the index space is small, else corners x {0,1,mid,e-2,e-1} + seeded ones
std::vector<Arr> indices(Model const& m, vf::Rng& rng)
{
    std::vector<Arr> v;
    if (m.size() == 0) { return v; }
    if (m.size() <= 4096) {
        Arr i{};
        for (;;) {
            v.push_back(i);
            std::size_t r = m.R;
            while (r-- > 0) {
                if (++i[r] < m.e[r]) { break; }
                i[r] = 0;
            }
            if (r == (std::size_t)-1) { break; }
        }
        return v;
    }
    std::vector<std::vector<W>> per(m.R);
    for (std::size_t r = 0; r < m.R; ++r) {
        W const e = m.e[r];
        for (W x : {(W)0, (W)1, e / 2, e - 2, e - 1}) {
            if (x >= 0 && x < e && std::find(per[r].begin(), per[r].end(), x) == per[r].end()) { per[r].push_back(x); }
        }
    }
    std::vector<std::size_t> k(m.R, 0);
    for (;;) {
        Arr i{};
        for (std::size_t r = 0; r < m.R; ++r) { i[r] = per[r][k[r]]; }
        v.push_back(i);
        std::size_t r = m.R;
        while (r-- > 0) {
            if (++k[r] < per[r].size()) { break; }
            k[r] = 0;
        }
        if (r == (std::size_t)-1) { break; }
    }
    for (int n = 0; n < 64; ++n) {
        Arr i{};
        for (std::size_t r = 0; r < m.R; ++r) { i[r] = (W)(rng.next() % (std::uint64_t)m.e[r]); }
        v.push_back(i);
    }
    // the injectivity check needs distinct multi-indices
    std::sort(v.begin(), v.end());
    v.erase(std::unique(v.begin(), v.end()), v.end());
    return v;
}

template <typename A, typename M, std::size_t... Is>
W call(M const& m, Arr const& i, std::index_sequence<Is...>)
{
    return (W)m(static_cast<A>(i[Is])...);
}

// situation: rank + which power of two the largest in-range offset (required span - 1) reaches
NOINL void set_sit(Ctx& c, Model const& mod)
{
    W const span = mod.span();
    c.sit        = "rank" + std::to_string(mod.R) + "," + (span == 0 ? "zero-extent" : crossing(span - 1));
}
// observers + offsets of one mapping against its model
template <typename M, bool HasStride, bool HasStrides>
NOINL void check_mapping(Ctx& c, std::string const& s, char const* made_by, M const& m, Model const& mod, vf::Rng& rng, std::uint64_t salt)
{
    constexpr std::size_t R = M::extents_type::rank();
    auto const idx          = indices(mod, rng);
    set_sit(c, mod);
    std::string const ss = "extents=" + show(mod.e, R) + " strides=" + show(mod.st, R);

    crumb(c, s, made_by, ss);
    auto const& e = m.extents();
    for (std::size_t r = 0; r < R; ++r) { expect_w("extents().extent", (W)e.extent(r), mod.e[r]); }
    vf::cover("extents()", vf::mix(c.h, salt), true);
    crumb(c, s, "required_span_size()", ss);
    W const rss = (W)m.required_span_size();
    vf::cover("required_span_size()", vf::mix(c.h, salt), true);
    expect_w("required_span_size", rss, mod.span());
    if constexpr (HasStride && R > 0) {
        for (std::size_t r = 0; r < R; ++r) {
            crumb(c, s, "stride(r)", ss);
            expect_w("stride(r)", (W)m.stride(r), mod.st[r]);
            vf::cover("stride(r)", vf::mix(c.h, salt * 8 + r), true);
        }
    }
    if constexpr (HasStrides) {
        crumb(c, s, "strides()", ss);
        auto const st = m.strides();
        for (std::size_t r = 0; r < R; ++r) { expect_w("strides()[r]", (W)st[r], mod.st[r]); }
        vf::cover("strides()", vf::mix(c.h, salt), true);
    }
    // offsets
    std::vector<W> got;
    bool bad = false, out = false;
    for (auto const& i : idx) {
        crumb(c, s, "operator()(index_type...)", ss + " idx=" + show(i, R));
        W const g = call<Idx>(m, i, std::make_index_sequence<R>{});
        got.push_back(g);
        if (g != mod.off(i) && !bad) {
            bad = true;
            expect_w("offset", g, mod.off(i));
        }
        if ((g < 0 || g >= rss) && !out) {
            out = true;
            vf::diverge("offset:outside-required_span_size()", w2s(g), "in [0," + w2s(rss) + ")");
        }
    }
    vf::cover_bulk("operator()(index_type...)", idx.size(), vf::mix(c.h, salt), idx.size());
    // the same through another argument type (values that fit it)
    {
        bool bad2 = false;
        std::uint64_t n = 0;
        for (auto const& i : idx) {
            bool small = true;
            for (std::size_t r = 0; r < R; ++r) { small = small && i[r] <= 2147483647; }
            if (!small) { continue; }
            crumb(c, s, "operator()(int...)", ss + " idx=" + show(i, R));
            W const g = call<int>(m, i, std::make_index_sequence<R>{});
            ++n;
            if (g != mod.off(i) && !bad2) {
                bad2 = true;
                expect_w("offset", g, mod.off(i));
            }
        }
        vf::cover_bulk("operator()(int...)", n, vf::mix(c.h, salt + 1), n);
    }
    // injectivity over the visited multi-indices (they are distinct)
    crumb(c, s, "operator()(index_type...)", ss);
    std::sort(got.begin(), got.end());
    if (std::adjacent_find(got.begin(), got.end()) != got.end()) { vf::diverge("offset:collision", "two visited multi-indices share an offset", "distinct offsets"); }
}

// ------------------------------------------------------------------ layout_stride: tiny extents, huge strides
constexpr W BIG[] = {((W)1 << 31) - 1, (W)1 << 31, ((W)1 << 31) + 1, ((W)1 << 32) - 1, (W)1 << 32, ((W)1 << 32) + 1, ((W)1 << 33) + 1, (W)1 << 35, (W)1 << 40,
    ((W)1 << 48) + 12345, (W)1 << 56};
constexpr std::size_t NBIG = sizeof BIG / sizeof BIG[0];

// strides along permutation `perm` (fastest first): first stride s0, then previous * extent + pad
Model strided(Arr const& e, std::size_t R, unsigned perm, W s0, W pad)
{
    Model m;
    m.R = R;
    m.e = e;
    std::size_t pool[MAXR] = {0, 1, 2}, p[MAXR] = {0, 1, 2};
    std::size_t n = R;
    for (std::size_t i = 0; i < R; ++i) {
        std::size_t j = perm % n;
        perm /= (unsigned)n;
        p[i] = pool[j];
        for (std::size_t t = j; t + 1 < n; ++t) { pool[t] = pool[t + 1]; }
        --n;
    }
    W s = s0;
    for (std::size_t i = 0; i < R; ++i) {
        m.st[p[i]] = s;
        s          = s * (e[p[i]] > 0 ? e[p[i]] : 1) + pad;
    }
    return m;
}

template <typename E>
E make_ext(Arr const& shape)
{
    std::array<W, MAXR> d{};
    std::size_t n = 0;
    for (std::size_t r = 0; r < E::rank(); ++r) {
        if (E::static_extent(r) == dyn) { d[n++] = shape[r]; }
    }
    return [&]<std::size_t... Is>(std::index_sequence<Is...>) { return E(static_cast<Idx>(d[Is])...); }(std::make_index_sequence<E::rank_dynamic()>{});
}
template <typename E>
Arr complete(Arr shape) // static positions take their declared value
{
    for (std::size_t r = 0; r < E::rank(); ++r) {
        if (E::static_extent(r) != dyn) { shape[r] = (W)E::static_extent(r); }
    }
    return shape;
}

template <typename E>
NOINL void stride_case(Ctx& c, Arr shape, unsigned perm, W s0, W pad, vf::Rng& rng)
{
    constexpr std::size_t R = E::rank();
    shape                   = complete<E>(shape);
    Model const mod         = strided(shape, R, perm, s0, pad);
    if (!mod.fits()) { return; }
    E const e = make_ext<E>(shape);
    etl::array<Idx, R> sa{};
    for (std::size_t r = 0; r < R; ++r) { sa[r] = static_cast<Idx>(mod.st[r]); }
    using M = etl::layout_stride::mapping<E>;
    c.desc  = "layout_stride";
    set_sit(c, mod);
    crumb(c, subj("layout_stride"), "mapping(extents,array<T,rank>)");
    M const m(e, sa);
    check_mapping<M, true, true>(c, subj("layout_stride"), "mapping(extents,array<T,rank>)", m, mod, rng, 1);
    // copy keeps the strides
    crumb(c, subj("layout_stride"), "mapping(mapping const&)");
    M const cp(m);
    check_mapping<M, true, true>(c, subj("layout_stride"), "mapping(mapping const&)", cp, mod, rng, 2);
    if constexpr (R == 2) {
        // transposed view of the strided mapping: (i,j) -> nested(j,i); same span
        using TE = etl::extents<Idx, E::static_extent(1), E::static_extent(0)>;
        using LT = etl::linalg::layout_transpose<etl::layout_stride>;
        using MT = typename LT::template mapping<TE>;
        Model t;
        t.R     = 2;
        t.e[0]  = mod.e[1];
        t.e[1]  = mod.e[0];
        t.st[0] = mod.st[1];
        t.st[1] = mod.st[0];
        crumb(c, subj("layout_transpose<layout_stride>"), "mapping(nested_mapping)");
        MT const mt(m);
        check_mapping<MT, true, false>(c, subj("layout_transpose<layout_stride>"), "mapping(nested_mapping)", mt, t, rng, 3);
    }
}

// ------------------------------------------------------------------ layout_left / layout_right: huge extents
template <typename L>
struct lname;
template <>
struct lname<etl::layout_left> {
    static constexpr char const* v = "layout_left";
    static Model model(Arr const& e, std::size_t R) { return model_left(e, R); }
};
template <>
struct lname<etl::layout_right> {
    static constexpr char const* v = "layout_right";
    static Model model(Arr const& e, std::size_t R) { return model_right(e, R); }
};
template <typename L, typename E>
NOINL void canonical_case(Ctx& c, Arr shape, vf::Rng& rng)
{
    constexpr std::size_t R = E::rank();
    shape                   = complete<E>(shape);
    Model const mod         = lname<L>::model(shape, R);
    if (!mod.fits()) { return; }
    using M   = typename L::template mapping<E>;
    E const e = make_ext<E>(shape);
    c.desc    = lname<L>::v;
    set_sit(c, mod);
    crumb(c, subj(lname<L>::v), "mapping(extents)");
    M const m(e);
    check_mapping<M, true, false>(c, subj(lname<L>::v), "mapping(extents)", m, mod, rng, 1);
    using D  = etl::dextents<Idx, R>;
    using MD = typename L::template mapping<D>;
    crumb(c, subj(lname<L>::v), "mapping(mapping<OtherExtents>):->all-dynamic");
    MD const md(m);
    check_mapping<MD, true, false>(c, subj(lname<L>::v), "mapping(mapping<OtherExtents>):->all-dynamic", md, mod, rng, 2);
    if constexpr (R == 2) {
        using TE = etl::extents<Idx, E::static_extent(1), E::static_extent(0)>;
        using LT = etl::linalg::layout_transpose<L>;
        using MT = typename LT::template mapping<TE>;
        Model t;
        t.R     = 2;
        t.e[0]  = mod.e[1];
        t.e[1]  = mod.e[0];
        t.st[0] = mod.st[1];
        t.st[1] = mod.st[0];
        std::string const sn = std::string("layout_transpose<") + lname<L>::v + ">";
        crumb(c, subj(sn.c_str()), "mapping(nested_mapping)");
        MT const mt(m);
        check_mapping<MT, true, false>(c, subj(sn.c_str()), "mapping(nested_mapping)", mt, t, rng, 3);
    }
}

// ------------------------------------------------------------------ extents types of this unit
constexpr std::size_t P31 = std::size_t(1) << 31;
constexpr std::size_t P32 = std::size_t(1) << 32;
template <std::size_t K>
struct et;
// clang-format off
template <> struct et<0> { using type = etl::extents<Idx, dyn>; };
template <> struct et<1> { using type = etl::extents<Idx, dyn, dyn>; };
template <> struct et<2> { using type = etl::extents<Idx, dyn, dyn, dyn>; };
template <> struct et<3> { using type = etl::extents<Idx, 2, 3>; };
template <> struct et<4> { using type = etl::extents<Idx, 2, dyn>; };
template <> struct et<5> { using type = etl::extents<Idx, dyn, 3, dyn>; };
template <> struct et<6> { using type = etl::extents<Idx, 3, P31>; };       // static extent 2^31
template <> struct et<7> { using type = etl::extents<Idx, dyn, P32 + 1>; };  // static extent 2^32+1
template <> struct et<8> { using type = etl::extents<Idx, P31, dyn, 2>; };
// clang-format on
constexpr std::size_t NET = 9;

// small extents for the strided part, huge ones for the canonical part
constexpr W SMALL[] = {1, 2, 3};
constexpr W HUGE_[] = {2, 3, ((W)1 << 31) - 1, (W)1 << 31, ((W)1 << 31) + 3, (W)1 << 32, ((W)1 << 32) + 1, ((W)1 << 33) + 7};
constexpr std::size_t NHUGE = sizeof HUGE_ / sizeof HUGE_[0];

// enumerated space:  [stride part] type x shape(3^3) x perm(6) x s0(1 + NBIG) x pad(1 + 2)   then   [canonical part] type x shape(NHUGE^3)
constexpr std::uint64_t N_STRIDE = NET * 27 * 6 * (1 + NBIG) * 3;
constexpr std::uint64_t N_CANON  = NET * NHUGE * NHUGE * NHUGE;

vf::Spec spec(vf::Tier t)
{
    vf::Spec s;
    s.n_enum     = N_STRIDE + N_CANON;
    s.n_random   = t == vf::Tier::thorough ? 20000 : 2000;
    s.batch      = 128;
    s.exhaustive = true;
    return s;
}

template <std::size_t K>
struct RunStride {
    static void run(Ctx& c, Arr const& shape, unsigned perm, W s0, W pad, vf::Rng& rng) { stride_case<typename et<K>::type>(c, shape, perm, s0, pad, rng); }
};
template <std::size_t K>
struct RunCanon {
    static void run(Ctx& c, Arr const& shape, vf::Rng& rng)
    {
        canonical_case<etl::layout_left, typename et<K>::type>(c, shape, rng);
        canonical_case<etl::layout_right, typename et<K>::type>(c, shape, rng);
    }
};

void do_stride(std::size_t k, Ctx& c, Arr const& shape, unsigned perm, W s0, W pad, vf::Rng& rng)
{
    [&]<std::size_t... K>(std::index_sequence<K...>) {
        using fn_t              = void (*)(Ctx&, Arr const&, unsigned, W, W, vf::Rng&);
        static fn_t const tab[] = {&RunStride<K>::run...};
        tab[k](c, shape, perm, s0, pad, rng);
    }(std::make_index_sequence<NET>{});
}
void do_canon(std::size_t k, Ctx& c, Arr const& shape, vf::Rng& rng)
{
    [&]<std::size_t... K>(std::index_sequence<K...>) {
        using fn_t              = void (*)(Ctx&, Arr const&, vf::Rng&);
        static fn_t const tab[] = {&RunCanon<K>::run...};
        tab[k](c, shape, rng);
    }(std::make_index_sequence<NET>{});
}

void run_case(vf::Case& c)
{
    Ctx x;
    x.h = vf::mix(c.id + 1, vf::fnv(IDXN));
    if (c.enumerated && c.index < N_STRIDE) {
        std::uint64_t id = c.index;
        W const pads[3]  = {0, 1, BIG[(id * 7) % NBIG]};
        W const pad      = pads[id % 3];
        id /= 3;
        std::size_t const si = (std::size_t)(id % (1 + NBIG));
        W const s0           = si == 0 ? 1 : BIG[si - 1];
        id /= (1 + NBIG);
        unsigned const perm = (unsigned)(id % 6);
        id /= 6;
        Arr shape{};
        for (std::size_t r = 0; r < 3; ++r) {
            shape[r] = SMALL[id % 3];
            id /= 3;
        }
        if (vf::want_sample("stride")) { vf::sample("stride", "layout_stride<%s> tiny extents, first stride %s, padding %s: every multi-index vs the __int128 model", IDXN, w2s(s0).c_str(), w2s(pad).c_str()); }
        do_stride((std::size_t)id, x, shape, perm, s0, pad, c.rng);
    } else if (c.enumerated) {
        std::uint64_t id = c.index - N_STRIDE;
        Arr shape{};
        for (std::size_t r = 0; r < 3; ++r) {
            shape[r] = HUGE_[id % NHUGE];
            id /= NHUGE;
        }
        if (vf::want_sample("canonical")) { vf::sample("canonical", "layout_left/right<%s> extents up to %s: corner and seeded multi-indices vs the __int128 model", IDXN, show(shape, 3).c_str()); }
        do_canon((std::size_t)id, x, shape, c.rng);
    } else {
        std::size_t const k = (std::size_t)c.rng.below(NET);
        Arr shape{};
        if (c.rng.coin()) {
            for (auto& e : shape) { e = (W)c.rng.range(0, 4); }
            W const s0  = c.rng.coin() ? (W)1 : (W)(c.rng.next() >> (1 + c.rng.below(40)));
            W const pad = c.rng.chance(1, 3) ? (W)0 : (W)(c.rng.next() >> (8 + c.rng.below(50)));
            do_stride(k, x, shape, (unsigned)c.rng.below(6), s0 > 0 ? s0 : 1, pad, c.rng);
        } else {
            for (auto& e : shape) { e = c.rng.chance(1, 3) ? (W)c.rng.range(0, 5) : (W)(c.rng.next() >> (20 + c.rng.below(24))); }
            do_canon(k, x, shape, c.rng);
        }
    }
}
} // namespace

VF_MAIN("C19", "C19_big_" VF_IDX_NAME, spec, run_case)
