// C06 - non-modifying sequence algorithms, min/max family, iterator helpers  vs libstdc++ (DESIGN 4, C06)
#include "vf.hpp"
#include "vf_contract.hpp"
#include "vf_algo_tests.hpp"

#ifndef C06_PART
    #define C06_PART 0 // 0 = everything, 1 / 2 = halves (compiled in parallel)
#endif

namespace c06 {

#if C06_PART != 2
// ---------------------------------------------------------------- all_of / any_of / none_of / count_if / find_if / find_if_not
template <typename K>
void k_unary_pred(Ctx& c)
{
    std::size_t const n = c.a.size();
    Seq const& m        = c.a;
    for (Pres pr : pres_for<K>(n)) {
        for (auto const& ps : kPreds) {
            Pred p{ps.mode, ps.arg};
            std::uint64_t h = vf::mix(ps.mode, ps.arg);
            {
                bool exp = std::all_of(m.begin(), m.end(), p);
                Trial t(c, K::name, "all_of(f,l,p)", pr, exp ? "true" : "false", h, "pred %s", ps.name);
                Range<El> r(c.a, pr, false);
                bool obs = t.call([&] { return etl::all_of(B<K>(r), E<K>(r), p); });
                t.boolean("ret", obs, exp);
                FIN(t, r);
            }
            {
                bool exp = std::any_of(m.begin(), m.end(), p);
                Trial t(c, K::name, "any_of(f,l,p)", pr, exp ? "true" : "false", h, "pred %s", ps.name);
                Range<El> r(c.a, pr, false);
                bool obs = t.call([&] { return etl::any_of(B<K>(r), E<K>(r), p); });
                t.boolean("ret", obs, exp);
                FIN(t, r);
            }
            {
                bool exp = std::none_of(m.begin(), m.end(), p);
                Trial t(c, K::name, "none_of(f,l,p)", pr, exp ? "true" : "false", h, "pred %s", ps.name);
                Range<El> r(c.a, pr, false);
                bool obs = t.call([&] { return etl::none_of(B<K>(r), E<K>(r), p); });
                t.boolean("ret", obs, exp);
                FIN(t, r);
            }
            {
                auto exp = std::count_if(m.begin(), m.end(), p);
                Trial t(c, K::name, "count_if(f,l,p)", pr, exp == 0 ? "none" : (exp == (long)n ? "all" : "some"), h, "pred %s", ps.name);
                Range<El> r(c.a, pr, false);
                auto obs = t.call([&] { return etl::count_if(B<K>(r), E<K>(r), p); });
                t.off("ret", obs, exp);
                FIN(t, r);
            }
            {
                auto exp = std::find_if(m.begin(), m.end(), p) - m.begin();
                Trial t(c, K::name, "find_if(f,l,p)", pr, exp == (long)n ? "absent" : "found", h, "pred %s", ps.name);
                Range<El> r(c.a, pr, false);
                auto obs = t.call([&] { return etl::find_if(B<K>(r), E<K>(r), p); });
                t.off("ret", K::raw(obs) - r.lo, exp);
                FIN(t, r);
            }
            {
                auto exp = std::find_if_not(m.begin(), m.end(), p) - m.begin();
                Trial t(c, K::name, "find_if_not(f,l,p)", pr, exp == (long)n ? "absent" : "found", h, "pred %s", ps.name);
                Range<El> r(c.a, pr, false);
                auto obs = t.call([&] { return etl::find_if_not(B<K>(r), E<K>(r), p); });
                t.off("ret", K::raw(obs) - r.lo, exp);
                FIN(t, r);
            }
            {
                bool exp = std::is_partitioned(m.begin(), m.end(), p);
                Trial t(c, K::name, "is_partitioned(f,l,p)", pr, exp ? "true" : "false", h, "pred %s", ps.name);
                Range<El> r(c.a, pr, false);
                bool obs = t.call([&] { return etl::is_partitioned(B<K>(r), E<K>(r), p); });
                t.boolean("ret", obs, exp);
                FIN(t, r);
            }
        }
    }
}
void t_unary_pred(Ctx& c)
{
    k_unary_pred<KPtr>(c);
    C06_FULL(k_unary_pred<KCPtr>(c);)
    k_unary_pred<KIn>(c);
    C06_FULL(k_unary_pred<KFwd>(c);)
}

// ---------------------------------------------------------------- find / count by value
template <typename K>
void k_by_value(Ctx& c)
{
    std::size_t const n = c.a.size();
    Seq const& m        = c.a;
    for (Pres pr : pres_for<K>(n)) {
        for (int v = 0; v <= c.maxkey + 1; ++v) {
            El val{v, -1};
            {
                auto exp = std::find(m.begin(), m.end(), val) - m.begin();
                Trial t(c, K::name, "find(f,l,v)", pr, exp == (long)n ? "absent" : "found", (std::uint64_t)v, "v=%d", v);
                Range<El> r(c.a, pr, false);
                auto obs = t.call([&] { return etl::find(B<K>(r), E<K>(r), val); });
                t.off("ret", K::raw(obs) - r.lo, exp);
                FIN(t, r);
            }
            {
                auto exp = std::count(m.begin(), m.end(), val);
                Trial t(c, K::name, "count(f,l,v)", pr, exp == 0 ? "none" : (exp == (long)n ? "all" : "some"), (std::uint64_t)v, "v=%d", v);
                Range<El> r(c.a, pr, false);
                auto obs = t.call([&] { return etl::count(B<K>(r), E<K>(r), val); });
                t.off("ret", obs, exp);
                FIN(t, r);
            }
        }
    }
}
void t_by_value(Ctx& c)
{
    k_by_value<KPtr>(c);
    C06_FULL(k_by_value<KCPtr>(c);)
    k_by_value<KIn>(c);
    C06_FULL(k_by_value<KFwd>(c);)
}

// ---------------------------------------------------------------- for_each / for_each_n
struct Visit {
    std::vector<int>* log;
    int calls = 0;
    void operator()(El const& e)
    {
        vi::touch_read(&e, sizeof e, "pred-outside-range");
        log->push_back(e.tag);
        ++calls;
    }
};
struct Bump {
    void operator()(El& e) const
    {
        vi::touch_write(&e, sizeof e, "write-outside-range");
        e.key += 10;
    }
};
template <typename K>
void k_for_each(Ctx& c)
{
    std::size_t const n = c.a.size();
    for (Pres pr : pres_for<K>(n)) {
        {
            std::vector<int> elog, slog;
            Seq m = c.a;
            auto sf = std::for_each(m.begin(), m.end(), Visit{&slog});
            Trial t(c, K::name, "for_each(f,l,fn)", pr, "", 1, "visit");
            Range<El> r(c.a, pr, false);
            auto ef = t.call([&] { return etl::for_each(B<K>(r), E<K>(r), Visit{&elog}); });
            t.off("returned-functor-calls", ef.calls, sf.calls);
            t.nums("visit-order", elog, slog);
            FIN(t, r);
        }
        if constexpr (!std::is_same_v<K, KIn>) {
            Seq m = c.a;
            std::for_each(m.begin(), m.end(), Bump{});
            Trial t(c, K::name, "for_each(f,l,fn)", pr, "mutating", 2, "bump");
            Range<El> r(c.a, pr, true);
            t.call([&] { return etl::for_each(B<K>(r), E<K>(r), Bump{}); });
            t.seq("range", r.get(), m);
            t.guards(r);
            t.done();
        }
        for (std::size_t k = 0; k <= n; ++k) { // n < 0 violates the precondition
            std::vector<int> elog, slog;
            Seq m    = c.a;
            auto sit = std::for_each_n(m.begin(), k, Visit{&slog});
            Trial t(c, K::name, "for_each_n(f,n,fn)", pr, k == 0 ? "n=0" : (k == n ? "n=len" : "0<n<len"), 3 + k, "n=%zu", k);
            Range<El> r(c.a, pr, false);
            auto eit = t.call([&] { return etl::for_each_n(B<K>(r), (long)k, Visit{&elog}); });
            t.off("ret", K::raw(eit) - r.lo, sit - m.begin());
            t.nums("visit-order", elog, slog);
            FIN(t, r);
        }
    }
}
void t_for_each(Ctx& c)
{
    k_for_each<KPtr>(c);
    k_for_each<KIn>(c);
    k_for_each<KFwd>(c);
}

#endif
#if C06_PART != 1
// ---------------------------------------------------------------- two-range comparisons: mismatch, equal, lexicographical_compare, is_permutation
inline char const* rel(std::size_t n1, std::size_t n2) { return n1 == n2 ? "len2=len1" : (n2 < n1 ? "len2<len1" : "len2>len1"); }

template <typename K1, typename K2>
void pair_trials(Ctx& c, Seq const& x, Seq const& y, int which)
{
    std::size_t const nx = x.size(), ny = y.size();
    std::string const ys = show(y, false);
    std::string const xs = show(x, false);
    char const* kk       = kinds2<K1, K2>();
    LenHint lh(nx);
    std::uint64_t const hb = vf::mix(hash_seq(x), vf::mix(hash_seq(y), (std::uint64_t)which));
    for (Pres pr : pres_for<K1>(nx)) {
        Pres pr2 = pres2(pr, ny);
        // ---- 4-iterator forms
        for (int em = -1; em <= 1; ++em) {
            Eq eq{em < 0 ? 0 : em};
            {
                auto sp = em < 0 ? std::mismatch(x.begin(), x.end(), y.begin(), y.end()) : std::mismatch(x.begin(), x.end(), y.begin(), y.end(), eq);
                char op[64];
                std::snprintf(op, sizeof op, "mismatch(f1,l1,f2,l2%s)%s", em < 0 ? "" : ",p", eq_name(em));
                char ex[48];
                std::snprintf(ex, sizeof ex, "%s,%s", rel(nx, ny), (sp.first == x.end() || sp.second == y.end()) ? "to-end" : "differ");
                Trial t(c, kk, op, pr, ex, vf::mix(hb, 10 + em), "x=%s y=%s", xs.c_str(), ys.c_str());
                Range<El> r1(x, pr, false), r2(y, pr2, false);
                if (em < 0) {
                    auto ep = t.call([&] { return etl::mismatch(B<K1>(r1), E<K1>(r1), B<K2>(r2), E<K2>(r2)); });
                    t.off("ret.first", K1::raw(ep.first) - r1.lo, sp.first - x.begin());
                    t.off("ret.second", K2::raw(ep.second) - r2.lo, sp.second - y.begin());
                } else {
                    auto ep = t.call([&] { return etl::mismatch(B<K1>(r1), E<K1>(r1), B<K2>(r2), E<K2>(r2), eq); });
                    t.off("ret.first", K1::raw(ep.first) - r1.lo, sp.first - x.begin());
                    t.off("ret.second", K2::raw(ep.second) - r2.lo, sp.second - y.begin());
                }
                t.seq("input1", r1.get(), x);
                t.seq("input2", r2.get(), y);
                t.guards(r1);
                t.guards(r2);
                t.done();
            }
            {
                bool se = em < 0 ? std::equal(x.begin(), x.end(), y.begin(), y.end()) : std::equal(x.begin(), x.end(), y.begin(), y.end(), eq);
                char op[64];
                std::snprintf(op, sizeof op, "equal(f1,l1,f2,l2%s)%s", em < 0 ? "" : ",p", eq_name(em));
                char ex[48];
                std::snprintf(ex, sizeof ex, "%s,%s", rel(nx, ny), se ? "true" : "false");
                Trial t(c, kk, op, pr, ex, vf::mix(hb, 20 + em), "x=%s y=%s", xs.c_str(), ys.c_str());
                Range<El> r1(x, pr, false), r2(y, pr2, false);
                bool ee = em < 0 ? t.call([&] { return etl::equal(B<K1>(r1), E<K1>(r1), B<K2>(r2), E<K2>(r2)); })
                                 : t.call([&] { return etl::equal(B<K1>(r1), E<K1>(r1), B<K2>(r2), E<K2>(r2), eq); });
                t.boolean("ret", ee, se);
                t.guards(r1);
                t.guards(r2);
                t.done();
            }
        }
        for (int cm = -1; cm <= 2; ++cm) {
            Comp cmp{cm < 0 ? 0 : cm};
            bool se = cm < 0 ? std::lexicographical_compare(x.begin(), x.end(), y.begin(), y.end())
                             : std::lexicographical_compare(x.begin(), x.end(), y.begin(), y.end(), cmp);
            char op[72];
            std::snprintf(op, sizeof op, "lexicographical_compare(f1,l1,f2,l2%s)%s", cm < 0 ? "" : ",c", comp_name(cm));
            char ex[48];
            std::snprintf(ex, sizeof ex, "%s,%s", rel(nx, ny), se ? "true" : "false");
            Trial t(c, kk, op, pr, ex, vf::mix(hb, 30 + cm), "x=%s y=%s", xs.c_str(), ys.c_str());
            Range<El> r1(x, pr, false), r2(y, pr2, false);
            bool ee = cm < 0 ? t.call([&] { return etl::lexicographical_compare(B<K1>(r1), E<K1>(r1), B<K2>(r2), E<K2>(r2)); })
                             : t.call([&] { return etl::lexicographical_compare(B<K1>(r1), E<K1>(r1), B<K2>(r2), E<K2>(r2), cmp); });
            t.boolean("ret", ee, se);
            t.guards(r1);
            t.guards(r2);
            t.done();
        }
        if constexpr (!std::is_same_v<K1, KIn> && !std::is_same_v<K2, KIn>) {
            bool se = std::is_permutation(x.begin(), x.end(), y.begin(), y.end());
            char ex[48];
            std::snprintf(ex, sizeof ex, "%s,%s", rel(nx, ny), se ? "true" : "false");
            Trial t(c, kk, "is_permutation(f1,l1,f2,l2)", pr, ex, vf::mix(hb, 40), "x=%s y=%s", xs.c_str(), ys.c_str());
            Range<El> r1(x, pr, false), r2(y, pr2, false);
            bool ee = t.call([&] { return etl::is_permutation(B<K1>(r1), E<K1>(r1), B<K2>(r2), E<K2>(r2)); });
            t.boolean("ret", ee, se);
            t.guards(r1);
            t.guards(r2);
            t.done();
        }
        // ---- 3-iterator forms: the second range must hold at least nx elements; it is presented cut to
        //      exactly nx elements so that anything read beyond is outside what was handed out
        if (ny >= nx) {
            Seq yp(y.begin(), y.begin() + (long)nx);
            for (int em = -1; em <= 1; ++em) {
                Eq eq{em < 0 ? 0 : em};
                {
                    auto sp = em < 0 ? std::mismatch(x.begin(), x.end(), yp.begin()) : std::mismatch(x.begin(), x.end(), yp.begin(), eq);
                    char op[64];
                    std::snprintf(op, sizeof op, "mismatch(f1,l1,f2%s)%s", em < 0 ? "" : ",p", eq_name(em));
                    Trial t(c, kk, op, pr, sp.first == x.end() ? "to-end" : "differ", vf::mix(hb, 50 + em), "x=%s y=%s", xs.c_str(),
                        show(yp, false).c_str());
                    Range<El> r1(x, pr, false), r2(yp, pres2(pr, nx), false);
                    if (em < 0) {
                        auto ep = t.call([&] { return etl::mismatch(B<K1>(r1), E<K1>(r1), B<K2>(r2)); });
                        t.off("ret.first", K1::raw(ep.first) - r1.lo, sp.first - x.begin());
                        t.off("ret.second", K2::raw(ep.second) - r2.lo, sp.second - yp.begin());
                    } else {
                        auto ep = t.call([&] { return etl::mismatch(B<K1>(r1), E<K1>(r1), B<K2>(r2), eq); });
                        t.off("ret.first", K1::raw(ep.first) - r1.lo, sp.first - x.begin());
                        t.off("ret.second", K2::raw(ep.second) - r2.lo, sp.second - yp.begin());
                    }
                    t.guards(r1);
                    t.guards(r2);
                    t.done();
                }
                {
                    bool se = em < 0 ? std::equal(x.begin(), x.end(), yp.begin()) : std::equal(x.begin(), x.end(), yp.begin(), eq);
                    char op[64];
                    std::snprintf(op, sizeof op, "equal(f1,l1,f2%s)%s", em < 0 ? "" : ",p", eq_name(em));
                    Trial t(c, kk, op, pr, se ? "true" : "false", vf::mix(hb, 60 + em), "x=%s y=%s", xs.c_str(), show(yp, false).c_str());
                    Range<El> r1(x, pr, false), r2(yp, pres2(pr, nx), false);
                    bool ee = em < 0 ? t.call([&] { return etl::equal(B<K1>(r1), E<K1>(r1), B<K2>(r2)); })
                                     : t.call([&] { return etl::equal(B<K1>(r1), E<K1>(r1), B<K2>(r2), eq); });
                    t.boolean("ret", ee, se);
                    t.guards(r1);
                    t.guards(r2);
                    t.done();
                }
            }
            if constexpr (!std::is_same_v<K1, KIn> && !std::is_same_v<K2, KIn>) {
                bool se = std::is_permutation(x.begin(), x.end(), yp.begin());
                Trial t(c, kk, "is_permutation(f1,l1,f2)", pr, se ? "true" : "false", vf::mix(hb, 70), "x=%s y=%s", xs.c_str(),
                    show(yp, false).c_str());
                Range<El> r1(x, pr, false), r2(yp, pres2(pr, nx), false);
                bool ee = t.call([&] { return etl::is_permutation(B<K1>(r1), E<K1>(r1), B<K2>(r2)); });
                t.boolean("ret", ee, se);
                t.guards(r1);
                t.guards(r2);
                t.done();
            }
        }
    }
}
template <typename K1, typename K2>
void k_pairs(Ctx& c)
{
    for (Seq const& b : c.needles) {
        pair_trials<K1, K2>(c, c.a, b, 0);
        pair_trials<K1, K2>(c, b, c.a, 1);
    }
    // a against a permutation / a copy / a one-off variant of itself
    Seq p = c.a;
    for (auto& e : p) { e.tag += 200; }
    pair_trials<K1, K2>(c, c.a, p, 2);
    std::reverse(p.begin(), p.end());
    pair_trials<K1, K2>(c, c.a, p, 3);
    if (!p.empty()) {
        p = c.a;
        p.back().key = (p.back().key + 1) % 3;
        pair_trials<K1, K2>(c, c.a, p, 4);
        p = c.a;
        p.pop_back();
        pair_trials<K1, K2>(c, c.a, p, 5);
        pair_trials<K1, K2>(c, p, c.a, 6);
    }
}
void t_pairs_ptr(Ctx& c) { k_pairs<KPtr, KPtr>(c); }
void t_pairs_in(Ctx& c) { k_pairs<KIn, KIn>(c); }
void t_pairs_fwd(Ctx& c) { k_pairs<KFwd, KFwd>(c); }
void t_pairs_mixed(Ctx& c)
{
    k_pairs<KRa, KFwd>(c);
    C06_FULL(k_pairs<KBidi, KRa>(c);)
}

#endif
#if C06_PART != 2
// ---------------------------------------------------------------- search / find_end / find_first_of
template <typename K1, typename K2>
void k_search(Ctx& c)
{
    std::size_t const n = c.a.size();
    Seq const& m        = c.a;
    char const* kk      = kinds2<K1, K2>();
    for (Seq const& s : c.needles) {
        std::string const ss = show(s, false);
        std::uint64_t const hb = hash_seq(s);
        char const* ncls = s.empty() ? "needle-empty" : (s.size() > n ? "needle-longer" : "needle-fits");
        for (Pres pr : pres_for<K1>(n)) {
            Pres pr2 = pres2(pr, s.size());
            for (int em = -1; em <= 1; ++em) {
                Eq eq{em < 0 ? 0 : em};
                char op[64], ex[48];
                if constexpr (!std::is_same_v<K1, KIn>) {
                    {
                        auto se = (em < 0 ? std::search(m.begin(), m.end(), s.begin(), s.end()) : std::search(m.begin(), m.end(), s.begin(), s.end(), eq))
                                  - m.begin();
                        std::snprintf(op, sizeof op, "search(f,l,sf,sl%s)%s", em < 0 ? "" : ",p", eq_name(em));
                        std::snprintf(ex, sizeof ex, "%s,%s", ncls, se == (long)n ? "absent" : "found");
                        Trial t(c, kk, op, pr, ex, vf::mix(hb, 1 + em), "needle=%s", ss.c_str());
                        Range<El> r(c.a, pr, false), q(s, pr2, false);
                        auto ee = em < 0 ? t.call([&] { return etl::search(B<K1>(r), E<K1>(r), B<K2>(q), E<K2>(q)); })
                                         : t.call([&] { return etl::search(B<K1>(r), E<K1>(r), B<K2>(q), E<K2>(q), eq); });
                        t.off("ret", K1::raw(ee) - r.lo, se);
                        t.guards(q);
                        FIN(t, r);
                    }
                    {
                        auto se = (em < 0 ? std::search(m.begin(), m.end(), s.begin(), s.end()) : std::search(m.begin(), m.end(), s.begin(), s.end(), eq))
                                  - m.begin();
                        std::snprintf(op, sizeof op, "search(f,l,default_searcher%s)%s", em < 0 ? "" : "+p", eq_name(em));
                        std::snprintf(ex, sizeof ex, "%s,%s", ncls, se == (long)n ? "absent" : "found");
                        Trial t(c, kk, op, pr, ex, vf::mix(hb, 5 + em), "needle=%s", ss.c_str());
                        Range<El> r(c.a, pr, false), q(s, pr2, false);
                        auto ee = em < 0 ? t.call([&] { return etl::search(B<K1>(r), E<K1>(r), etl::default_searcher(B<K2>(q), E<K2>(q))); })
                                         : t.call([&] { return etl::search(B<K1>(r), E<K1>(r), etl::default_searcher(B<K2>(q), E<K2>(q), eq)); });
                        t.off("ret", K1::raw(ee) - r.lo, se);
                        t.guards(q);
                        FIN(t, r);
                    }
                    {
                        auto se = (em < 0 ? std::find_end(m.begin(), m.end(), s.begin(), s.end()) : std::find_end(m.begin(), m.end(), s.begin(), s.end(), eq))
                                  - m.begin();
                        std::snprintf(op, sizeof op, "find_end(f,l,sf,sl%s)%s", em < 0 ? "" : ",p", eq_name(em));
                        std::snprintf(ex, sizeof ex, "%s,%s", ncls, se == (long)n ? "absent" : "found");
                        Trial t(c, kk, op, pr, ex, vf::mix(hb, 10 + em), "needle=%s", ss.c_str());
                        Range<El> r(c.a, pr, false), q(s, pr2, false);
                        auto ee = em < 0 ? t.call([&] { return etl::find_end(B<K1>(r), E<K1>(r), B<K2>(q), E<K2>(q)); })
                                         : t.call([&] { return etl::find_end(B<K1>(r), E<K1>(r), B<K2>(q), E<K2>(q), eq); });
                        t.off("ret", K1::raw(ee) - r.lo, se);
                        t.guards(q);
                        FIN(t, r);
                    }
                }
                {
                    auto se = (em < 0 ? std::find_first_of(m.begin(), m.end(), s.begin(), s.end())
                                      : std::find_first_of(m.begin(), m.end(), s.begin(), s.end(), eq))
                              - m.begin();
                    std::snprintf(op, sizeof op, "find_first_of(f,l,sf,sl%s)%s", em < 0 ? "" : ",p", eq_name(em));
                    std::snprintf(ex, sizeof ex, "%s,%s", s.empty() ? "set-empty" : "set-nonempty", se == (long)n ? "absent" : "found");
                    Trial t(c, kk, op, pr, ex, vf::mix(hb, 20 + em), "set=%s", ss.c_str());
                    Range<El> r(c.a, pr, false), q(s, pr2, false);
                    auto ee = em < 0 ? t.call([&] { return etl::find_first_of(B<K1>(r), E<K1>(r), B<K2>(q), E<K2>(q)); })
                                     : t.call([&] { return etl::find_first_of(B<K1>(r), E<K1>(r), B<K2>(q), E<K2>(q), eq); });
                    t.off("ret", K1::raw(ee) - r.lo, se);
                    t.guards(q);
                    FIN(t, r);
                }
            }
        }
    }
}
void t_search_ptr(Ctx& c)
{
    k_search<KPtr, KPtr>(c);
    C06_FULL(k_search<KCPtr, KCPtr>(c);)
}
void t_search_fwd(Ctx& c)
{
    k_search<KFwd, KFwd>(c);
    k_search<KIn, KFwd>(c); // find_first_of only
}

void t_search_n(Ctx& c) { k_search_n<KPtr>(c); }

// ---------------------------------------------------------------- adjacent_find / is_sorted / is_sorted_until / min,max,minmax _element
template <typename K>
void k_scan(Ctx& c)
{
    std::size_t const n = c.a.size();
    Seq const& m        = c.a;
    for (Pres pr : pres_for<K>(n)) {
        for (int em = -1; em <= 1; ++em) {
            Eq eq{em < 0 ? 0 : em};
            auto se = (em < 0 ? std::adjacent_find(m.begin(), m.end()) : std::adjacent_find(m.begin(), m.end(), eq)) - m.begin();
            char op[64];
            std::snprintf(op, sizeof op, "adjacent_find(f,l%s)%s", em < 0 ? "" : ",p", eq_name(em));
            Trial t(c, K::name, op, pr, se == (long)n ? "absent" : "found", 1 + em, "-");
            Range<El> r(c.a, pr, false);
            auto ee = em < 0 ? t.call([&] { return etl::adjacent_find(B<K>(r), E<K>(r)); }) : t.call([&] { return etl::adjacent_find(B<K>(r), E<K>(r), eq); });
            t.off("ret", K::raw(ee) - r.lo, se);
            FIN(t, r);
        }
        for (int cm = -1; cm <= 2; ++cm) {
            Comp cmp{cm < 0 ? 0 : cm};
            char op[64];
            {
                auto se = (cm < 0 ? std::is_sorted_until(m.begin(), m.end()) : std::is_sorted_until(m.begin(), m.end(), cmp)) - m.begin();
                std::snprintf(op, sizeof op, "is_sorted_until(f,l%s)%s", cm < 0 ? "" : ",c", comp_name(cm));
                Trial t(c, K::name, op, pr, se == (long)n ? "sorted" : "unsorted", 10 + cm, "-");
                Range<El> r(c.a, pr, false);
                auto ee = cm < 0 ? t.call([&] { return etl::is_sorted_until(B<K>(r), E<K>(r)); })
                                 : t.call([&] { return etl::is_sorted_until(B<K>(r), E<K>(r), cmp); });
                t.off("ret", K::raw(ee) - r.lo, se);
                FIN(t, r);
            }
            {
                bool se = cm < 0 ? std::is_sorted(m.begin(), m.end()) : std::is_sorted(m.begin(), m.end(), cmp);
                std::snprintf(op, sizeof op, "is_sorted(f,l%s)%s", cm < 0 ? "" : ",c", comp_name(cm));
                Trial t(c, K::name, op, pr, se ? "sorted" : "unsorted", 20 + cm, "-");
                Range<El> r(c.a, pr, false);
                bool ee = cm < 0 ? t.call([&] { return etl::is_sorted(B<K>(r), E<K>(r)); }) : t.call([&] { return etl::is_sorted(B<K>(r), E<K>(r), cmp); });
                t.boolean("ret", ee, se);
                FIN(t, r);
            }
            {
                auto se = (cm < 0 ? std::min_element(m.begin(), m.end()) : std::min_element(m.begin(), m.end(), cmp)) - m.begin();
                std::snprintf(op, sizeof op, "min_element(f,l%s)%s", cm < 0 ? "" : ",c", comp_name(cm));
                Trial t(c, K::name, op, pr, "", 30 + cm, "-");
                Range<El> r(c.a, pr, false);
                auto ee = cm < 0 ? t.call([&] { return etl::min_element(B<K>(r), E<K>(r)); }) : t.call([&] { return etl::min_element(B<K>(r), E<K>(r), cmp); });
                t.off("ret", K::raw(ee) - r.lo, se);
                FIN(t, r);
            }
            {
                auto se = (cm < 0 ? std::max_element(m.begin(), m.end()) : std::max_element(m.begin(), m.end(), cmp)) - m.begin();
                std::snprintf(op, sizeof op, "max_element(f,l%s)%s", cm < 0 ? "" : ",c", comp_name(cm));
                Trial t(c, K::name, op, pr, "", 40 + cm, "-");
                Range<El> r(c.a, pr, false);
                auto ee = cm < 0 ? t.call([&] { return etl::max_element(B<K>(r), E<K>(r)); }) : t.call([&] { return etl::max_element(B<K>(r), E<K>(r), cmp); });
                t.off("ret", K::raw(ee) - r.lo, se);
                FIN(t, r);
            }
            {
                auto sp = cm < 0 ? std::minmax_element(m.begin(), m.end()) : std::minmax_element(m.begin(), m.end(), cmp);
                std::snprintf(op, sizeof op, "minmax_element(f,l%s)%s", cm < 0 ? "" : ",c", comp_name(cm));
                Trial t(c, K::name, op, pr, "", 50 + cm, "-");
                Range<El> r(c.a, pr, false);
                if (cm < 0) {
                    auto ep = t.call([&] { return etl::minmax_element(B<K>(r), E<K>(r)); });
                    t.off("ret.first", K::raw(ep.first) - r.lo, sp.first - m.begin());
                    t.off("ret.second", K::raw(ep.second) - r.lo, sp.second - m.begin());
                } else {
                    auto ep = t.call([&] { return etl::minmax_element(B<K>(r), E<K>(r), cmp); });
                    t.off("ret.first", K::raw(ep.first) - r.lo, sp.first - m.begin());
                    t.off("ret.second", K::raw(ep.second) - r.lo, sp.second - m.begin());
                }
                FIN(t, r);
            }
        }
        // partition_point: only on ranges that are partitioned w.r.t. the predicate
        for (auto const& ps : kPreds) {
            Pred p{ps.mode, ps.arg};
            if (!std::is_partitioned(m.begin(), m.end(), p)) { continue; }
            auto se = std::partition_point(m.begin(), m.end(), p) - m.begin();
            Trial t(c, K::name, "partition_point(f,l,p)", pr, se == 0 ? "at-first" : (se == (long)n ? "at-last" : "inner"), vf::mix(60 + ps.mode, ps.arg),
                "pred %s", ps.name);
            Range<El> r(c.a, pr, false);
            auto ee = t.call([&] { return etl::partition_point(B<K>(r), E<K>(r), p); });
            t.off("ret", K::raw(ee) - r.lo, se);
            FIN(t, r);
        }
    }
}
void t_scan(Ctx& c)
{
    k_scan<KPtr>(c);
    C06_FULL(k_scan<KCPtr>(c);)
    k_scan<KFwd>(c);
    C06_FULL(k_scan<KRa>(c);)
}

// ---------------------------------------------------------------- min / max / minmax / clamp on objects (result identity = which object)
void t_scalar(Ctx& c)
{
    std::size_t const n = c.a.size();
    if (n != 2 && n != 3) { return; }
    Seq const& m = c.a;
    if (n == 2) {
        // the function objects the defaulted overloads rest on
        Trial t(c, "object", "less/equal_to function objects", Pres::exact, "", 99, "-");
        Range<El> r(c.a, Pres::exact, false);
        std::vector<long> obs = {etl::less<El>{}(r.lo[0], r.lo[1]), etl::less<>{}(r.lo[0], r.lo[1]), etl::less<>{}(r.lo[1], r.lo[0]),
            etl::equal_to<El>{}(r.lo[0], r.lo[1]), etl::equal_to<>{}(r.lo[0], r.lo[1])};
        std::vector<long> exp = {std::less<El>{}(m[0], m[1]), std::less<>{}(m[0], m[1]), std::less<>{}(m[1], m[0]), std::equal_to<El>{}(m[0], m[1]),
            std::equal_to<>{}(m[0], m[1])};
        t.nums("results", obs, exp);
        t.done();
        // ranges::in_fun_result converts member-wise
        Trial t2(c, "object", "ranges::in_fun_result conversion", Pres::exact, "", 98, "-");
        etl::ranges::in_fun_result<El*, int> src{r.lo + 1, m[0].key + 40};
        etl::ranges::in_fun_result<El const*, long> lv = src;
        etl::ranges::in_fun_result<El const*, long> rv = etl::ranges::in_fun_result<El*, int>{r.lo, 7};
        std::vector<long> o2 = {lv.in - r.lo, lv.fun, rv.in - r.lo, rv.fun};
        std::vector<long> e2 = {1, m[0].key + 40, 0, 7};
        t2.nums("members", o2, e2);
        t2.done();
    }
    for (int cm = -1; cm <= 2; ++cm) {
        Comp cmp{cm < 0 ? 0 : cm};
        char op[48];
        auto tie = [&](El const& x, El const& y) { return (!cmp(x, y) && !cmp(y, x)) ? "equivalent" : "ordered"; };
        if (n == 2) {
            {
                El const& sr = cm < 0 ? std::min(m[0], m[1]) : std::min(m[0], m[1], cmp);
                std::snprintf(op, sizeof op, "min(a,b%s)%s", cm < 0 ? "" : ",c", comp_name(cm));
                Trial t(c, "object", op, Pres::exact, tie(m[0], m[1]), 1 + cm, "-");
                Range<El> r(c.a, Pres::exact, false);
                El const& er = cm < 0 ? etl::min(r.lo[0], r.lo[1]) : etl::min(r.lo[0], r.lo[1], cmp);
                t.off("ret-object", &er - r.lo, &sr - m.data());
                t.done();
            }
            {
                El const& sr = cm < 0 ? std::max(m[0], m[1]) : std::max(m[0], m[1], cmp);
                std::snprintf(op, sizeof op, "max(a,b%s)%s", cm < 0 ? "" : ",c", comp_name(cm));
                Trial t(c, "object", op, Pres::exact, tie(m[0], m[1]), 10 + cm, "-");
                Range<El> r(c.a, Pres::exact, false);
                El const& er = cm < 0 ? etl::max(r.lo[0], r.lo[1]) : etl::max(r.lo[0], r.lo[1], cmp);
                t.off("ret-object", &er - r.lo, &sr - m.data());
                t.done();
            }
            {
                auto sp = cm < 0 ? std::minmax(m[0], m[1]) : std::minmax(m[0], m[1], cmp);
                std::snprintf(op, sizeof op, "minmax(a,b%s)%s", cm < 0 ? "" : ",c", comp_name(cm));
                Trial t(c, "object", op, Pres::exact, tie(m[0], m[1]), 20 + cm, "-");
                Range<El> r(c.a, Pres::exact, false);
                if (cm < 0) {
                    auto ep = etl::minmax(r.lo[0], r.lo[1]);
                    t.off("ret.first-object", &ep.first - r.lo, &sp.first - m.data());
                    t.off("ret.second-object", &ep.second - r.lo, &sp.second - m.data());
                } else {
                    auto ep = etl::minmax(r.lo[0], r.lo[1], cmp);
                    t.off("ret.first-object", &ep.first - r.lo, &sp.first - m.data());
                    t.off("ret.second-object", &ep.second - r.lo, &sp.second - m.data());
                }
                t.done();
            }
        } else {
            if (cmp(m[2], m[1])) { continue; } // clamp requires !(hi < lo)
            El const& sr = cm < 0 ? std::clamp(m[0], m[1], m[2]) : std::clamp(m[0], m[1], m[2], cmp);
            std::snprintf(op, sizeof op, "clamp(v,lo,hi%s)%s", cm < 0 ? "" : ",c", comp_name(cm));
            char const* ex = cmp(m[0], m[1]) ? "below" : (cmp(m[2], m[0]) ? "above" : "inside");
            Trial t(c, "object", op, Pres::exact, ex, 30 + cm, "-");
            Range<El> r(c.a, Pres::exact, false);
            El const& er = cm < 0 ? etl::clamp(r.lo[0], r.lo[1], r.lo[2]) : etl::clamp(r.lo[0], r.lo[1], r.lo[2], cmp);
            t.off("ret-object", &er - r.lo, &sr - m.data());
            t.done();
        }
    }
}

// ---------------------------------------------------------------- next / prev / advance / distance on every wrapper kind
template <typename K>
void k_iter_helpers(Ctx& c)
{
    std::size_t const n = c.a.size();
    constexpr bool bidi = std::is_same_v<K, KBidi> || std::is_same_v<K, KRa> || std::is_same_v<K, KPtr>;
    for (Pres pr : pres_for<K>(n)) {
        for (std::size_t i = 0; i <= n; ++i) {
            for (std::size_t j = i; j <= n; ++j) {
                {
                    Trial t(c, K::name, "distance(f,l)", pr, i == j ? "empty" : "nonempty", vf::mix(i, j), "i=%zu j=%zu", i, j);
                    Range<El> r(c.a, pr, false);
                    auto d = t.call([&] { return etl::distance(AT<K>(r, i), AT<K>(r, j)); });
                    t.off("ret", d, (long)(j - i));
                    t.done();
                }
                {
                    Trial t(c, K::name, "next(it,n)", pr, i == j ? "n=0" : "n>0", vf::mix(i, j), "i=%zu n=%zu", i, j - i);
                    Range<El> r(c.a, pr, false);
                    auto it = t.call([&] { return etl::next(AT<K>(r, i), (long)(j - i)); });
                    t.off("ret", K::raw(it) - r.lo, (long)j);
                    t.done();
                }
                {
                    Trial t(c, K::name, "advance(it,n)", pr, i == j ? "n=0" : "n>0", vf::mix(i, j), "i=%zu n=%zu", i, j - i);
                    Range<El> r(c.a, pr, false);
                    auto it = AT<K>(r, i);
                    t.call([&] { etl::advance(it, (long)(j - i)); });
                    t.off("pos", K::raw(it) - r.lo, (long)j);
                    t.done();
                }
                if constexpr (bidi) {
                    {
                        Trial t(c, K::name, "prev(it,n)", pr, i == j ? "n=0" : "n>0", vf::mix(i, j), "j=%zu n=%zu", j, j - i);
                        Range<El> r(c.a, pr, false);
                        auto it = t.call([&] { return etl::prev(AT<K>(r, j), (long)(j - i)); });
                        t.off("ret", K::raw(it) - r.lo, (long)i);
                        t.done();
                    }
                    {
                        Trial t(c, K::name, "advance(it,n)", pr, i == j ? "n=0" : "n<0", vf::mix(i, j) + 1, "j=%zu n=-%zu", j, j - i);
                        Range<El> r(c.a, pr, false);
                        auto it = AT<K>(r, j);
                        t.call([&] { etl::advance(it, -(long)(j - i)); });
                        t.off("pos", K::raw(it) - r.lo, (long)i);
                        t.done();
                    }
                    {
                        Trial t(c, K::name, "next(it,n)", pr, i == j ? "n=0" : "n<0", vf::mix(i, j) + 1, "j=%zu n=-%zu", j, j - i);
                        Range<El> r(c.a, pr, false);
                        auto it = t.call([&] { return etl::next(AT<K>(r, j), -(long)(j - i)); });
                        t.off("ret", K::raw(it) - r.lo, (long)i);
                        t.done();
                    }
                }
            }
        }
        if (n > 0) {
            Trial t(c, K::name, "next(it)", pr, "default-n", 7, "-");
            Range<El> r(c.a, pr, false);
            auto it = t.call([&] { return etl::next(B<K>(r)); });
            t.off("ret", K::raw(it) - r.lo, 1);
            t.done();
            if constexpr (bidi) {
                Trial t2(c, K::name, "prev(it)", pr, "default-n", 8, "-");
                Range<El> r2(c.a, pr, false);
                auto it2 = t2.call([&] { return etl::prev(E<K>(r2)); });
                t2.off("ret", K::raw(it2) - r2.lo, (long)n - 1);
                t2.done();
            }
        }
    }
}
void t_iter_helpers(Ctx& c)
{
    k_iter_helpers<KPtr>(c);
    k_iter_helpers<KIn>(c);
    k_iter_helpers<KFwd>(c);
    k_iter_helpers<KBidi>(c);
    k_iter_helpers<KRa>(c);
}

#endif

Test const kTests[] = {
#if C06_PART != 2
    {"unary_pred", t_unary_pred},
    {"by_value", t_by_value},
#if !C06_TRUTHY
    {"for_each", t_for_each},
#endif
    {"search_ptr", t_search_ptr},
    {"search_fwd", t_search_fwd},
    {"search_n", t_search_n},
    {"scan", t_scan},
    {"scalar", t_scalar},
#if !C06_TRUTHY
    {"iter_helpers", t_iter_helpers},
#endif
#endif
#if C06_PART != 1
    {"pairs_ptr", t_pairs_ptr},
    {"pairs_in", t_pairs_in},
#if !C06_TRUTHY
    {"pairs_fwd", t_pairs_fwd},
#endif
    {"pairs_mixed", t_pairs_mixed},
#endif
};
std::size_t const kNumTests = sizeof(kTests) / sizeof(kTests[0]);

} // namespace c06

#if C06_PART == 1
C06_MAIN(C06_TRUTHY ? "C06_nonmod_a_truthy" : "C06_nonmod_a")
#elif C06_PART == 2
C06_MAIN(C06_TRUTHY ? "C06_nonmod_b_truthy" : "C06_nonmod_b")
#else
C06_MAIN("C06_nonmod")
#endif
