// uniq64: count distinct 64-bit values across binary files
#include <algorithm>
#include <cstdint>
#include <cstdio>
#include <vector>
int main(int argc, char** argv)
{
    std::vector<std::uint64_t> v;
    for (int i = 1; i < argc; ++i) {
        FILE* f = std::fopen(argv[i], "rb");
        if (!f) { continue; }
        std::uint64_t buf[4096];
        std::size_t n;
        while ((n = std::fread(buf, 8, 4096, f)) > 0) { v.insert(v.end(), buf, buf + n); }
        std::fclose(f);
    }
    std::sort(v.begin(), v.end());
    auto n = std::unique(v.begin(), v.end()) - v.begin();
    std::printf("%lld\n", (long long)n);
    return 0;
}
