#!/usr/bin/env python3
"""Aggregate the `maxulp|subject|ulps|where` notes of the last C16 run (build/run/C16/*.jsonl)."""
import glob, json, os, sys
root = os.path.dirname(os.path.dirname(os.path.abspath(__file__)))  # /verif
best = {}
for f in glob.glob(os.path.join(root, "build", "run", "C16", "*.jsonl")):
    for line in open(f, errors="replace"):
        if '"note"' not in line:
            continue
        try:
            r = json.loads(line)
        except Exception:
            continue
        t = r.get("text", "")
        if not t.startswith("maxulp|"):
            continue
        _, subj, u, where = t.split("|", 3)
        u = int(u)
        if u > best.get(subj, (0, ""))[0]:
            best[subj] = (u, where)
for k in sorted(best):
    print(f"{k:24s} {best[k][0]:>12d}  {best[k][1]}")
