"""Type zoo of property C15: (type-id, category, flags).

The category (never the spelled type) goes into violation keys, so one finding line covers one
cause.  Categories are hierarchical ('lref/object/class/abstract', 'array/bounded/int+const') so
that findings can glob a whole sub-tree.  Flags:
  inc    - incomplete type (only used with traits that have no completeness precondition)
  align  - alignof(T) is well-formed (complete object type, reference to one, or array thereof)
  msign  - make_signed / make_unsigned are defined (integral non-bool or enumeration, any cv)
The classes live in harness/C15_table.hpp, namespace zoo.
"""

ZOO = []


def z(spell, cat, **fl):
    ZOO.append(dict(spell=spell, cat=cat, inc=fl.get("inc", False), align=fl.get("align", True),
                    msign=fl.get("msign", False), mini=fl.get("mini", False)))


ARITH = [
    ("bool", "arith/bool"), ("char", "arith/chartype/char"), ("wchar_t", "arith/chartype/wchar_t"),
    ("char8_t", "arith/chartype/char8_t"), ("char16_t", "arith/chartype/char16_t"), ("char32_t", "arith/chartype/char32_t"),
    ("signed char", "arith/sint/schar"), ("short", "arith/sint/short"), ("int", "arith/sint/int"), ("long", "arith/sint/long"),
    ("long long", "arith/sint/llong"),
    ("unsigned char", "arith/uint/uchar"), ("unsigned short", "arith/uint/ushort"), ("unsigned int", "arith/uint/uint"),
    ("unsigned long", "arith/uint/ulong"), ("unsigned long long", "arith/uint/ullong"),
    ("float", "arith/float/float"), ("double", "arith/float/double"), ("long double", "arith/float/ldouble"),
]
for s, c in ARITH:
    z(s, c, msign=("float" not in c and c != "arith/bool"))
for s, c in [("int", "arith/sint/int"), ("char", "arith/chartype/char"), ("unsigned long", "arith/uint/ulong"),
             ("double", "arith/float/double"), ("bool", "arith/bool"), ("char16_t", "arith/chartype/char16_t")]:
    ms = ("float" not in c and c != "arith/bool")
    z(f"{s} const", c + "+const", msign=ms)
    z(f"{s} volatile", c + "+volatile", msign=ms)
    z(f"{s} const volatile", c + "+cv", msign=ms)

z("void", "void", align=False)
z("void const", "void+const", align=False)
z("void volatile", "void+volatile", align=False)
z("void const volatile", "void+cv", align=False)
z("std::nullptr_t", "nullptr_t")
z("std::nullptr_t const", "nullptr_t+const")
z("std::nullptr_t volatile", "nullptr_t+volatile")

# enumerations
z("E", "enum/unscoped", msign=True)
z("EU8", "enum/unscoped-fixed-uchar", msign=True)
z("ES16", "enum/unscoped-fixed-short", msign=True)
z("SE", "enum/scoped", msign=True)
z("SEC", "enum/scoped-fixed-char", msign=True)
z("SEU64", "enum/scoped-fixed-ullong", msign=True)
z("E const", "enum/unscoped+const", msign=True)
z("SE const volatile", "enum/scoped+cv", msign=True)
z("std::byte", "enum/scoped-std-byte", msign=True)
z("etl::byte", "enum/scoped-etl-byte", msign=True)

# pointers
z("int*", "ptr/object/int")
z("int const*", "ptr/object/int-const")
z("int* const", "ptr/object/int+const")
z("int* volatile", "ptr/object/int+volatile")
z("int* const volatile", "ptr/object/int+cv")
z("void*", "ptr/object/void")
z("void const*", "ptr/object/void-const")
z("Empty*", "ptr/object/class")
z("Abstract*", "ptr/object/class-abstract")
z("Incomplete*", "ptr/object/incomplete")
z("int**", "ptr/object/ptr")
z("char const* const*", "ptr/object/ptr-const")
z("int(*)[3]", "ptr/array/bounded")
z("int(*)[]", "ptr/array/unbounded")
z("void (*)()", "ptr/function/plain")
z("int (*)(int) noexcept", "ptr/function/noexcept")
z("void (*)(int, ...)", "ptr/function/variadic")
z("void (* const)()", "ptr/function/plain+const")

# pointers to members
z("int Pod::*", "memptr/object/int")
z("int const Pod::*", "memptr/object/int-const")
z("int Pod::* const", "memptr/object/int+const")
z("int (Pod::*)[2]", "memptr/object/array")
z("int Incomplete::*", "memptr/object/of-incomplete")
z("void (Empty::*)()", "memptr/function/plain")
z("int (Empty::*)(int) const", "memptr/function/const")
z("void (Empty::*)() volatile", "memptr/function/volatile")
z("void (Empty::*)() const volatile", "memptr/function/cv")
z("void (Empty::*)() &", "memptr/function/lref")
z("void (Empty::*)() &&", "memptr/function/rref")
z("void (Empty::*)() const&", "memptr/function/const-lref")
z("void (Empty::*)() noexcept", "memptr/function/noexcept")
z("int (Empty::*)(int) const&& noexcept", "memptr/function/const-rref-noexcept")
z("void (Empty::*)(int, ...)", "memptr/function/variadic")
z("void (Empty::* const)()", "memptr/function/plain+const")
z("void (Empty::* volatile)() const", "memptr/function/const+volatile")

# references
z("int&", "lref/object/int")
z("int const&", "lref/object/int-const")
z("int volatile&", "lref/object/int-volatile")
z("double&", "lref/object/double")
z("int*&", "lref/object/ptr")
z("Empty&", "lref/object/class/empty")
z("Empty const&", "lref/object/class/empty-const")
z("Abstract&", "lref/object/class/abstract")
z("DelDtor&", "lref/object/class/deleted-dtor")
z("MoveOnly&", "lref/object/class/move-only")
z("Incomplete&", "lref/object/incomplete", align=False, inc=True)
z("E&", "lref/object/enum")
z("int(&)[3]", "lref/array/bounded")
z("int const(&)[2]", "lref/array/bounded-const")
z("int(&)[]", "lref/array/unbounded")
z("void (&)()", "lref/function/plain", align=False)
z("int (&)(int) noexcept", "lref/function/noexcept", align=False)
z("int&&", "rref/object/int")
z("int const&&", "rref/object/int-const")
z("Empty&&", "rref/object/class/empty")
z("Abstract&&", "rref/object/class/abstract")
z("MoveOnly&&", "rref/object/class/move-only")
z("DelDtor&&", "rref/object/class/deleted-dtor")
z("int(&&)[3]", "rref/array/bounded")
z("int(&&)[]", "rref/array/unbounded")
z("void (&&)()", "rref/function/plain", align=False)

# arrays
z("int[3]", "array/bounded/int")
z("int const[3]", "array/bounded/int+const")
z("int volatile[4]", "array/bounded/int+volatile")
z("char[1]", "array/bounded/char")
z("int[2][3]", "array/bounded/multi")
z("int const[2][3]", "array/bounded/multi+const")
z("int*[2]", "array/bounded/ptr")
z("E[2]", "array/bounded/enum")
z("Empty[2]", "array/bounded/class/empty")
z("Pod[2]", "array/bounded/class/pod")
z("NonTrivDtor[2]", "array/bounded/class/nontrivial-dtor")
z("DelDtor[2]", "array/bounded/class/deleted-dtor")
z("ThrowDtor[2]", "array/bounded/class/throwing-dtor")
z("NoDefault[2]", "array/bounded/class/no-default-ctor")
z("ThrowDefault[2]", "array/bounded/class/throwing-default-ctor")
z("MoveOnly[2]", "array/bounded/class/move-only")
z("int[]", "array/unbounded/int")
z("int const[]", "array/unbounded/int+const")
z("int volatile[]", "array/unbounded/int+volatile")
z("int[][3]", "array/unbounded/multi")
z("Empty[]", "array/unbounded/class/empty")
z("DelDtor[]", "array/unbounded/class/deleted-dtor")
z("NonTrivDtor[]", "array/unbounded/class/nontrivial-dtor")

# functions
z("void()", "function/plain/void", align=False)
z("int(int)", "function/plain/int-int", align=False)
z("void(int, ...)", "function/plain/variadic", align=False)
z("int(int) noexcept", "function/plain/noexcept", align=False)
z("void() const", "function/abominable/const", align=False)
z("void() volatile", "function/abominable/volatile", align=False)
z("void() const volatile", "function/abominable/cv", align=False)
z("void() &", "function/abominable/lref", align=False)
z("void() &&", "function/abominable/rref", align=False)
z("void() const noexcept", "function/abominable/const-noexcept", align=False)
z("int(int) const volatile&", "function/abominable/cv-lref", align=False)
z("void(...) const&&", "function/abominable/variadic-const-rref", align=False)

# unions
z("U", "union/trivial")
z("UDel", "union/deleted-special-members")
z("U const", "union/trivial+const")

# classes
CLASSES = [
    ("Empty", "empty"), ("EmptyFinal", "empty-final"), ("Pod", "pod"), ("NoPad", "no-padding"), ("Padded", "padded"),
    ("WithFloat", "float-member"), ("Agg", "aggregate-with-array"), ("AggTwo", "aggregate-two-members"), ("Base", "base"),
    ("Derived", "derived"), ("PrivDerived", "derived-private"), ("Ambiguous", "derived-ambiguous"), ("VirtDerived", "derived-virtual-base"),
    ("Polymorphic", "polymorphic"), ("VirtDtor", "virtual-dtor"), ("VirtDtorDerived", "virtual-dtor-derived"), ("Abstract", "abstract"),
    ("AbstractProtDtor", "abstract-protected-dtor"), ("AbstractImpl", "polymorphic-final"), ("Final", "final"),
    ("MixedAccess", "mixed-access"), ("OverAligned", "over-aligned"), ("BitField", "bit-fields"),
    ("NonTrivDtor", "nontrivial-dtor"), ("DelDtor", "deleted-dtor"), ("PrivDtor", "private-dtor"), ("ProtDtor", "protected-dtor"),
    ("ThrowDtor", "throwing-dtor"), ("DelDefault", "deleted-default-ctor"), ("NoDefault", "no-default-ctor"),
    ("ExplicitDefault", "explicit-default-ctor"), ("ThrowDefault", "throwing-default-ctor"), ("NothrowDefault", "nothrow-user-default-ctor"),
    ("MemberInit", "default-member-init"), ("DelCopy", "deleted-copy"), ("MoveOnly", "move-only"), ("DelMove", "deleted-move"),
    ("ThrowCopy", "throwing-copy"), ("NothrowCopy", "nothrow-user-copy"), ("ThrowMove", "throwing-move"),
    ("NothrowMoveThrowCopy", "nothrow-move-throwing-copy"), ("ProtCopy", "protected-copy"), ("DelAssign", "deleted-copy-assign"),
    ("NonTrivAssign", "nontrivial-copy-assign"), ("ConstMember", "const-member"), ("RefMember", "reference-member"),
    ("MutCopy", "copy-from-nonconst"), ("ImplicitFromInt", "implicit-from-int"), ("ExplicitFromInt", "explicit-from-int"),
    ("ConvToInt", "converts-to-int"), ("ExplicitConvToInt", "explicitly-converts-to-int"), ("TwoArgs", "two-arg-ctor"),
    ("Functor", "functor"), ("NonConstFunctor", "functor-nonconst"), ("AdlSwap", "adl-swap-only"), ("AdlSwapNothrow", "adl-swap-nothrow"),
    ("DeletedSwap", "deleted-swap"), ("EqComparable", "equality-comparable"), ("Lambda", "closure"), ("LambdaCap", "closure-capturing"),
    # adversarial conversions / boolean-testable proxies (round 2: the concept layer must not collapse to the trait layer)
    ("ExplDelDst", "conv/expl-deleted-dst"), ("ConvSrc", "conv/conv-fn-src"),
    ("AmbDst", "conv/ambiguous-target"), ("AmbSrc", "conv/ambiguous-source"), ("TwoWayA", "conv/two-way-a"), ("TwoWayB", "conv/two-way-b"),
    ("LvalConv", "conv/lvalue-only-conversion-op"), ("RvalConv", "conv/rvalue-only-conversion-op"),
    ("ConstLvalOnlyConv", "conv/deleted-rvalue-conversion-op"), ("DelFromInt", "conv/deleted-best-ctor"),
    ("ExplicitCopy", "explicit-copy-ctor"), ("ConvToArrayRef", "conv/to-array-reference"), ("ConvToFnPtr", "conv/to-function-pointer"),
    ("ThrowingConvToInt", "conv/throwing-conversion-op"), ("AssignFromIntOnly", "assign/from-int-only"),
    ("AssignReturnsVoid", "assign/returns-void"), ("AssignRvalueOnly", "assign/rvalue-qualified"),
    ("Verdict", "boolproxy/model"), ("WeirdBool", "boolproxy/deleted-explicit-bool"), ("ExplicitBool", "boolproxy/explicit-only"),
    ("NotIsVoid", "boolproxy/not-returns-void"), ("NotIsWeird", "boolproxy/not-returns-weird-proxy"),
    ("NotIsVerdict", "boolproxy/not-returns-model-proxy"), ("LvalueOnlyBool", "boolproxy/lvalue-only"),
    ("CmpVerdict", "cmp/returns-model-proxy"), ("CmpWeird", "cmp/returns-deleted-explicit-bool-proxy"),
    ("CmpExplicitBool", "cmp/returns-explicit-bool"), ("CmpVoid", "cmp/returns-void"), ("CmpEqOnlyBool", "cmp/eq-only-rewritten-ne"),
    ("CmpNonConst", "cmp/nonconst-only"), ("CmpNeDeleted", "cmp/ne-deleted"),
    # round 3/4 witnesses
    ("CycA", "cyclic-conv/a"), ("CycB", "cyclic-conv/b"), ("CycC", "cyclic-conv/c"), ("UserL", "user-common-type/l"),
    ("UserR", "user-common-type/r"), ("UserX", "user-common-type/x"), ("Inv", "member-holder"), ("InvDerived", "member-holder-derived"),
    ("FunOvl", "functor-overloaded-on-arg-category"), ("FunOvlObj", "functor-overloaded-on-object-category"),
    ("SwA", "swap/one-direction-a"), ("SwB", "swap/one-direction-b"), ("SwC", "swap/both-directions-c"), ("SwD", "swap/both-directions-d"),
    ("AssignReturnsValue", "assign/returns-value"), ("AssignReturnsConstRef", "assign/returns-const-ref"), ("AssignReturnsInt", "assign/returns-int"),
    ("DelDtorFromInt", "ctor-from-int-deleted-dtor"), ("ThrowDtorFromInt", "ctor-from-int-class/throwing-dtor"),
    ("CrefTarget", "cref-conv/target"), ("CrefConvA", "cref-conv/const-lvalue-only-conversion-op"), ("CtorD", "cref-ctor/source"),
    ("CtorC", "cref-ctor/const-lvalue-only-ctor"),
    ("std::reference_wrapper<int>", "std-reference-wrapper"), ("etl::reference_wrapper<int>", "etl-reference-wrapper"),
]
for s, c in CLASSES:
    z(s, "class/" + c)
for s, c in [("Empty", "empty"), ("Pod", "pod"), ("NonTrivDtor", "nontrivial-dtor"), ("ThrowCopy", "throwing-copy"), ("MoveOnly", "move-only")]:
    z(f"{s} const", f"class/{c}+const")
    z(f"{s} volatile", f"class/{c}+volatile")
z("Pod const volatile", "class/pod+cv")

# swappable family (round 5): {noexcept, throwing} ADL swap x {noexcept, throwing, deleted} moves, as scalar, T[N], T[N][M]
SWZ = [(f"SwZ<{'true' if sn else 'false'}, {m}>", f"adl-swap-{'noexcept' if sn else 'throwing'}/moves-{('noexcept', 'throwing', 'deleted')[m]}")
       for sn in (True, False) for m in (0, 1, 2)]
SWZ += [("AdlSwap", "adl-swap-only"), ("AdlSwapNothrow", "adl-swap-nothrow"), ("ThrowMove", "throwing-move"), ("MoveOnly", "move-only"),
        ("NothrowMoveThrowCopy", "nothrow-move-throwing-copy")]
for _s, _c in SWZ:
    if _s.startswith("SwZ"):
        z(_s, "class/" + _c)
    z(_s + "[2]", "array/bounded/class/" + _c) if _s != "MoveOnly" else None
    z(_s + "[2][3]", "array/bounded/multi/class/" + _c)
    z(_s + "[]", "array/unbounded/class/" + _c) if _s.startswith("SwZ") else None

# incomplete
z("Incomplete", "incomplete/class", inc=True, align=False)
z("Incomplete const", "incomplete/class+const", inc=True, align=False)
z("Incomplete[]", "incomplete/array-unbounded", inc=True, align=False)
z("Incomplete[2]", "incomplete/array-bounded", inc=True, align=False)

# mini zoo for the binary cross products
MINI = [
    "void", "void const volatile", "int volatile", "int const&&", "int(&)[3]", "int", "int const", "long", "double", "bool", "char", "E", "SE", "std::nullptr_t", "int*", "int const*", "void*",
    "void const*", "int&", "int const&", "int&&", "int[3]", "int[]", "void()", "void (*)()", "void (&)()", "Base", "Derived",
    "PrivDerived", "Ambiguous", "Base*", "Derived*", "Base&", "Derived&", "Base const&", "PrivDerived*", "Ambiguous*", "Empty", "ImplicitFromInt",
    "ExplicitFromInt", "ConvToInt", "ExplicitConvToInt", "int Pod::*", "MoveOnly", "DelCopy", "ThrowCopy", "U", "Abstract&",
]
_by_spell = {}
for t in ZOO:
    _by_spell.setdefault(t["spell"], t)
EXTRA_MINI_CATS = {
    "Base*": "ptr/object/class-base", "Derived*": "ptr/object/class-derived", "PrivDerived*": "ptr/object/class-derived-private",
    "Ambiguous*": "ptr/object/class-derived-ambiguous", "Base&": "lref/object/class/base", "Derived&": "lref/object/class/derived",
    "Base const&": "lref/object/class/base-const",
}


def cat_of(spell):
    if spell in _by_spell:
        return _by_spell[spell]["cat"]
    return EXTRA_MINI_CATS[spell]


# adversarial conversion pairs (From, To): each base pair is expanded to value/reference/const variants in both orders
ADV_BASE = [
    ("ConvSrc", "ExplDelDst"), ("AmbSrc", "AmbDst"), ("TwoWayA", "TwoWayB"), ("LvalConv", "int"), ("RvalConv", "int"),
    ("ConstLvalOnlyConv", "int"), ("int", "DelFromInt"), ("long", "DelFromInt"), ("ExplicitCopy", "ExplicitCopy"),
    ("WeirdBool", "bool"), ("Verdict", "bool"), ("ExplicitBool", "bool"), ("LvalueOnlyBool", "bool"), ("ThrowingConvToInt", "int"),
    ("int", "AssignFromIntOnly"), ("int", "AssignReturnsVoid"), ("int", "AssignRvalueOnly"),
    ("int", "AssignReturnsValue"), ("int", "AssignReturnsConstRef"), ("int", "AssignReturnsInt"), ("int", "DelDtorFromInt"),
    ("int", "ThrowDtorFromInt"), ("SwA", "SwB"), ("SwC", "SwD"), ("UserL", "UserR"), ("UserL", "UserX"), ("CycA", "CycB"), ("CycB", "CycC"),
    ("CrefConvA", "CrefTarget"), ("CtorD", "CtorC"),
    ("ConvToArrayRef", "int*"), ("ConvToFnPtr", "FnPtr"), ("ExplicitConvToInt", "int"), ("int", "ExplicitFromInt"),
]
# decay targets and sources: arrays and functions
ADV_FIXED = [
    ("int[3]", "int*"), ("int(&)[3]", "int*"), ("int(&)[3]", "int const*"), ("int[]", "int*"), ("int const[3]", "int*"),
    ("void()", "void (*)()"), ("void (&)()", "void (*)()"), ("int(int) noexcept", "int (*)(int)"), ("int(int)", "int (*)(int) noexcept"),
    ("int*", "int[3]"), ("int*", "int(&)[3]"), ("void (*)()", "void()"), ("void (*)()", "void (&)()"), ("ConvToArrayRef", "int(&)[3]"),
    ("ConvToArrayRef", "int[3]"), ("ConvToFnPtr", "void (&)()"), ("int[3]", "int[3]"), ("void()", "void()"), ("void() const", "void() const"),
    ("int[2][3]", "int(*)[3]"), ("char const(&)[1]", "char const*"),
]


def _short(spell):
    if spell == "FnPtr":
        return "ptr/function/plain"
    c = cat_of(spell)
    return c[6:] if c.startswith("class/") else c


def _refcat(spell, variant):
    return {"": "", "&": "&", " const&": "const&", "&&": "&&", " const": "+const"}[variant]


def adv_pairs():
    seen = set()
    out = []

    def add(a, b, cat):
        if (a, b) not in seen:
            seen.add((a, b))
            out.append((a, b, cat))
    for f, t in ADV_BASE:
        cf, ct = _short(f), _short(t)
        for fv in ("", "&", " const&", "&&"):
            for tv in ("", " const", "&", " const&"):
                add(f + fv, t + tv, f"adv:{cf}{_refcat(f, fv)},{ct}{_refcat(t, tv)}")
                add(t + fv, f + tv, f"adv:{ct}{_refcat(t, fv)},{cf}{_refcat(f, tv)}")
    for sp, c in SWZ:
        for l, r, shape in (("&", "&", "T&,T&"), ("(&)[2]", "(&)[2]", "T[N]&,T[N]&"), ("(&)[2][3]", "(&)[2][3]", "T[N][M]&,T[N][M]&"),
                            ("(&)[2]", "(&)[3]", "T[N]&,T[M]&"), ("(&)[2]", "&", "T[N]&,T&"), ("&", "(&)[2]", "T&,T[N]&"),
                            ("(&&)[2]", "(&)[2]", "T[N]&&,T[N]&"), (" const(&)[2]", " const(&)[2]", "cT[N]&,cT[N]&")):
            add(sp + l, sp + r, f"adv-swap:{c};{shape}")
    for f, t in ADV_FIXED:
        add(f, t, "adv-decay:" + _declcat(f) + "," + _declcat(t))
        add(t, f, "adv-decay:" + _declcat(t) + "," + _declcat(f))
    return out


def _declcat(spell):
    if spell in _by_spell:
        return _by_spell[spell]["cat"]
    return {"int(&)[3]": "lref/array/bounded", "int const[3]": "array/bounded/int+const", "int(int) noexcept": "function/plain/noexcept",
            "int(int)": "function/plain/int-int", "int (*)(int)": "ptr/function/int-int", "int (*)(int) noexcept": "ptr/function/noexcept",
            "int[2][3]": "array/bounded/multi", "int(*)[3]": "ptr/array/bounded", "char const(&)[1]": "lref/array/bounded-const-char",
            "char const*": "ptr/object/char-const", "int const*": "ptr/object/int-const", "void() const": "function/abominable/const"}[spell]
