"""python3 lib/seeded_table.py [--full] : markdown table of all seeded changes (from seeded/*/meta.json).
default: compact table for DESIGN.md 12.5 (result column shortened); --full: complete detection text (written to seeded/README.md by hand:
python3 lib/seeded_table.py --full > seeded/README.md)"""
import glob, json, os, re, sys
ROOT = os.path.dirname(os.path.dirname(os.path.abspath(__file__)))
FULL = "--full" in sys.argv


def order(sid):
    m = re.match(r"(C\d+)-adv(?:(\d)-)?(\d)$", sid)
    return (m.group(1), int(m.group(2) or 1), int(m.group(3))) if m else (sid, 9, 9)


rows = []
for d in glob.glob(os.path.join(ROOT, "seeded", "*", "meta.json")):
    m = json.load(open(d))
    det = m["detection"].strip()
    low = det.lower()
    if low.startswith("caught on the first run") or low.startswith("caught on first run") or low.startswith("caught first run"):
        cls, res = "first", "caught on the first run"
        if FULL:
            res = det
    elif low.startswith("caught, but only after strengthening") or low.startswith("caught after") or low.startswith("caught only after"):
        cls = "pre"
        res = "caught only after a strengthening made on reading the adversary's description, before the first run: " + det.split(":", 1)[-1].strip()
    elif low.startswith("missed"):
        cls = "miss"
        rest = re.sub(r"^missed( on the first run| at first)?[ ;:,.]*", "", det, flags=re.I).strip()
        res = "**missed** on the first run " + rest if rest else "**MISSED** (still open)"
    else:
        cls, res = "other", det
    t = m["title"].replace("|", "/")
    t = re.sub(r"^C\d+ / (round \d / )?change \d+ *[-—] *", "", t)
    res = res.replace("|", "/")
    if not FULL:
        t = t[:110]
        res = res[:330] + ("..." if len(res) > 330 else "")
    rows.append((order(m["id"]), m["id"], t, res, cls))
rows.sort()
n = len(rows)
cnt = {c: sum(1 for r in rows if r[4] == c) for c in ("first", "pre", "miss", "other")}
print(f"{n} seeded changes: {cnt['first']} caught on the first run of the owning check; {cnt['pre']} caught only thanks to a strengthening made after reading "
      f"the adversary's description but before the first run; {cnt['miss']} missed on the first run and caught after the monitor was strengthened"
      + (f"; {cnt['other']} other" if cnt["other"] else "") + ".\n")
print("| id | change | result |\n|---|---|---|")
for r in rows:
    print(f"| {r[1]} | {r[2]} | {r[3]} |")
