"""python3 lib/seeded_table.py: markdown table of all seeded changes (from seeded/*/meta.json)"""
import glob, json, os
ROOT = os.path.dirname(os.path.dirname(os.path.abspath(__file__)))
rows = []
for d in sorted(glob.glob(os.path.join(ROOT, "seeded", "*", "meta.json"))):
    m = json.load(open(d))
    det = m["detection"]
    if det.startswith("caught on the first run") or det.startswith("caught on first run") or det.startswith("caught first run"):
        res = "caught on the first run"
    elif det.startswith("caught, but only after strengthening"):
        res = "caught only after strengthening prompted by the adversary's description: " + det.split(":", 1)[1].strip()
    elif det.upper().startswith("MISSED"):
        res = "**missed** at first; " + det.split(";", 1)[-1].strip() if ";" in det else "**missed**: " + det
    else:
        res = det
    t = m["title"].replace("|", "/")
    rows.append((m["id"], t[:120], res.replace("|", "/")[:300]))
n = len(rows)
first = sum(1 for r in rows if r[2].startswith("caught on the first run"))
print(f"{n} seeded changes; {first} caught on the first run of the owning check, {n - first} only after the monitor was strengthened.\n")
print("| id | change | result |\n|---|---|---|")
for r in rows:
    print(f"| {r[0]} | {r[1]} | {r[2]} |")
