#!/bin/bash
# usage: [VERIF_SEED=n] lib/thorough_pass.sh Cxx ...   (one summary line per property; used for the final thorough passes)
cd /verif
for p in "$@"; do
  s=$(date +%s); out=$(./check $p --tier thorough 2>&1); rc=$?; e=$(date +%s)
  echo "$p thorough rc=$rc wall=$((e-s))s $(echo "$out" | grep -c '^VIOLATION') violations; $(echo "$out" | tail -1 | cut -c1-170)"
  echo "$out" | grep '^VIOLATION' | head -5 | cut -c1-250
done
