"""python3 lib/summ.py Cxx [field...]: group build/run/Cxx/violations.txt by kind|op|symptom (drops subject and situation)."""
import collections, os, sys
ROOT = os.path.dirname(os.path.dirname(os.path.abspath(__file__)))
prop = sys.argv[1]
mode = sys.argv[2] if len(sys.argv) > 2 else "op"
g = collections.OrderedDict()
for line in open(os.path.join(ROOT, "build", "run", prop, "violations.txt")):
    n, key, obs, exp, args = (line.rstrip("\n").split("\t") + ["", "", "", ""])[:5]
    k = key.split("|")
    while len(k) < 5:
        k.append("")
    if mode == "op":
        gk = (k[0], k[2], k[4])
    elif mode == "sit":
        gk = (k[0], k[2], k[3], k[4])
    else:
        gk = tuple(k)
    d = g.setdefault(gk, dict(n=0, keys=0, ex=None, sits=set(), subj=set()))
    d["n"] += int(n); d["keys"] += 1; d["sits"].add(k[3]); d["subj"].add(k[1])
    if d["ex"] is None:
        d["ex"] = (obs, exp, args)
for gk, d in g.items():
    print(f"{d['n']:>8} {d['keys']:>4}k  {' | '.join(gk)}   obs={d['ex'][0][:50]} exp={d['ex'][1][:50]} :: {d['ex'][2][:110]}")
    if mode == "op" and len(d["sits"]) <= 6:
        print("              sits:", sorted(d["sits"]))
