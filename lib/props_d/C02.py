from driver import Unit

MEM = {"crash", "hang", "alloc", "uninit", "lifetime"}  # lifetime: use of / second destruction of a destroyed element is undefined behaviour


def reuse(name, src, defs, shards=4, stride=None, quick=True, std="c++20"):
    args = ["--stride", str(stride)] if stride else []
    return Unit(name, src, defs=defs, std=std, flavours={"quick": ["asan-cc"] if quick else [], "thorough": ["asan-cc", "asan-nocc"]},
                shards={"quick": shards, "thorough": 16}, only_kinds=MEM, args=args if quick else [])


def clone(prop, stride_q, stride_t=1, pick=None, flavour=None):
    """re-run another property's ASan workloads for their sanitizer/crash/lifetime records only"""
    import importlib.util, os
    here = os.path.dirname(os.path.abspath(__file__))
    spec = importlib.util.spec_from_file_location("c02_clone_" + prop, os.path.join(here, prop + ".py"))
    mod = importlib.util.module_from_spec(spec)
    spec.loader.exec_module(mod)
    out = []
    for u in mod.P["units"]:
        fq = [flavour] if flavour else [f for f in u.flavours.get("quick", []) if f.startswith("asan")]
        if not fq or u.only_kinds or u.name.count("probe") or (pick and not pick(u)):
            continue
        base_args = u.args if not isinstance(u.args, dict) else []
        out.append(Unit("C02_" + u.name, u.src, std=u.std, defs=u.defs, gen=u.gen, flavours={"quick": fq[:1], "thorough": fq[:1]}, shards=u.shards,
                        only_kinds=MEM, libs=u.libs,
                        args={"quick": base_args + ["--stride", str(stride_q)], "thorough": base_args + (["--stride", str(stride_t)] if stride_t > 1 else [])}))
    return out


def chars(c):
    return [f"-DVF_CHAR={c}", f'-DVF_CHAR_NAME="{c}"']


P = dict(
    registered=True,
    level="exploration",
    level_text=("Sanitizer and allocator monitoring of valid use: (a) the valid-argument workloads of the behavioural monitors (vectors, strings, views, C-string "
                "functions, ...) re-run under gcc ASan+UBSan with every caller buffer an exact-size heap block and fork-isolated cases, keeping only crash/hang/"
                "sanitizer records; (b) a 60-operation-group valid-use workload (containers, strings, algorithms, charconv, bit/numeric helpers, sets, function "
                "wrappers, chrono, span) executed with an allocator trap (malloc family and operator new interposed; an entry while a library call is on the stack "
                "is an alloc record), under valgrind memcheck (uninitialised-value and invalid-access reports) and under ASan+UBSan; (c) dirty-storage construction: "
                "every container/string/view/bitset/optional/variant/function wrapper is default- and value-initialised on storage pre-filled with 0xAB/0x00/0xFF at "
                "capacities 0,1,15,16,254,255,256 and must report the empty state, then is used once and destroyed (also under valgrind); (d) over-aligned element "
                "types (alignas 32/64) in every owner placed on its own alignof boundary: alignof(owner) >= alignof(T) and every element address aligned, UBSan alignment "
                "check active; (e) the exception-injection scenarios of C03 (an element operation throws in the middle of an owner operation) for their lifetime and "
                "sanitizer records. A clean run is not a proof "
                "of memory safety: red zones miss far-away and intra-object accesses."),
    level_note="ASan/UBSan/valgrind only see what the workloads execute; intra-object overflow is visible only through the model-based monitors of C01/C04/C09",
    technique="compiler sanitizers (ASan+UBSan), valgrind memcheck, allocator-interposition trap and dirty-storage construction over valid-use workloads",
    design_ref="DESIGN.md section 4 C02 and 3.2-3.5",
    rule=("evaluations = library calls executed under a memory monitor (sanitizer, valgrind, allocator trap, dirty storage); distinct = hash of (workload, state, "
          "operation, arguments) resp. (case, step) for the random valid-use workload; every counted call is a real library call on valid arguments (non-trivial)."),
    units=[
        Unit("C02_dirty", "harness/C02_dirty.cpp", flavours={"quick": ["asan-cc", "vg-cc"], "thorough": ["asan-cc", "asan-nocc", "vg-cc", "plain-cc"]},
             shards={"quick": 8, "thorough": 8}),
        Unit("C02_noalloc", "harness/C02_noalloc.cpp", flavours={"quick": ["alloc-cc", "asan-cc"], "thorough": ["alloc-cc", "alloc-nocc", "asan-cc", "asan-nocc"]},
             shards={"quick": 8, "thorough": 16}),
        Unit("C02_noalloc_vg", "harness/C02_noalloc.cpp", flavours={"quick": ["vg-cc"], "thorough": ["vg-cc"]}, shards={"quick": 16, "thorough": 16},
             args=["--stride", "8"]),
        reuse("C02_vec_int", "harness/C01_vector.cpp", ["-DVF_ELEM=0", "-DVF_CAPS=0,1,3,16,255"], stride=2),
        reuse("C02_vec_tcm", "harness/C01_vector.cpp", ["-DVF_ELEM=2", "-DVF_CAPS=1,3,16,256"], stride=2),
        reuse("C02_str_char", "harness/C04_string.cpp", chars("char") + ["-DVF_CAPS=0,1,3,15,16,255"], stride=4, shards=8),
        reuse("C02_str_wchar", "harness/C04_string.cpp", chars("wchar_t") + ["-DVF_CAPS=1,4,16"], quick=False),
        reuse("C02_sv_char", "harness/C08_sv.cpp", chars("char"), stride=2, shards=8),
        reuse("C02_cstr_char", "harness/C18_str.cpp", ["-DVF_WIDE=0"], stride=4, shards=8),
        reuse("C02_cmem_char", "harness/C18_mem.cpp", ["-DVF_WIDE=0"], stride=4),
        # valid use includes element types whose constructors/assignments throw: the exception-injection scenarios of C03, for their lifetime/sanitizer records
        reuse("C02_throw", "harness/C03_throw.cpp", [], shards=4),
        # zero-size / zero-capacity instances of every container, string, view, span, array, bitset and set: every callable member, vs the std counterpart
        Unit("C02_zero", "harness/C02_zero.cpp", flavours={"quick": ["asan-cc", "asan-nocc"], "thorough": ["asan-cc", "asan-nocc", "vg-cc"]},
             shards={"quick": 1, "thorough": 1}),
        # element-converting range algorithms between pointer ranges of different element types (a bytewise fast path must require identical types)
        Unit("C02_conv", "harness/C02_conv.cpp", flavours={"quick": ["asan-cc", "plain-cc"], "thorough": ["asan-cc", "plain-cc", "asan-nocc"]},
             shards={"quick": 2, "thorough": 2}),
        # over-aligned element types: alignof(owner) >= alignof(T), every reachable element address aligned, UBSan alignment check on the library's accesses
        Unit("C02_align", "harness/C02_align.cpp", defs=["-Wno-invalid-offsetof"], flavours={"quick": ["asan-cc"], "thorough": ["asan-cc", "asanO0-nocc"]},
             shards={"quick": 1, "thorough": 1}),
    ] + clone("C06", 4) + clone("C09", 4, 2, pick=lambda u: u.name.endswith(("_p0", "_tracked", "fmset")))
    + clone("C10", 8, 2) + clone("C14", 4, 2, pick=lambda u: u.name.endswith(("_0", "_2"))) + clone("C17", 4, 2, pick=lambda u: u.name.endswith(("_g0", "_g2")))
    # (e) the constexpr kernels of C13 (containers, strings, views, ~80 algorithms, charconv, chrono): GCC's constant evaluator is an
    # undefined-behaviour interpreter, so UB inside a kernel makes the unit fail to compile (compile-failure record); the run-time half runs under ASan
    + clone("C13", 1, 1, pick=lambda u: "kern" in u.name, flavour="asan-cc")
    + clone("C19", 8, 2, pick=lambda u: u.name.endswith("_int32_p0") or u.name.endswith("span_int")),
    floor={"quick": 200000, "thorough": 2000000},
    assumptions=["gcc 12 ASan/UBSan and valgrind 3.19 memcheck report the accesses they are documented to report", "the malloc-family interposers in the harness binary see every allocation of the process (static glibc symbols __libc_malloc etc. forward the real work)"],
)
