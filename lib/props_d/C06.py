from driver import Unit

PROBES = {1: "search_n_fwd", 2: "unique_copy_out", 3: "inplace_merge_bidi", 4: "stable_partition_bidi", 5: "shift_right_fwd", 6: "swap_array"}


def main_unit(name, src, part=None, quick=8, thorough=16):
    defs = [] if part is None else [f"-DC06_PART={part}"]
    return [
        Unit(name, src, defs=defs, flavours={"quick": ["asan-cc"], "thorough": ["asan-cc"]}, shards={"quick": quick, "thorough": thorough}),
        # bulk sweep: one more element (length <= 7), no sanitizer, canary bands instead of red zones
        Unit(name + "_bulk", src, defs=defs + ["-DC06_BULK=1"], flavours={"quick": [], "thorough": ["plain-cc"]}, shards={"quick": 1, "thorough": 16}),
    ]


units = []
units += main_unit("C06_nonmod_a", "harness/C06_nonmod.cpp", 1)
units += main_unit("C06_nonmod_b", "harness/C06_nonmod.cpp", 2)
units += main_unit("C06_mod_a", "harness/C06_mod.cpp", 1)
units += main_unit("C06_mod_b", "harness/C06_mod.cpp", 2)
units += main_unit("C06_sort", "harness/C06_sort.cpp")
units += main_unit("C06_set", "harness/C06_set.cpp")
units += main_unit("C06_numeric", "harness/C06_numeric.cpp", quick=4, thorough=8)
units += main_unit("C06_moveonly", "harness/C06_moveonly.cpp", quick=4, thorough=8)
units.append(Unit("C06_probe_numeric_moveonly_acc", "harness/C06_numeric.cpp", defs=["-DC06_NUM_MOVEONLY=1"],
                  flavours={"quick": ["asan-cc"], "thorough": ["asan-cc"]}, shards={"quick": 2, "thorough": 4}))
units.append(Unit("C06_probe_stable_sort_moveonly", "harness/C06_moveonly.cpp", defs=["-DC06_MO_PART=2"],
                  flavours={"quick": ["asan-cc"], "thorough": ["asan-cc"]}, shards={"quick": 2, "thorough": 4}))

# second pass with predicate / comparator / operator== / operator< results that are boolean-testable but not bool
# (int masks 4, -1, 2048, -8 and a class with a conversion to bool); smaller scope, pointer + weakest iterator kinds
def truthy_unit(name, src, part=None):
    defs = ["-DC06_TRUTHY=1"] + ([] if part is None else [f"-DC06_PART={part}"])
    return Unit(name + "_truthy", src, defs=defs, flavours={"quick": ["asan-cc"], "thorough": ["asan-cc"]}, shards={"quick": 4, "thorough": 8})


units.append(truthy_unit("C06_nonmod_a", "harness/C06_nonmod.cpp", 1))
units.append(truthy_unit("C06_nonmod_b", "harness/C06_nonmod.cpp", 2))
units.append(truthy_unit("C06_mod_a", "harness/C06_mod.cpp", 1))
units.append(truthy_unit("C06_mod_b", "harness/C06_mod.cpp", 2))
units.append(truthy_unit("C06_sort", "harness/C06_sort.cpp"))
units.append(truthy_unit("C06_set", "harness/C06_set.cpp"))
# arithmetic element types through raw pointers (type-keyed fast paths): signed char/char, unsigned char/short, float
for k, nm in {1: "char", 2: "uchar_short", 3: "float"}.items():
    units.append(Unit("C06_types_" + nm, "harness/C06_types.cpp", defs=[f"-DC06_TYPES_PART={k}", "-DC06_SMALL=1"],
                      flavours={"quick": ["asan-cc"], "thorough": ["asan-cc", "plain-cc"]}, shards={"quick": 4, "thorough": 8}))
# heterogeneous element / value (or second-range) types with a lossy conversion in one direction
for k, nm in {1: "a", 2: "b", 3: "c", 4: "d"}.items():  # c, d: signed/unsigned pairs of equal width
    units.append(Unit("C06_hetero_" + nm, "harness/C06_hetero.cpp", defs=[f"-DC06_HET_PART={k}", "-DC06_SMALL=1"],
                      flavours={"quick": ["asan-cc"], "thorough": ["asan-cc"]}, shards={"quick": 4, "thorough": 8}))
# random-access iterators that are not contiguous (etl::reverse_iterator<T*>, strided), int and class elements
for part, tn in {1: "int", 2: "class"}.items():
    for view, vn in {1: "rev", 2: "stride"}.items():
        units.append(Unit(f"C06_noncontig_{tn}_{vn}", "harness/C06_noncontig.cpp", defs=[f"-DC06_NC_PART={part}", f"-DC06_NC_VIEW={view}", "-DC06_SMALL=1"],
                          flavours={"quick": ["asan-cc"], "thorough": ["asan-cc"]}, shards={"quick": 4, "thorough": 8}))
# element type with its own ADL swap (call counts / marks / no moves), and a swappable-only element type (probe)
units.append(Unit("C06_adlswap", "harness/C06_adlswap.cpp", flavours={"quick": ["asan-cc"], "thorough": ["asan-cc"]}, shards={"quick": 4, "thorough": 8}))
units.append(Unit("C06_probe_swap_only", "harness/C06_adlswap.cpp", defs=["-DC06_ADL_PART=2"],
                  flavours={"quick": ["asan-cc"], "thorough": ["asan-cc"]}, shards={"quick": 2, "thorough": 4}))
for k, nm in PROBES.items():
    units.append(Unit("C06_probe_" + nm, "harness/C06_probe.cpp", defs=[f"-DC06_PROBE={k}"],
                      flavours={"quick": ["asan-cc"], "thorough": ["asan-cc"]}, shards={"quick": 2, "thorough": 4}))

P = dict(
    registered=True,
    level="exploration",
    level_text=("Differential runtime monitoring: every algorithm of etl/algorithm.hpp (81 headers) and the range algorithms of etl/numeric.hpp, "
                "every overload, is executed on an exhaustively enumerated small scope (all sequences up to length 5/6/7 over keys {0,1,2} with identity tags, "
                "every split point, every count/shift, all second ranges/needles up to length 3/4, comparators less/greater/mod-2, null / empty / embedded / exact-size ranges, "
                "raw pointers and bounds-checked forward/bidirectional/random-access/single-pass wrappers carrying the etl iterator tags) plus seeded random longer inputs, "
                "under ASan+UBSan, and compared with the libstdc++ algorithm of the same name on a copy (only the part of the result the standard specifies). "
                "Held means: no divergence, no out-of-range predicate/move/iterator use and no sanitizer report on the executions listed in the evidence; it is not a proof for longer inputs or other element types."),
    level_note="trusts libstdc++ 12 algorithms as oracle and gcc 12 ASan/UBSan red zones; scope bounded by the enumerated lengths/alphabet and the random sample; complexity guarantees are not checked",
    technique="runtime differential monitoring vs libstdc++ algorithms under ASan+UBSan with instrumented iterators, elements and predicates (exhaustive small scope + seeded random)",
    design_ref="DESIGN.md section 4 C06, section 3.7",
    rule=("case = (input sequence, test group); enumerated: every sequence of length <= 5 (quick) / 6 (thorough) / 7 (thorough bulk, no sanitizer) over keys {0,1,2} x every test group; "
          "inside a case every overload is called for every parameter in scope (all middles, all n in [-1,len+1] where defined, all values/predicates, all needles of length <= 3/4, "
          "all comparators, every iterator kind listed in the per_operation labels, presentations exact-size block / embedded between guard elements / null range). "
          "One evaluation = one etl call whose result was compared with the reference. Distinct = distinct hash of (overload, iterator kind, presentation, input, parameters); "
          "non-trivial = first range non-empty."),
    units=units,
    floor={"quick": 3000000, "thorough": 30000000},
    assumptions=["libstdc++ 12 <algorithm>/<numeric> are a correct reference for the specified part of each result",
                 "gcc 12 ASan/UBSan report every out-of-block access adjacent to an exact-size heap block",
                 "of <numeric> the range algorithms and gcd/lcm (mixed argument types) are covered; midpoint, abs and the saturating operations are left to C14",
                 "element types: a small copyable struct (key, tag), a move-only twin whose self-move-assignment is destructive, heterogeneous pairs double/int, int/unsigned char, long long/int, int/unsigned, long long/unsigned long long, short/unsigned short (both directions), a type with its own ADL swap, a swappable-only type, signed char/char/unsigned char/short/float through raw pointers, long long/int/unsigned char for numeric; other element types are not exercised",
                 "predicate results: bool, and in the *_truthy units int masks (incl. negative) and a class implicitly convertible to bool (C++20 boolean-testable); explicit-only conversions are outside the standard's requirement and not exercised"],
)
