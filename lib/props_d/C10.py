from driver import Unit

_FL = {"quick": ["plain-cc", "asan-cc"], "thorough": ["plain-cc", "asan-cc", "asan-nocc"]}

P = dict(
    registered=True,
    level="exploration",
    level_text=("Differential runtime monitoring of the integer<->text conversions: etl::to_chars, strings::from_integer (with and without "
                "terminator) and to_string<N> are executed for every value of the 8- and 16-bit types in every base 2..36 and for boundary "
                "and seeded random values of the 32/64-bit types, each with every output buffer length from 0 to digits+2 (+3 with terminator) "
                "in an exact-size heap block, and compared with std::to_chars/std::to_string (digits, returned pointer, error class, guard bytes). "
                "etl::from_chars and strings::to_integer (three option sets) parse exact-size non-terminated views generated from the grammar "
                "ws* sign? prefix? digit* garbage* (all values formatted and decorated, strings around every limit, very long digit runs, seeded "
                "random strings) and are compared with std::from_chars in value, consumed count and error class; strtol/strtoll/strtoul/strtoull, "
                "atoi/atol/atoll and stoi/stol/stoll/stoul/stoull are compared with glibc / libstdc++ in value and end position for base 0 and 2..36; "
                "parse(format(x)) == x is checked through tetl's own formatters. Plain -O2 build for the bulk sweep (canary bands), ASan+UBSan build "
                "on a stratum (quick) or the full sweep (thorough). Held means: no divergence outside the listed open findings and no sanitizer/canary "
                "report on the executions counted in the evidence; it is not a proof for the 32/64-bit values that were not executed."),
    level_note="trusts libstdc++ 12 <charconv>/std::to_string/std::sto* and glibc strto* as oracles and gcc 12 ASan/UBSan red zones; 32/64-bit value space only sampled (boundaries + seeded random)",
    technique="runtime differential monitoring vs std::to_chars/from_chars, glibc strto*, std::sto* under ASan+UBSan and canary-guarded exact-size buffers (exhaustive 8/16-bit x 35 bases x all buffer lengths + boundary + seeded random)",
    design_ref="DESIGN.md section 4 C10",
    rule=("one evaluation = one etl call whose result was compared with the reference. Formatting: (type, value, base, buffer length) for to_chars / "
          "from_integer<terminate|no-terminate> with every length 0..digits+2(+3), to_string<N> for N in {1,2,5,10,11,19,20,21} where the digits fit; "
          "enumerated part: all values of int8_t/uint8_t/char/int16_t/uint16_t x bases 2..36 (ASan quick build: 8-bit complete, 16-bit every 7th value), "
          "for the six 32/64-bit types per base: base^k, base^k+-1 (both signs), limits+-2, limit/base+-2, [-10^4,10^4]. Parsing: (type, base, input string) "
          "for from_chars and to_integer<skip-ws,check | no-skip,check | skip-ws,no-check (non-overflowing inputs only)>; inputs = every enumerated value's "
          "digits plain / upper-case / zero-padded / + one trailing non-digit / + leading whitespace, strings around each limit (max-2..max+2, min-2..min+2, "
          "*base, 2^32, 2^63, 2^64, 20..130-digit runs) x decorations, and the product ws x sign x prefix x digits x tail of the grammar; C family: (function, base in "
          "{0,2..36}, input) with the same generators on null-terminated exact-size buffers (views for sto*). Then seeded random inputs from the same grammar. "
          "Distinct = distinct (type/function, base, value-or-input, buffer length) tuples; all are non-trivial (every tuple runs the full digit/parse loop)."),
    units=[
        Unit("C10_fmt", "harness/C10_fmt.cpp", flavours=_FL, shards={"quick": 8, "thorough": 16}),
        Unit("C10_parse", "harness/C10_parse.cpp", flavours=_FL, shards={"quick": 8, "thorough": 16}),
        Unit("C10_cstr", "harness/C10_cstr.cpp", flavours=_FL, shards={"quick": 8, "thorough": 16}),
    ],
    floor={"quick": 50000000, "thorough": 200000000},
    exhaustive_note=("true when every build enumerated its whole stated scope and all shards finished; in the quick tier the plain-cc build enumerates all 8/16-bit values x "
                     "35 bases x all buffer lengths while the asan-cc build thins the 16-bit sweep to every 7th value, so the flag is false there; thorough runs both in full"),
    assumptions=["libstdc++ 12 std::to_chars/std::from_chars/std::to_string/std::sto* and glibc 2.36 strtol/strtoll/strtoul/strtoull are correct references",
                 "gcc 12 ASan/UBSan report every access adjacent to an exact-size heap block; 64-byte 0xA5 canary bands catch overruns in the plain build",
                 "etl::strings::to_integer is specified as 'optional whitespace, then the std::from_chars grammar' (it rejects '+', and '-' for unsigned types, like from_chars); "
                 "on invalid input its end is the start of the string (tests pin this, strtol agrees)",
                 "etl::sto*: std throws where tetl has no channel; '*pos == 0' is accepted as tetl's report of invalid_argument"],
)
