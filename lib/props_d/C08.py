from driver import Unit


def chardefs(c):
    return [f"-DVF_CHAR={c}", f'-DVF_CHAR_NAME="{c}"']


P = dict(
    registered=True,
    level="exploration",
    level_text=("Differential runtime monitoring: every overload of every string_view search/compare/substr/copy/remove_* member is executed "
                "on an exhaustively enumerated small scope (all haystack/needle pairs up to length 4-5 over {a, 0xE9, NUL} x all pos x all counts) "
                "plus seeded random longer strings, under ASan+UBSan on exact-size heap blocks and in trap-suffix embeddings, and compared with "
                "std::basic_string_view; plus (i) a unit with views longer than 2^31 / 2^32 characters (sparse 6 GiB mapping; operations that read O(1) characters) "
                "for size arithmetic narrowed to 32 bits, and (ii) units that evaluate the members in CONSTANT EXPRESSIONS with etl and with std over all "
                "haystacks <= 3 x needles <= 2 and compare them with each other and with etl at run time. Held means: no divergence and no sanitizer report on the executions listed in the evidence; it is not a proof for longer strings."),
    level_note="trusts libstdc++ 12 basic_string_view as oracle and gcc 12 ASan/UBSan red zones; scope bounded by the enumerated lengths/alphabet and the random sample",
    technique="runtime differential monitoring vs std::basic_string_view under ASan+UBSan (exhaustive small scope + seeded random)",
    design_ref="DESIGN.md section 4 C08",
    rule=("enumerated: every (haystack, needle) pair over the alphabet {a, 0xE9[, NUL]} up to the stated lengths x every pos in [0,len+2] "
          "plus npos, npos-1 x every count in [0,len+1] plus npos, npos-1, SIZE_MAX/2+2, for every overload of every search/compare/substr/copy/remove_* member, each pair presented "
          "twice (exact-size heap blocks; embedded in a larger buffer whose neighbours complete a false match); then seeded random "
          "longer strings. One evaluation = one etl call compared with std::basic_string_view. Distinct = distinct hash of "
          "(presentation, haystack, needle, pos, count, overload); non-trivial = haystack or needle non-empty."),
    units=[
        Unit("C08_sv_char", "harness/C08_sv.cpp", defs=chardefs("char"),
             flavours={"quick": ["asan-cc"], "thorough": ["asan-cc", "asan-nocc"]}, shards={"quick": 8, "thorough": 16}),
        Unit("C08_sv_wchar_t", "harness/C08_sv.cpp", defs=chardefs("wchar_t"),
             flavours={"quick": ["asan-cc"], "thorough": ["asan-cc"]}, shards={"quick": 8, "thorough": 16}),
        Unit("C08_sv_char16_t", "harness/C08_sv.cpp", defs=chardefs("char16_t"),
             flavours={"quick": ["asan-cc"], "thorough": ["asan-cc"]}, shards={"quick": 8, "thorough": 16}),
        Unit("C08_sv_char8_t", "harness/C08_sv.cpp", defs=chardefs("char8_t"),
             flavours={"quick": [], "thorough": ["asan-cc"]}, shards={"quick": 8, "thorough": 16}),
        # views whose size does not fit in 32 bits (6 GiB reserved with MAP_NORESERVE, a few pages touched)
        Unit("C08_huge", "harness/C08_huge.cpp", flavours={"quick": ["asan-cc", "plain-cc"], "thorough": ["asan-cc", "plain-cc", "O0-nocc"]},
             shards={"quick": 1, "thorough": 1}),
        # the same members in constant expressions: etl vs std, both constant-evaluated, and etl constant-evaluated vs etl at run time
        Unit("C08_ce_char", "harness/C08_ce.cpp", defs=chardefs("char"),
             flavours={"quick": ["plain-cc"], "thorough": ["plain-cc", "O0-cc", "asan-cc"]}, shards={"quick": 1, "thorough": 1}),
        Unit("C08_ce_wchar_t", "harness/C08_ce.cpp", defs=chardefs("wchar_t"),
             flavours={"quick": ["plain-cc"], "thorough": ["plain-cc", "O0-cc", "asan-cc"]}, shards={"quick": 1, "thorough": 1}),
        Unit("C08_ce_char8_t", "harness/C08_ce.cpp", defs=chardefs("char8_t"),
             flavours={"quick": [], "thorough": ["plain-cc", "O0-cc"]}, shards={"quick": 1, "thorough": 1}),
        Unit("C08_ce_char16_t", "harness/C08_ce.cpp", defs=chardefs("char16_t"),
             flavours={"quick": [], "thorough": ["plain-cc", "O0-cc"]}, shards={"quick": 1, "thorough": 1}),
    ],
    floor={"quick": 1000000, "thorough": 10000000},
    assumptions=["libstdc++ 12 std::basic_string_view is a correct reference", "gcc 12 ASan/UBSan report every out-of-block access adjacent to an exact-size heap block"],
)
