from driver import Unit

FL = {"quick": ["asan-cc"], "thorough": ["asan-cc", "asan-nocc"]}
FL1 = {"quick": ["asan-cc"], "thorough": ["asan-cc"]}
FLO0 = {"quick": ["asanO0-cc"], "thorough": ["asanO0-cc"]}  # template-heavy, tiny run: same sanitizers at -O0 compile 3x faster


def u(name, src, cfg=None, shards=(6, 16), fl=FL, probe=None):
    defs = []
    if cfg is not None:
        defs.append(f"-DVF_CFG={cfg}")
    if probe is not None:
        defs.append(f"-DVF_PROBE={probe}")
    return Unit(name, src, std="c++23", defs=defs, flavours=fl, shards={"quick": shards[0], "thorough": shards[1]})


units = [
    u("C07_optional_int", "harness/C07_optional.cpp", 0),
    u("C07_optional_tcm", "harness/C07_optional.cpp", 1),
    u("C07_optional_tmo", "harness/C07_optional.cpp", 2),
    u("C07_optref", "harness/C07_optref.cpp"),
    u("C07_variant_2", "harness/C07_variant.cpp", 0),
    u("C07_variant_3", "harness/C07_variant.cpp", 1),
    u("C07_variant_4", "harness/C07_variant.cpp", 2),
    u("C07_variant_mo", "harness/C07_variant.cpp", 3),
    u("C07_variant_rep_tcm", "harness/C07_variant.cpp", 4, fl=FL1),
    u("C07_variant_rep_int", "harness/C07_variant.cpp", 5, fl=FL1),
    u("C07_variant_rep_str", "harness/C07_variant.cpp", 6, fl=FL1),
    u("C07_expected_int", "harness/C07_expected.cpp", 0),
    u("C07_expected_tracked", "harness/C07_expected.cpp", 1),
    u("C07_expected_same_tcm", "harness/C07_expected.cpp", 2, fl=FL1),
    u("C07_expected_same_str", "harness/C07_expected.cpp", 3, fl=FL1),
    u("C07_expected_conv", "harness/C07_expected.cpp", 4, fl=FL1),
    u("C07_select", "harness/C07_select.cpp", shards=(1, 1), fl=FL1),
    Unit("C07_select_zoo1", "harness/C07_select.cpp", std="c++23", defs=["-DVF_PART=1"], flavours=FLO0, shards={"quick": 1, "thorough": 1}),
    Unit("C07_select_zoo2", "harness/C07_select.cpp", std="c++23", defs=["-DVF_PART=2"], flavours=FLO0, shards={"quick": 1, "thorough": 1}),
    Unit("C07_select_zoo3", "harness/C07_select.cpp", std="c++23", defs=["-DVF_PART=3"], flavours=FLO0, shards={"quick": 1, "thorough": 1}),
    u("C07_addressof", "harness/C07_addressof.cpp", shards=(1, 1), fl=FL),
    u("C07_unordered", "harness/C07_unordered.cpp", shards=(1, 1), fl=FL1),
    u("C07_members", "harness/C07_members.cpp", shards=(1, 1), fl=FL),
    u("C07_valueor", "harness/C07_valueor.cpp", shards=(1, 1), fl=FL1),
    u("C07_sources", "harness/C07_sources.cpp", shards=(1, 1), fl=FL1),
    u("C07_visitmix", "harness/C07_visitmix.cpp", shards=(1, 1), fl=FLO0),
    u("C07_variant_1", "harness/C07_variant.cpp", 7, shards=(3, 8), fl=FL1),
    u("C07_probe_nullopt_rel", "harness/C07_probe.cpp", probe=1, shards=(1, 1), fl=FL1),
    u("C07_probe_optref_conv", "harness/C07_probe.cpp", probe=2, shards=(1, 1), fl=FL),
    u("C07_probe_visit_ref", "harness/C07_probe.cpp", probe=3, shards=(1, 1), fl=FL1),
    u("C07_probe_rvalue_monadic", "harness/C07_probe.cpp", probe=4, shards=(1, 1), fl=FL1),
    u("C07_probe_repeated_alt_traits", "harness/C07_probe.cpp", probe=5, shards=(1, 1), fl=FL1),
]

P = dict(
    registered=True,
    level="exploration",
    level_text=("Differential runtime monitoring with twin worlds: every operation is written once as a template over a namespace-traits type and executed on the "
                "std object (std::optional / std::variant / std::expected of libstdc++ 12, -std=c++23) and on the etl object; each operation appends named observations "
                "(returned values and references, engaged flag / active index / value, holds_alternative and get_if for every alternative, relational results in both "
                "argument orders, visitor call log with type, value and value category of every argument, state of the source operand after a move) to a trace and the "
                "two traces are compared item by item. Scope: optional<int>, optional<tracked copy+move>, optional<tracked move-only> incl. mixed optional<T>/optional<U> "
                "forms; optional<int&>, optional<int const&>, optional<tracked&> against the model 'a pointer'; variant with 2, 3 and 4 alternatives (trivially copyable and "
                "not) and a move-only variant, multi-variant visit over every index combination of 2 and 3 variants; expected<int,int>, expected<tracked,tracked2>, unexpected; "
                "variants with REPEATED alternative types (variant<tracked,int,tracked>, variant<int,int>, variant<string-like,string-like,char>) driven purely by index incl. "
                "visit_with_index, and expected<T,T> / expected<T,E convertible to T>; "
                "the alternative selected by converting construction/assignment for 1 582 (variant, argument type) cells (arithmetic types, class types with conversion functions, enums, nullptr, arrays; bool in every position) and 83 optional<T>/optional<U> conversion cells; "
                "every relation with the SAME object on both sides / an optional against its own contained object for non-reflexive and inconsistent payload comparisons; "
                "value_or with fallbacks of other arithmetic / class types at the precision boundaries (value and declared return type) and the declared result types of and_then / or_else; "
                "relations between optionals of different payload types (signed/unsigned, integer/floating, char/int at the conversion boundaries); every copy-style operation "
                "from a non-const lvalue leaves its source unchanged (payloads whose rvalue overloads damage the argument); visit over variants with 1, 2 and 3 alternatives in "
                "every position and index combination; "
                "a payload with a hostile unary operator& through every access path (identity against std::addressof); "
                "all six relations over unordered payloads (NaN, a partially ordered instrumented type whose own <,<=,>,>= calls are counted) for optional, optional<T&> and variant; "
                "952 cells over payload types whose copy/move constructor, copy/move assignment and destructor are independently trivial or user-provided, comparing the "
                "special-member call ledger of copy/move assignment, construction, emplace, reset and swap with the std owner of the same payload type. "
                "Enumerated: every start state x construction form, then every pair (operation, operation) with every argument tuple, plus every chain of d operations whose "
                "first d-1 are state-changing (d = 3 for optional, optional<T&>, expected; thorough: 4; variant: thorough 3), plus seeded random 50-step histories, "
                "under ASan+UBSan with contract checks on (thorough: also off). Held means: no trace difference, no sanitizer report and no handler "
                "call on the executions listed in the evidence; it is not a proof for other payload types or longer histories."),
    level_note=("trusts libstdc++ 12 as oracle; libstdc++ 12 has no std::optional<T&> (model: pointer, relations via std::optional<V>) and no std::expected::and_then/or_else "
                "(reference: the wording of [expected.object.monadic] written out in the harness); members tetl lacks (optional::value/transform, variant get<I>/member swap, "
                "expected value ctor/assignment, ==, value(), transform ...) are detected with requires, skipped and listed in the samples; there is no throwing accessor in tetl, "
                "so the 'throws like std' comparison is vacuous; payload values are drawn from a 3-value domain"),
    technique="runtime differential monitoring vs std::optional/variant/expected (twin-world traces) under ASan+UBSan; odometer enumeration + seeded random histories",
    design_ref="DESIGN.md section 4 C07",
    rule=("enumerated: per subject, one case per first operation; the case enumerates (odometer) every start state x construction form x every argument tuple of the first "
          "operation x (a) every second operation with every argument tuple and (b) if the first operation can change the state, every chain first-op, state-changing op(s), "
          "any op up to the depth bound with every argument tuple (histories through operations that cannot change the state are equivalent to shorter ones). One evaluation = "
          "one operation executed on both objects followed by the comparison of the operation's observations and of the full observer battery. Distinct = hash of (subject, "
          "abstract state before = engaged/index + value, operation, argument tuple); all are non-trivial (the state space is small by construction, so the distinct count is "
          "in the thousands while evaluations are in the tens of millions)."),
    units=units,
    floor={"quick": 40000000, "thorough": 500000000},
    assumptions=["libstdc++ 12 std::optional / std::variant / std::expected are correct references", "[expected.object.monadic] (C++23) is transcribed correctly in the harness",
                 "gcc 12 ASan/UBSan"],
)
