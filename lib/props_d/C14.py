from driver import Unit

_FL = {"quick": ["asan-cc"], "thorough": ["asan-cc"]}

P = dict(
    registered=True,
    level="exploration",
    level_text=("Differential runtime monitoring: every bit/integer utility named by the property is evaluated on exhaustively enumerated "
                "small scopes (all values of 8- and 16-bit types for unary functions, all pairs of 8-bit values, full 16-bit sweeps against a "
                "boundary grid, structured single-bit/low-mask/+-1/limit sets for 32/64-bit types and their pairs, rotation counts in [-130,130] "
                "plus int extremes, every bit position) plus seeded random arguments, under ASan+UBSan, and compared with libstdc++ "
                "<bit>/<numeric>/<utility> or exact __int128 arithmetic. Held means: no divergence and no sanitizer report on the evaluations "
                "listed in the evidence; it is not a proof for the 32/64-bit values that were not drawn."),
    level_note="trusts libstdc++ 12 <bit>/<numeric>/<utility> and __int128 arithmetic as oracle, gcc 12 UBSan for shift/overflow detection; 32/64-bit scopes are sampled, not exhausted",
    technique="runtime differential monitoring vs std <bit>/<numeric>/<utility> and exact __int128 arithmetic under ASan+UBSan (exhaustive small scope + structured boundary sets + seeded random)",
    design_ref="DESIGN.md section 4 C14",
    rule=("One evaluation = one in-domain call of one tetl function for one argument tuple, compared with the oracle. Enumerated part per (function, type[s]): "
          "unary - every value of 8/16-bit types, the structured set (every single bit, low mask, +-1 neighbours, negations, limits, byte patterns, powers of ten) "
          "of 32/64-bit types; binary - all pairs of 8-bit values, structured x structured otherwise, every 16-bit value x boundary grid in both positions; "
          "rotations - value set x counts [-130,130] + int extremes; bit helpers - value set x every position. Random part: blocks of 16384 seeded draws "
          "(uniform, log-uniform, near-limit, single-bit+-d, related pairs with common factors). Out-of-domain tuples (bit_ceil result unrepresentable, "
          "divisor 0, |min|, unrepresentable gcd/lcm/ipow/quotient, negative exponent, ilog2(x<=0)) are skipped and not counted. Distinct = distinct "
          "(function, types, argument tuple): enumerated blocks enumerate without repetition and exclude tuples owned by another block; a random tuple "
          "counts only if it is not in the enumerated sets and its hash is new. Non-trivial: every in-domain tuple (these are pure functions; there is no state)."),
    units=(
        [Unit(f"C14_bit_{r}", "harness/C14_bit.cpp", defs=[f"-DC14_ROWS={r}"], flavours=_FL,
              shards={"quick": 2, "thorough": 4}) for r in (0, 1)]
        + [Unit(f"C14_arith_{r}", "harness/C14_arith.cpp", defs=["-DC14_PART=1", f"-DC14_ROWS={r}"], flavours=_FL,
                shards={"quick": 3, "thorough": 6}) for r in (0, 1)]
        + [Unit(f"C14_gcdmix_{r}", "harness/C14_arith.cpp", defs=["-DC14_PART=2", f"-DC14_ROWS={r}"], flavours=_FL,
                shards={"quick": 2, "thorough": 4}) for r in (0, 1, 2, 3)]
        + [Unit(f"C14_cmp_{r}", "harness/C14_cmp.cpp", defs=[f"-DC14_ROWS={r}"], flavours=_FL,
                shards={"quick": 2, "thorough": 4}) for r in (0, 1, 2, 3)]
        # character-like integer types for the families that accept them; __int128 / unsigned __int128 for abs and gcd
        + [Unit("C14_arith_chars", "harness/C14_arith.cpp", defs=["-DC14_PART=4"], flavours=_FL, shards={"quick": 2, "thorough": 4}),
           Unit("C14_wide", "harness/C14_wide.cpp", flavours=_FL, shards={"quick": 4, "thorough": 8}),
           # ipow with exponents >= 2^31 (bases 0, 1, -1): the library loops exponent times, so -O2 without sanitizers, one call group per case
           Unit("C14_ipow_huge", "harness/C14_arith.cpp", defs=["-DC14_PART=5"], flavours={"quick": ["plain-cc"], "thorough": ["plain-cc"]},
                shards={"quick": 6, "thorough": 12})]
        # thorough only, -O2 without sanitizers: every pair of 16-bit values
        + [Unit("C14_arith_bulk", "harness/C14_arith.cpp", defs=["-DC14_PART=3"], flavours={"quick": [], "thorough": ["plain-cc"]},
                shards={"quick": 1, "thorough": 16}),
           Unit("C14_cmp_bulk", "harness/C14_cmp.cpp", defs=["-DC14_ROWS=9"], flavours={"quick": [], "thorough": ["plain-cc"]},
                shards={"quick": 1, "thorough": 16})]
    ),
    floor={"quick": 100000000, "thorough": 10000000000},
    assumptions=["libstdc++ 12 <bit>, <numeric> (gcd/lcm/midpoint) and <utility> (cmp_*/in_range) are correct references",
                 "__int128 arithmetic of gcc 12 is exact for 64-bit operands",
                 "gcc 12 UBSan reports every signed overflow / invalid shift / division by zero executed"],
)
