from driver import Unit

P = dict(
    registered=True,
    level="exploration",
    level_text=("Differential runtime monitoring of the calendar types. Every one of the ~23.9 million sys_days values of years -32767..32767 is converted "
                "to year_month_day and back (identity), the civil date is compared with libstdc++ std::chrono::year_month_day AND with an independent "
                "day-by-day calendar walker (month lengths + leap rule, no closed form), weekday(sys_days) with (d+4) mod 7, last day of month with the walker; "
                "ok() for every (year in boundary set + stride, month 0..13, day 0..32), is_leap and the last day of all 12 months for every year, "
                "month x months in [-40,40]+large, weekday x days in [-20,20]+large, year +/- years over the int16 range, day +/- days, and "
                "year_month / year_month_day / year_month_day_last / year_month_weekday / year_month_weekday_last +/- months / years (all operator forms) crossing "
                "year ends in both directions, plus every operator/ builder, all compared with std::chrono under ASan+UBSan. "
                "Held means: no divergence, sanitizer report or contract-handler call on the executions listed in the evidence."),
    level_note="trusts libstdc++ 12 <chrono> calendars and the harness' own walker (they are cross-checked against each other on every input; a disagreement is reported, not ignored); "
               "composite-type arithmetic is exhaustive only for the listed years x months x deltas",
    technique="runtime differential monitoring vs std::chrono and an independent calendar walker (exhaustive day sweep + enumerated grids + seeded random) under ASan+UBSan",
    design_ref="DESIGN.md section 4 C11",
    rule=("C11_days: one case = 10000 consecutive days; plain-cc runs every day of [-32767-01-01, 32767-12-31]; asan-cc runs every 97th chunk plus the chunks holding "
          "the range ends, day 0, 0000-03-01 and the neighbouring era starts, plus seeded random 2000-day windows (thorough: every chunk under asan-cc as well). "
          "C11_cal: enumerated grids (see level_text); C11_conv / C11_conv_ymwdl: the members that were declared but not defined on the snapshot "
          "(year_month_day_last/year_month_weekday(_last) <-> sys_days, compound assignment) on a stride of days + first/last day of every month of the strided chunks. "
          "One evaluation = one tetl call (or conversion) compared with the reference. Distinct = distinct hash of (type, operation, operands); "
          "for the day sweep one distinct input per day and operation. All inputs are non-trivial (no empty state exists for these value types)."),
    exhaustive_note=("true = the plain-cc day sweep covered every day of the supported range and every enumerated grid completed; the asan-cc day sweep of the quick tier is the stated 1/97 stride, "
                     "the composite-type grids are complete only for the listed years/months/deltas"),
    units=[
        Unit("C11_days", "harness/C11_days.cpp",
             flavours={"quick": ["plain-cc", "asan-cc"], "thorough": ["plain-cc", "asan-cc", "plain-nocc"]}, shards={"quick": 8, "thorough": 16}),
        Unit("C11_cal", "harness/C11_cal.cpp",
             flavours={"quick": ["asan-cc"], "thorough": ["asan-cc", "asanO0-nocc"]}, shards={"quick": 8, "thorough": 16}),
        Unit("C11_conv", "harness/C11_conv.cpp",
             flavours={"quick": ["asan-cc"], "thorough": ["asan-cc"]}, shards={"quick": 4, "thorough": 16}),
        Unit("C11_conv_ymwdl", "harness/C11_conv.cpp", defs=["-DC11_CONV_YMWDL=1"],
             flavours={"quick": ["asan-cc"], "thorough": ["asan-cc"]}, shards={"quick": 4, "thorough": 16}),
    ],
    floor={"quick": 150000000, "thorough": 400000000},
    assumptions=["libstdc++ 12 std::chrono calendar types are a correct reference (cross-checked against an independent day-by-day walker on every input)",
                 "gcc 12 UBSan reports signed overflow in the era/yoe/doy arithmetic",
                 "values outside a type's documented domain (day >= 255, years outside [-32767, 32767], -INT_MIN day counts) are not issued"],
)
