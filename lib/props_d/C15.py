import os
import sys

from driver import Unit

sys.path.insert(0, os.path.join(os.path.dirname(os.path.dirname(os.path.dirname(os.path.abspath(__file__)))), "gen"))
import c15_matrix as _m  # noqa: E402

_Q = {"quick": ["O0-cc"], "thorough": ["O0-cc"]}
_T = {"quick": [], "thorough": ["O0-cc"]}

_units = []
for _n in _m.families():
    _units.append(Unit(_n, None, std=_m.std_of(_n), gen=_m.make_gen(_n), flavours=_Q, shards={"quick": 1, "thorough": 1}))
# thorough: the same tables once more under the other language mode (-std=c++23 resp. c++20 for the C++23-only unit is impossible)
for _n in _m.families():
    if _m.std_of(_n) == "c++20":
        _units.append(Unit(_n + "_cxx23", None, std="c++23", gen=_m.make_gen(_n, std="c++23", rename=_n + "_cxx23"), flavours=_T,
                           shards={"quick": 1, "thorough": 1}))
# target axis: plain char unsigned (-funsigned-char, the ABI default on ARM/AArch64/PowerPC embedded targets): the families whose cells depend on
# the signedness of char are evaluated once more with both sides compiled that way
for _n in ("C15_limits", "C15_ub_props", "C15_ut_a", "C15_ut_b", "C15_misc"):
    _units.append(Unit(_n + "_uchar", None, std=_m.std_of(_n), defs=["-funsigned-char"], gen=_m.make_gen(_n, rename=_n + "_uchar"), flavours=_Q,
                       shards={"quick": 1, "thorough": 1}))
# thorough: second front end (clang++-16 evaluates the same cells; its results are embedded as static data)
for _n in _m.families():
    _units.append(Unit(_n + "_clang", None, std=_m.std_of(_n), gen=_m.make_clang_gen(_n), flavours=_T, shards={"quick": 1, "thorough": 1}))

P = dict(
    registered=True,
    level="exploration",
    level_text=("Runtime monitoring of GENERATED TABLE PROGRAMS: gen/c15_matrix.py emits one translation unit per trait family with one cell per "
                "source line; each cell evaluates, inside templates and guarded std-side-first with `if constexpr (requires {...})`, the etl value "
                "and the std value of one (trait, type) / (trait, type pair) / (numeric_limits member, type) / (ratio operation, operands) "
                "combination (type-valued traits: is_same of the two results; concepts: satisfaction), stores both in constexpr arrays, and the "
                "program walks the arrays at run time emitting one record per unequal cell, keyed by trait and TYPE CATEGORY. Cells that are hard "
                "errors inside tetl are isolated by a compile -> map diagnostics to cell lines -> exclude -> recompile fixpoint and reported as "
                "compile-failure records with the same kind of key. Held means: every generated cell compiled and agreed with libstdc++ 12 as "
                "evaluated by gcc 12 (limits/property/transformation families also with plain char unsigned, -funsigned-char; thorough: also by clang++-16 and under -std=c++23), modulo the listed findings; it is not a proof for types "
                "outside the zoo."),
    level_note=("trusts libstdc++ 12 <type_traits>/<concepts>/<limits>/<ratio>/<cstdint> as evaluated by gcc 12.2 (thorough: clang 16) as the oracle; "
                "scope is the finite zoo (319 types, 2304 ordered pairs of a 48-type mini zoo + 1199 adversarial pairs, ordered triples/quadruples of the n-ary zoo, invocation cross product, asymmetric witnesses, 33+16 ratios) - every cell of it is evaluated, nothing is sampled"),
    technique="differential monitoring of compile-time values through generated constexpr table programs with cell-isolating compile (gcc 12; clang 16 and -std=c++23 in thorough)",
    design_ref="DESIGN.md section 4 C15, section 1.1 'Cell-isolating compile'",
    rule=("One evaluation = one table cell on which the standard defines a result: (trait or concept or numeric_limits member or ratio operation) x "
          "(type | ordered type pair | callable+arguments | ratio pair), the etl result compared with the std result of the same name (bool/integer "
          "values; is_same of type results; float limits bit-for-bit; both-absent for SFINAE-friendly traits). Cells the standard leaves undefined or "
          "ill-formed (incomplete types for traits with a completeness precondition, make_signed of non-integers, alignment_of of non-objects, ratio "
          "results not representable, cells libstdc++ itself rejects) are not generated / not counted. Cells excluded by the isolation loop are "
          "reported as compile-failure records and are not counted as evaluations. Distinct = distinct (trait, subject) pairs; all are non-trivial "
          "(there is no state; every cell is a different instantiation). The tables are static: the seed does not influence them (n_random = 0)."),
    exhaustive_note="true: every unit enumerates its complete generated table (finite zoo x trait list); there is no random part",
    units=_units,
    floor={"quick": 60000, "thorough": 150000},
    assumptions=["libstdc++ 12 <type_traits>, <concepts>, <limits>, <ratio>, <cstdint>, <cstddef> as evaluated by g++ 12.2 -std=c++20 are a correct reference",
                 "a cell whose instantiation is a hard error is attributed through gcc's 'required from here' notes; diagnostics that name no cell line void the whole table (reported as one compile-failure record)",
                 "type categories (not spelled types) are a fine enough key: all zoo members of one category behave alike for one trait on the unchanged tree"],
)
