from driver import Unit

# flavours: -O0, -O2 and -O1+ASan/UBSan (builtin-vs-fallback selection can differ per optimisation level)
_FL3 = {"quick": ["O0-cc", "plain-cc", "asan-cc"], "thorough": ["O0-cc", "plain-cc", "asan-cc"]}
# families with a single source path on gcc: quick tier skips the sanitizer build (run-time memory/UB behaviour of these
# families is the subject of C02/C06/C14/C18), thorough runs all three
_FL2 = {"quick": ["O0-cc", "plain-cc"], "thorough": ["O0-cc", "plain-cc", "asan-cc"]}
_SH = {"quick": 2, "thorough": 2}

_TYPES = [("f", "float"), ("d", "double"), ("ld", "long double")]


def _units():
    us = []
    # rounding / classification part of <cmath>: 7 function groups x 3 floating types
    for tag, t in _TYPES:
        for g in range(7):
            defs = [f"-DC13_T={t}", f"-DC13_GRP={g}"]
            if t == "long double":
                defs.append("-DC13_NO_NEXTAFTER=1")
            us.append(Unit(f"C13_fp_{tag}_g{g}", "harness/C13_fp.cpp", defs=defs, flavours=_FL3, shards=_SH))
    # thorough tier only: the one-argument cmath groups over a denser boundary table (every exponent k in -12..127 with its
    # 1ulp / 0.5 / 1.0 neighbours, n + {0, .25, .5-ulp, .5, .5+ulp, .75} for n = 1..100 and 20 larger n; ~3500-5000 points per function)
    for tag, t in _TYPES:
        for g in range(4):
            us.append(Unit(f"C13_fpbig_{tag}_g{g}", "harness/C13_fp.cpp", defs=[f"-DC13_T={t}", f"-DC13_GRP={g}", "-DC13_BIG=1"],
                           flavours={"quick": [], "thorough": ["O0-cc", "plain-cc"]}, shards=_SH))
    # bit / saturating / integer numeric utilities: 8-bit exhaustive (quick + thorough), 16/32/64-bit boundary tables
    for w in (8, 64, 16, 32):
        for g in range(5):
            fl = _FL2 if w in (8, 64) else {"quick": [], "thorough": ["O0-cc", "plain-cc", "asan-cc"]}
            us.append(Unit(f"C13_int_w{w}_g{g}", "harness/C13_int.cpp", defs=[f"-DC13_W={w}", f"-DC13_GRP={g}"], flavours=fl, shards=_SH))
    us.append(Unit("C13_cctype", "harness/C13_int.cpp", defs=["-DC13_W=8", "-DC13_GRP=5"], flavours=_FL2, shards=_SH))
    # cstring, charconv / strings::to_integer, chrono
    for g in range(6):
        us.append(Unit(f"C13_misc_g{g}", "harness/C13_misc.cpp", defs=[f"-DC13_GRP={g}"], flavours=_FL2, shards=_SH))
    # scripted kernels: algorithms, containers, strings, views
    for g in range(5):
        us.append(Unit(f"C13_kern_g{g}", "harness/C13_kern.cpp", defs=[f"-DC13_GRP={g}", "-fconstexpr-ops-limit=1000000000"],
                       flavours=_FL2, shards=_SH))
    # element-typed algorithm / container kernels through raw pointers (run-time-only, type-keyed fast paths:
    # memcmp/memchr/memmove/memset behind is_constant_evaluated()): float, double, long double with +-0, NaN, denormals,
    # +-inf; signed char and short with negative values; bool, char8_t, enum class : signed char
    for e, tag in enumerate(("f", "d", "ld", "s8", "i16", "b", "c8", "e8")):
        fl = _FL2 if tag in ("f", "d", "s8", "i16") else {"quick": ["plain-cc"], "thorough": ["O0-cc", "plain-cc", "asan-cc"]}
        us.append(Unit(f"C13_elem_{tag}", "harness/C13_elem.cpp", defs=[f"-DC13_ELEM={e}", "-fconstexpr-ops-limit=1000000000"],
                       flavours=fl, shards=_SH))
    # heterogeneous element / value types and heterogeneous element ranges (memchr / memcmp / memcpy style fast paths keyed
    # on "byte-sized element, any integral value"): byte-sized element ranges x wider value types with a matching low byte
    for e, tag in enumerate(("u8", "s8", "c8", "b")):
        fl = _FL2 if tag in ("u8", "s8") else {"quick": ["plain-cc"], "thorough": ["O0-cc", "plain-cc", "asan-cc"]}
        us.append(Unit(f"C13_het_{tag}", "harness/C13_het.cpp", defs=[f"-DC13_HEL={e}", "-fconstexpr-ops-limit=1000000000"], flavours=fl, shards=_SH))
    # struct {key, tag} elements compared by key only (equal objects with different bytes; byte order != value order)
    us.append(Unit("C13_elem_kt", "harness/C13_elem.cpp", defs=["-DC13_ELEM=8", "-fconstexpr-ops-limit=1000000000"],
                   flavours={"quick": ["plain-cc"], "thorough": ["O0-cc", "plain-cc", "asan-cc"]}, shards=_SH))
    # chrono with large tick counts: duration_cast/time_point_cast and floor/ceil/round over a (From, To) matrix of narrow reps,
    # calendar arithmetic with large month / day / year counts
    for g in range(3):
        us.append(Unit(f"C13_chrono_g{g}", "harness/C13_chrono.cpp", defs=[f"-DC13_GRP={g}", "-fconstexpr-ops-limit=1000000000"], flavours=_FL2, shards=_SH))
    # integer utilities with the minimum / maximum of every signed type in each argument position, same-type and mixed-width
    # pairs (gcd+lcm and cmp_*/in_range/saturate_cast over 35 (M, N) type pairs; midpoint/add_sat/div_sat/abs/div/idiv per type)
    for g in range(3):
        us.append(Unit(f"C13_imix_g{g}", "harness/C13_imix.cpp", defs=[f"-DC13_GRP={g}", "-fconstexpr-ops-limit=1000000000"], flavours=_FL2, shards=_SH))
    # to_chars / from_chars / to_integer for short, long, long long text (limits of the remaining signed types)
    us.append(Unit("C13_misc_g6", "harness/C13_misc.cpp", defs=["-DC13_GRP=6"], flavours=_FL2, shards=_SH))
    # buffers: the complete char_traits interface for five character types (move with overlap in both directions, counted
    # members on unterminated exact-size arrays), copies within one buffer for char / int / a non-trivially-copyable struct,
    # writers into destinations of exactly the required size (from_integer, to_chars, to_string, strcpy family, algorithms)
    for g in range(3):
        us.append(Unit(f"C13_buf_g{g}", "harness/C13_buf.cpp", defs=[f"-DC13_GRP={g}", "-fconstexpr-ops-limit=1000000000"], flavours=_FL3 if g == 2 else _FL2, shards=_SH))
    return us


P = dict(
    registered=True,
    level="exploration",
    level_text=("Twin-table runtime monitoring: for every function family with an exactly specified result the compiler's constant evaluator "
                "computes a constexpr result table over a fixed argument table (boundary tables for floating point: +-0, denormals, the "
                "neighbourhood of epsilon, 0.5 and every half-way point class, 2^k and 2^k +- 1ulp around 2^23/2^31/2^52/2^63/2^64, +-inf, "
                "+-NaN, limits; all 256 8-bit values and all 65536 8-bit pairs plus 16/32/64-bit boundary tables for the bit, saturating and "
                "integer utilities; all unsigned-char values and EOF for <cctype>; all strings up to length 3 over {a, b, 0xE9} for the C-string "
                "functions; value x base x buffer-size tables for to_chars, a 100-string x 5-base table for from_chars/to_integer; calendar "
                "and tick boundary tables for chrono; scripted kernels over 40+ algorithms, static_vector, inplace_vector, array, span, "
                "inplace_string, string_view, bitset, optional, pair/tuple, static_set; 21 element-typed kernels that run every comparing / copying / "
                "searching / ordering algorithm and array / static_vector comparison through raw pointers to float, double, long double "
                "(+-0, NaN, denormals, +-inf), signed char, short (negative values), bool, char8_t, an enum and a struct compared by key only; "
                "heterogeneous kernels: byte-sized element ranges x values of wider types whose low byte matches an element, and ranges of "
                "different element types holding the same bytes; a (From, To) matrix of 44 duration pairs with narrow reps x 423 tick counts "
                "(every 2^k +- 1) for duration_cast / time_point_cast / floor / ceil / round and calendar arithmetic with large counts; gcd/lcm, cmp_*, in_range, saturate_cast over 35 mixed-width (M, N) type pairs and "
                "midpoint/add_sat/div_sat/abs/div/idiv per type on the minimum and maximum of every signed type in each argument position; the complete char_traits interface for char, wchar_t, char8_t, char16_t, char32_t with every "
                "(source, destination, count) overlap inside an 8-unit buffer; copies within one buffer for char / int / a non-trivial struct; "
                "writers (from_integer, to_chars, to_string, strcpy family, 18 algorithms, inplace_string<4>) into destination arrays of "
                "exactly the required size, one less and one more). The harness then calls the same function at run "
                "time on volatile-laundered copies of the same arguments at -O0, -O2 and (cmath always, the rest in the thorough tier) "
                "-O1+ASan/UBSan and compares bit for bit (NaN == NaN unless the function is defined on the sign bit). A SFINAE probe "
                "records arguments inside the documented domain for which constant evaluation fails. Held means: no difference and no "
                "failed constant evaluation on the tables listed in the evidence (beyond the listed open findings); it is not a proof "
                "for arguments outside the tables."),
    level_note=("trusts gcc 12's constant evaluator and code generator to implement the abstract machine; gcc 12 is the only constant evaluator "
                "used (clang is not run); default rounding mode; a call whose exact result raises overflow/underflow/invalid/divide-by-zero is "
                "not required to be a constant expression (C++23 [library.c]/3) and is not reported when constant evaluation rejects it"),
    technique="runtime monitoring of compile-time vs run-time twin tables (constexpr tables vs volatile-laundered run-time calls; -O0, -O2, ASan+UBSan)",
    design_ref="DESIGN.md section 4 C13, section 3.8",
    rule=("one evaluation = one (function, argument tuple) of a table, inside the function's documented domain, executed at run time in one "
          "flavour and compared with the compile-time cell (or reported as not constant-evaluable). distinct_nontrivial = distinct "
          "(function<type>, argument bit pattern tuple); every table entry is non-trivial. Out-of-domain entries (lrint of NaN/inf or of "
          "values whose rounded result does not fit, bit_ceil above 2^(N-1), div_sat by 0, gcd/lcm of INT_MIN or with an unrepresentable "
          "result, duration conversions whose specified intermediate overflows, kernel parameters outside the range) are skipped and "
          "not counted."),
    exhaustive_note=("true when all shards finished: every unit enumerates its complete finite argument table; the tables are exhaustive for "
                     "8-bit operands (all values, all pairs for add_sat/div_sat), all unsigned char values for <cctype> and all strings of "
                     "length <= 3 over a 3-letter alphabet; for wider integers, floating point, chrono and the kernels the table is the "
                     "stated boundary scope, NOT all values of the type"),
    units=_units(),
    floor={"quick": 900000, "thorough": 1800000},
    assumptions=["gcc 12 constant evaluation and code generation are faithful to the C++ abstract machine",
                 "default floating-point environment (round-to-nearest-even); -ffp-contract=off, no -ffast-math",
                 "glibc libm is only used to label argument classes (fma product exact/inexact) and to decide whether the exact result "
                 "raises a floating-point exception; it is never the oracle for a compared value"],
)
