from driver import Unit

_FL = {"quick": ["O0-cc", "plain-cc", "asan-cc"], "thorough": ["O0-cc", "plain-cc", "asan-cc"]}
_SH = {"quick": 2, "thorough": 2}

_TYPES = [("f", "float"), ("d", "double"), ("ld", "long double")]


def _fp_units():
    us = []
    for tag, t in _TYPES:
        for g in range(7):
            defs = [f"-DC13_T={t}", f"-DC13_GRP={g}"]
            if t == "long double":
                defs.append("-DC13_NO_NEXTAFTER=1")
            us.append(Unit(f"C13_fp_{tag}_g{g}", "harness/C13_fp.cpp", defs=defs, flavours=_FL, shards=_SH))
    return us


P = dict(
    registered=True,
    level="exploration",
    level_text=("Twin-table runtime monitoring: for every function family with an exactly specified result the compiler's constant evaluator "
                "computes a constexpr result table over a fixed argument table (boundary table for floating point, all 8-bit inputs / boundary "
                "tables for integers, strings and chrono, scripted kernels for containers and algorithms); the harness then calls the same "
                "function at run time on volatile-laundered copies of the same arguments at -O0, -O2 and -O1+ASan/UBSan and compares bit for "
                "bit. A SFINAE probe records arguments inside the documented domain for which constant evaluation fails. Held means: no "
                "difference and no failed constant evaluation on the tables listed in the evidence (beyond the listed open findings); it is "
                "not a proof for arguments outside the tables."),
    level_note="trusts gcc 12's constant evaluator and code generator to implement the abstract machine; only gcc 12 is used as constant evaluator; default rounding mode",
    technique="runtime monitoring of compile-time vs run-time twin tables (constexpr tables vs volatile-laundered run-time calls, -O0/-O2/ASan)",
    design_ref="DESIGN.md section 4 C13, section 3.8",
    rule=("one evaluation = one (function, argument tuple) of a table, inside the function's documented domain, evaluated at run time in one "
          "flavour and compared with the compile-time cell (or reported as not constant-evaluable). distinct_nontrivial = distinct "
          "(function<type>, argument bit pattern tuple); every table entry is non-trivial. Out-of-domain entries (e.g. lrint of NaN/inf or "
          "of values whose rounded result does not fit) are skipped and not counted."),
    exhaustive_note="true when all shards finished: every unit enumerates its complete finite argument table (the tables are the stated scope, not all values of the type)",
    units=_fp_units(),
    floor={"quick": 50000, "thorough": 50000},
    assumptions=["gcc 12 constant evaluation and code generation are faithful to the C++ abstract machine",
                 "default floating-point environment (round-to-nearest-even); -ffp-contract=off, no -ffast-math",
                 "glibc libm is only used to label the argument class of fma triples (product exact / inexact), never as oracle"],
)
