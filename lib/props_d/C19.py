from driver import Unit

# index types of the quantifier (int8 .. uint64)
IDX = [
    ("int8", "signed char"), ("uint8", "unsigned char"), ("int16", "short"), ("uint16", "unsigned short"),
    ("int32", "int"), ("uint32", "unsigned"), ("int64", "long"), ("uint64", "unsigned long"),
]
NG = 83          # extents patterns, ranks 0..4 (harness/common/vf_c19.hpp)
R4 = 37          # first rank-4 pattern

O0 = "asanO0-cc"  # template-heavy units are built at -O0 (same sanitizers; 3x faster to compile); an -O1 slice runs in thorough


# compile-cost knobs (vf_c19.hpp): pattern->pattern conversion targets per source pattern, static_vector-backed mdarray
RICH = []                                                                              # defaults: all / 4 / 3 / on
LEAN = ["-DVF_CONV_EXT=6", "-DVF_CONV_MAP=2", "-DVF_CONV_MD=1", "-DVF_SVEC=0"]


def knobs(name, slice_unit):
    if name == "int32":
        return RICH
    if name == "uint64":
        return ["-DVF_CONV_EXT=6", "-DVF_CONV_MAP=2", "-DVF_CONV_MD=1"] if slice_unit else RICH
    return LEAN if slice_unit else ["-DVF_CONV_MAP=2", "-DVF_CONV_MD=1", "-DVF_SVEC=0"]


MD_GROUPS = ["-DVF_GMASK=0xFF"]    # C19_md.cpp groups 0-7 (views / arrays); group 8 (two objects) is built as separate C19_two_* units
TWO_GROUP = ["-DVF_GMASK=0x100"]


def defs(name, ctype, lo, hi, step=1, extra=()):
    return [f"-DVF_IDX={ctype}", f'-DVF_IDX_NAME="{name}"', f"-DVF_PLO={lo}", f"-DVF_PHI={hi}", f"-DVF_PSTEP={step}"] + list(extra)


def slices(kind):
    """full pattern list split for parallel compilation"""
    if kind == "md":
        return [(0, 26), (26, R4), (R4, 53), (53, 68), (68, NG)]
    return [(0, R4), (R4, NG)]


units = []
for kind in ("ext", "map", "md"):
    src = f"harness/C19_{kind}.cpp"
    for name, ctype in IDX:
        primary = name == "int32"
        # full pattern list: quick for int32, thorough for every index type (md, the most expensive to compile: full list for
        # int32 and uint64, every 2nd pattern for the other six index types)
        full = primary or name == "uint64" or kind != "md"
        for n, (lo, hi) in enumerate(slices(kind) if full else [(0, 53), (53, NG)]):
            units.append(Unit(f"C19_{kind}_{name}_p{n}", src, defs=defs(name, ctype, lo, hi, 1 if full else 2, knobs(name, False) + (MD_GROUPS if kind == "md" else [])),
                              flavours={"quick": [O0] if primary else [], "thorough": [O0]},
                              shards={"quick": 2, "thorough": 2}))
        if not primary:
            # quick: a slice of the pattern list (every 2nd pattern for uint64, every 6th/8th for the others)
            step = (2 if kind != "md" else 3) if name == "uint64" else (6 if kind != "md" else 8)
            units.append(Unit(f"C19_{kind}_{name}_s", src, defs=defs(name, ctype, 0, NG, step, knobs(name, True) + (MD_GROUPS if kind == "md" else [])),
                              flavours={"quick": [O0], "thorough": []}, shards={"quick": 1, "thorough": 1}))
    # thorough extras on a slice (every 4th pattern, int32): optimised build, contract checks off, no sanitizer (canary bands)
    units.append(Unit(f"C19_{kind}_int32_x", src, defs=defs("int32", "int", 0, NG, 4, MD_GROUPS if kind == "md" else []),
                      flavours={"quick": [], "thorough": ["asan-cc", "asanO0-nocc", "plain-cc"]}, shards={"quick": 1, "thorough": 2}))
# C++23: multidimensional operator[] of mdspan / mdarray
units.append(Unit("C19_md_int32_cxx23", "harness/C19_md.cpp", std="c++23", defs=defs("int32", "int", 0, NG, 4, MD_GROUPS),
                  flavours={"quick": [], "thorough": [O0]}, shards={"quick": 1, "thorough": 2}))
units.append(Unit("C19_md_uint64_cxx23", "harness/C19_md.cpp", std="c++23", defs=defs("uint64", "unsigned long", 0, NG, 9, MD_GROUPS),
                  flavours={"quick": [O0], "thorough": []}, shards={"quick": 1, "thorough": 1}))

# two objects in different run-time states (swap / assignment / copy / move of mdarray and mdspan, both objects re-checked in full):
# group 8 of C19_md.cpp. quick: every 2nd pattern for int32, a slice for the other index types; thorough: full list for int32 and
# uint64, every 4th pattern for the others, plus -O1 / no-contract-check / unsanitized builds of an int32 slice.
for name, ctype in IDX:
    if name == "int32":
        for n, (lo, hi) in enumerate([(0, R4), (R4, NG)]):
            units.append(Unit(f"C19_two_int32_q{n}", "harness/C19_md.cpp", defs=defs(name, ctype, lo, hi, 2, TWO_GROUP),
                              flavours={"quick": [O0], "thorough": []}, shards={"quick": 1, "thorough": 1}))
    elif name in ("uint64", "int8"):  # quick: int32, uint64 and the narrowest type; the other five only in thorough
        units.append(Unit(f"C19_two_{name}_s", "harness/C19_md.cpp", defs=defs(name, ctype, 0, NG, 5 if name == "uint64" else 9, TWO_GROUP),
                          flavours={"quick": [O0], "thorough": []}, shards={"quick": 1, "thorough": 1}))
    full = name in ("int32", "uint64")
    for n, (lo, hi) in enumerate([(0, R4), (R4, 60), (60, NG)] if full else [(0, NG)]):
        units.append(Unit(f"C19_two_{name}_p{n}", "harness/C19_md.cpp", defs=defs(name, ctype, lo, hi, 1 if full else 4, TWO_GROUP),
                          flavours={"quick": [], "thorough": [O0]}, shards={"quick": 1, "thorough": 2}))
units.append(Unit("C19_two_int32_x", "harness/C19_md.cpp", defs=defs("int32", "int", 0, NG, 4, TWO_GROUP),
                  flavours={"quick": [], "thorough": ["asan-cc", "asanO0-nocc", "plain-cc"]}, shards={"quick": 1, "thorough": 1}))

# 64-bit index types, offsets beyond 2^31 / 2^32 (mapping-only, __int128 model)
for name, ctype in [("int64", "long"), ("uint64", "unsigned long"), ("int64ll", "long long"), ("uint64ll", "unsigned long long")]:
    second = name.endswith("ll")  # long long / unsigned long long: same width, distinct types - thorough only
    units.append(Unit(f"C19_big_{name}", "harness/C19_big.cpp", defs=[f"-DVF_IDX={ctype}", f'-DVF_IDX_NAME="{name}"'],
                      flavours={"quick": [] if second else [O0], "thorough": [O0, "asan-cc", "asan-nocc", "plain-cc"]}, shards={"quick": 4, "thorough": 4}))

# static extents at the boundary of the index type (index max = what dynamic_extent narrows to for unsigned types, max-1, max/2+1)
# next to dynamic extents in every position; memory-backed for the 8/16-bit index types, mapping-only for uint32
for name, ctype, quick in [("uint8", "unsigned char", True), ("uint16", "unsigned short", True), ("uint32", "unsigned", True),
                           ("int8", "signed char", True), ("int16", "short", False), ("int32", "int", False)]:
    units.append(Unit(f"C19_edge_{name}", "harness/C19_edge.cpp", defs=[f"-DVF_IDX={ctype}", f'-DVF_IDX_NAME="{name}"'],
                      flavours={"quick": [O0] if quick else [], "thorough": [O0, "asan-cc", "asanO0-nocc"] if quick else [O0]},
                      shards={"quick": 2, "thorough": 2}))

# submdspan_extents: every slice-specifier kind (index, integral_constant index, full_extent, pair/tuple with run-time and/or
# integral-constant bounds) in every position of rank 1-3 sources with static / dynamic / mixed extents.
# SUB_STRICT: also require the static extent the standard derives for a pair of constants on a DYNAMIC source extent (tetl keeps it
# dynamic: proposed/C19/findings5.jsonl, fix proposed/C19/fixes5/0001) - switch on together with that fix or the finding line.
SUB_STRICT = True
for name, ctype, quick in [("int32", "int", True), ("uint64", "unsigned long", False), ("int8", "signed char", False)]:
    for part in (1, 2):
        units.append(Unit(f"C19_sub_{name}_part{part}", "harness/C19_sub.cpp",
                          defs=[f"-DVF_IDX={ctype}", f'-DVF_IDX_NAME="{name}"', f"-DVF_SUBPART={part}", f"-DVF_SUB_STRICT={1 if SUB_STRICT else 0}"],
                          flavours={"quick": [O0] if quick else [], "thorough": [O0, "asan-cc"] if quick else [O0]}, shards={"quick": 2, "thorough": 2}))

for e, tn in enumerate(["uchar", "int", "tri12", "constint"]):
    units.append(Unit(f"C19_span_{tn}", "harness/C19_span.cpp", defs=[f"-DVF_ELEM={e}"],
                      flavours={"quick": ["asan-cc"], "thorough": ["asan-cc", "asan-nocc", "plain-cc"]}, shards={"quick": 1, "thorough": 2}))

PROBES = {1: "stride_rank0", 2: "span_bytes", 3: "ctad_mdarray", 4: "stride_rss", 5: "stride_exh", 6: "stride_eq",
          7: "stride_from", 8: "canon_from_stride", 9: "subext", 10: "subext_pair", 11: "subext_cpair"}
# probe 12 (mdspan assignment / swap) does not compile on a tree without proposed/C19/fixes3/0001 (etl::mdspan is not assignable):
# switch it on together with that fix or with the findings3.jsonl line; until then the C19_two_* units detect the operators with a
# trait and report them as absent in the evidence samples.
ENABLE_MDSPAN_ASSIGN_PROBE = True
if ENABLE_MDSPAN_ASSIGN_PROBE:
    PROBES[12] = "mdspan_assign"
for n, pn in PROBES.items():
    units.append(Unit(f"C19_probe_{pn}", "harness/C19_probe.cpp", defs=[f"-DVF_PROBE={n}", "-DVF_IDX=int", '-DVF_IDX_NAME="int32"'],
                      flavours={"quick": ["asan-cc"], "thorough": ["asan-cc", "asan-nocc"]}, shards={"quick": 1, "thorough": 1}))

P = dict(
    registered=True,
    level="exploration",
    level_text=("Runtime monitoring against a closed-form model written in the harness (offset = sum i_k*stride_k for row-major, column-major, "
                "explicit-stride and transposed mappings; pointer arithmetic for span): for 83 extents types (every static/dynamic mask of rank 0-4, three "
                "static-value assignments incl. zero) x 8 index types, EVERY shape in {0..4}^rank and EVERY multi-index of each shape is pushed through every "
                "constructor / conversion / observer / access form of extents, layout_left, layout_right, layout_stride, linalg::layout_transpose, mdspan and mdarray "
                "on exact-size guarded storage whose cells hold their own linear index (read-through, write-through, address comparison), and every (offset,count) "
                "pair of span lengths 0..6 through the run-time and template forms of first/last/subspan; plus seeded random larger shapes/strides/lengths. "
                "Under ASan+UBSan with contract checks on. Held means: no divergence from the model, no sanitizer report, no handler call on the executions listed "
                "in the evidence; it is not a proof for larger extents or ranks."),
    level_note=("oracle is the closed-form formula re-implemented in harness/common/vf_c19.hpp; scope bounded by extents 0..4 (random part: up to 9), rank <= 4, the "
                "83-pattern type list; quick tier runs the full pattern list for int32 and a slice for the other index types (thorough: all); members declared but "
                "not defined upstream are probed in separate units and reported as unobservable, not as passed"),
    technique="runtime monitoring vs closed-form layout model under ASan+UBSan (exhaustive small scope over a generated extents type list + seeded random)",
    design_ref="DESIGN.md section 4 C19",
    rule=("enumerated: (extents pattern, shape in {0..4}^rank matching the static positions) x operation group; each case visits all multi-indices of the shape. "
          "One evaluation = one library call (or one observer) compared with the model: mapping(i...) vs formula/range/injectivity, stride/extent/size/required_span_size, "
          "element address vs data()+offset, value read through the view vs the cell's own index, write-through vs cell, span data()/size()/extent vs pointer arithmetic. "
          "Distinct = hash of (index type, pattern, shape, layout/stride set, operation[, multi-index]); non-trivial = rank > 0 (mappings) / non-empty range (span)."),
    units=units,
    floor={"quick": 3000000, "thorough": 30000000},
    assumptions=["the closed-form model in vf_c19.hpp (sum of index*stride; strides = prefix/suffix products; span = 1 + sum (extent-1)*stride, 0 if any extent is 0) is the intended meaning of the mappings",
                 "gcc 12 ASan/UBSan report every access outside an exact-size heap block and the canary bands catch it in the unsanitized flavour"],
)
