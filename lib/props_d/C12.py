from driver import Unit


def dur_units():
    us = []
    # -O0 + ASan/UBSan compiles ~2.5x faster than -O1 for these instantiation-heavy units (same checks, no folding);
    # thorough adds the optimised builds: plain -O2 everywhere, ASan -O1 for the i64/i64 table and the nano x 5/7 cells
    quick = ["asanO0-cc"]
    thorough = ["asanO0-cc", "plain-cc"]
    thorough_r0 = ["asanO0-cc", "asan-cc", "plain-cc"]
    groups3 = [(0, 2), (3, 5), (6, 7), (8, 9)]          # one cell per pair
    groups2 = [(0, 1), (2, 3), (4, 5), (6, 7), (8, 9)]  # two / three cells per pair
    for rs in (0, 1, 2, 3):
        for lo, hi in (groups3 if rs in (0, 1) else groups2):
            # mixed i32/i64 representations (rs 2, two cells per pair, ~40 % of the compile cost): quick tier builds one From group only
            q = quick if (rs != 2 or (lo, hi) == (4, 5)) else []
            us.append(Unit(f"C12_dur_f{lo}_{hi}_r{rs}", "harness/C12_dur.cpp",
                           defs=[f"-DC12_FROM_LO={lo}", f"-DC12_FROM_HI={hi}", f"-DC12_REPSET={rs}"],
                           flavours={"quick": q, "thorough": thorough_r0 if rs == 0 else thorough}, shards={"quick": 2, "thorough": 8}))
    # unsigned tick types (rs 4: u32/u32, u64->i64, u16/u16) and mixed signed/unsigned source/target (rs 5: i64->u64, i32->u32, u32->i64, u16->i32):
    # one From row per unit; quick builds milli and minute rows for rs 4 and the seconds row for rs 5, thorough five rows each
    for rs, qrows in ((4, (2, 4)), (5, (3,))):
        for row in (2, 3, 4, 7, 8):
            us.append(Unit(f"C12_dur_f{row}_{row}_r{rs}", "harness/C12_dur.cpp",
                           defs=[f"-DC12_FROM_LO={row}", f"-DC12_FROM_HI={row}", f"-DC12_REPSET={rs}"],
                           flavours={"quick": quick if row in qrows else [], "thorough": thorough}, shards={"quick": 2, "thorough": 8}))
    # second period family {4, 6, 9, 10, 15, 1/6, 1/10, 6/5, 4/7, 10/21}: numerators / denominators share factors pairwise without dividing
    # each other, so common_type's period needs a real gcd / lcm (all 100 pairs; i64/i64 in both tiers, i32/i32 and unsigned in thorough)
    for rs in (0, 1, 4):
        for lo, hi in ((0, 4), (5, 9)):
            us.append(Unit(f"C12_dur_f{lo}_{hi}_r{rs}_p1", "harness/C12_dur.cpp",
                           defs=[f"-DC12_FROM_LO={lo}", f"-DC12_FROM_HI={hi}", f"-DC12_REPSET={rs}", "-DC12_PERSET=1"],
                           flavours={"quick": quick if rs == 0 else [], "thorough": thorough}, shards={"quick": 2, "thorough": 8}))
    # duration (op) scalar with scalar types different from the representation (member *= /= %= convert to rep first; free operators if declared)
    us.append(Unit("C12_scalar", "harness/C12_scalar.cpp", flavours={"quick": quick, "thorough": ["asanO0-cc", "asan-cc", "plain-cc"]},
                   shards={"quick": 4, "thorough": 8}))
    # nano x ratio<5,7>: needs etl::lcm without the m*n overflow; its own unit so that it cannot take the others down
    us.append(Unit("C12_dur_x", "harness/C12_dur.cpp", defs=["-DC12_X=1"],
                   flavours={"quick": quick, "thorough": thorough_r0}, shards={"quick": 2, "thorough": 8}))
    # probe: the non-member operators (tp + d, d + tp, tp - d, tp - tp, d * k, k * d, d / k, d % k) used unconditionally;
    # a tree without them gives compile-failure|C12_ops_tp / C12_ops_scalar (the value/type matrices in C12_dur / C12_tp / C12_scalar are presence-guarded)
    us.append(Unit("C12_ops_tp", "harness/C12_ops.cpp", flavours={"quick": ["asan-cc"], "thorough": ["asan-cc", "plain-cc"]},
                   shards={"quick": 1, "thorough": 2}))
    us.append(Unit("C12_ops_scalar", "harness/C12_ops.cpp", defs=["-DC12_OPS_SCALAR=1"], flavours={"quick": ["asan-cc"], "thorough": ["asan-cc", "plain-cc"]},
                   shards={"quick": 1, "thorough": 2}))
    us.append(Unit("C12_misc", "harness/C12_misc.cpp", flavours={"quick": ["asan-cc"], "thorough": ["asan-cc", "plain-cc"]},
                   shards={"quick": 2, "thorough": 4}))
    us.append(Unit("C12_tp", "harness/C12_tp.cpp", flavours={"quick": ["asan-cc"], "thorough": ["asan-cc", "plain-cc"]},
                   shards={"quick": 2, "thorough": 4}))
    return us


P = dict(
    registered=True,
    level="exploration",
    level_text=("Differential runtime monitoring of etl::chrono::duration / time_point. All 100 ordered pairs of the periods {nano, micro, milli, 1, 60, 3600, 86400, 1/3, 5/7, 1001/30000} "
                "(and all 100 ordered pairs of a second family {4, 6, 9, 10, 15, 1/6, 1/10, 6/5, 4/7, 10/21} whose numerators / denominators share factors without dividing each other) "
                "x representation combinations {i64/i64, i32/i32, i32->i64, i64->i32, f64/f64, i64->f64, f64->i64} (and, for the From rows milli, 1, 60, 1/3, 5/7, the unsigned / mixed-sign "
                "combinations {u32/u32, u64->i64, u16/u16, i64->u64, i32->u32, u32->i64, u16->i32}; u64 exercised on [0, 2^63-1]) x counts [-200,200]+strided (quick) / [-2000,2000] (thorough) "
                "plus exact multiples, exact ties and their neighbours, values around +-2^15, +-2^31, +-2^53, +-2^62 and the limits of the representation, plus seeded random counts of every magnitude: "
                "duration_cast, floor, ceil, round (ties to even), abs, unary +/-, ++/--, *= /= %=, implicit conversion, conversion to the common type, + - / %, all six comparisons, compound += -= %=, "
                "time_point floor/ceil/round/+=/-=/++/--/comparisons/time_point_cast/converting constructor, named typedefs nanoseconds..years and literals; "
                "declared result type, reference identity and a chained use of every compound / increment operator; member *= /= %= (and the free d*s, s*d, d/s, d%s where tetl declares them) "
                "with 12 scalar types x 7 representations (scalar converted to rep first; value-preserving or truncating conversions only); "
                "the non-member time_point + duration, duration + time_point, time_point - duration, time_point - time_point and duration * k, k * duration, duration / k, duration % k "
                "(value, declared result type, commutativity) over the same period x representation matrices, incl. the fact that sys_days + days is a sys_days. "
                "Each result is compared with std::chrono and with exact __int128 rational arithmetic, only for inputs where the exact result and the standard's own intermediates are representable "
                "(f64: exact where the exact result is representable, else within 1 ulp of libstdc++). Result types are compared through compile-time booleans recorded at run time. "
                "Runs under ASan+UBSan (signed overflow inside tetl on an in-domain input is a violation). Held means: no divergence and no sanitizer report on the executions listed in the evidence."),
    level_note="trusts libstdc++ 12 std::chrono cross-checked against exact __int128 arithmetic on every integer evaluation (a disagreement is reported); scope bounded by the period set, the representation set and the count sets",
    technique="runtime differential monitoring vs std::chrono and exact __int128 rational arithmetic (type-list cross product of periods x representations, enumerated counts + seeded random) under ASan+UBSan",
    design_ref="DESIGN.md section 4 C12",
    rule=("one case = one cell (ordered period pair x representation pair); enumerated part = the count sets listed in level_text for every operation, random part = 128 seeded counts per case over all magnitudes. "
          "One evaluation = one tetl operation whose result was compared with std::chrono (and the exact value). Distinct = distinct hash of (cell, operation, operand counts). "
          "Calls are issued only where the exact result and every intermediate of the standard's formulation fit the representations involved. All inputs count as non-trivial."),
    exhaustive_note="true = every cell of the stated period x representation table ran its complete enumerated count set; it is not a claim about counts outside those sets",
    units=dur_units(),
    floor={"quick": 20000000, "thorough": 200000000},
    assumptions=["libstdc++ 12 std::chrono durations are a correct reference (cross-checked against exact __int128 rational arithmetic on every integer evaluation)",
                 "operations std::chrono provides but tetl does not declare (duration*rep, time_point+duration, operator<=>, ...) are listed in the evidence samples and skipped",
                 "f64 results are required to be exact only where the exact rational result is a double; otherwise 1 ulp from libstdc++"],
)
