from driver import Unit

# 16 widths, distributed so that every unit has exactly one exhaustively enumerated width (<= 9)
GROUPS = {
    "g0": (9, 15, 16, 129),
    "g1": (8, 17, 31, 128),
    "g2": (7, 32, 33, 127),
    "g3": (1, 63, 64, 65),
}
KINDS = {0: "bitset", 1: "basic_u8_u16", 2: "basic_u32_u64"}


def _units():
    out = []
    for g, ws in GROUPS.items():
        for kind, kname in KINDS.items():
            name = f"C17_{kname}_{g}"
            defs = [f"-DVF_KIND={kind}", f'-DVF_UNIT="{name}"'] + [f"-DVF_W{i}={w}" for i, w in enumerate(ws)]
            thorough = ["asan-cc", "asan-nocc"] + (["plain-cc"] if kind == 0 else [])
            out.append(Unit(name, "harness/C17_bitset.cpp", defs=defs,
                            flavours={"quick": ["asan-cc"], "thorough": thorough},
                            shards={"quick": 4, "thorough": 8}))
    # widths beyond uint8_t's range of counts (count() must not be computed in the word type)
    out.append(Unit("C17_basic_u8_wide", "harness/C17_bitset.cpp",
                    defs=["-DVF_KIND=3", '-DVF_UNIT="C17_basic_u8_wide"', "-DVF_W0=255", "-DVF_W1=256", "-DVF_W2=257", "-DVF_W3=300"],
                    flavours={"quick": ["asan-cc"], "thorough": ["asan-cc", "asan-nocc"]}, shards={"quick": 4, "thorough": 8}))
    # width beyond uint16_t's range of counts: thorough only (every observer walks 65537 positions)
    out.append(Unit("C17_basic_u16_giant", "harness/C17_bitset.cpp",
                    defs=["-DVF_KIND=4", '-DVF_UNIT="C17_basic_u16_giant"', "-DVF_W0=65537"],
                    flavours={"quick": [], "thorough": ["asan-cc"]}, shards={"quick": 1, "thorough": 8}))
    # constant-evaluation twin of the observers (constexpr table vs run-time etl vs run-time std::bitset)
    out.append(Unit("C17_constexpr", "harness/C17_constexpr.cpp", defs=["-fconstexpr-ops-limit=400000000"],
                    flavours={"quick": ["asan-cc"], "thorough": ["asan-cc", "asan-nocc", "plain-cc"]}, shards={"quick": 2, "thorough": 2}))
    return out


P = dict(
    registered=True,
    level="exploration",
    level_text=("Differential runtime monitoring: etl::bitset<N> and etl::basic_bitset<N,Word> (Word = uint8/16/32/64) are driven through "
                "operation histories next to std::bitset<N>; after EVERY mutating step every observer (test/unchecked_test/operator[] const "
                "and through the proxy/~proxy at every position, count, all, any, none, size, ==/!= against an object that reached the same "
                "value by single-bit sets only and against a neighbour value, to_ulong, to_ullong, to_string in three forms) is compared. "
                "Widths <= 9: every value x every single-bit operation x every position, every whole-set operation, every pair of values "
                "for &= |= ^= & | ^, integer and string constructors - exhaustively. Wider widths: the same sweep from 16 boundary patterns "
                "plus seeded random histories of 64 steps. Runs under ASan+UBSan with contract checks on. Held means: no divergence, no "
                "sanitizer report and no contract-handler call on the executions listed in the evidence; it is not a proof for other "
                "widths, word types or longer histories."),
    level_note="trusts libstdc++ 12 std::bitset as oracle; scope bounded by the 16 widths, 4 word types, the enumerated value sets and the random sample",
    technique="runtime differential monitoring vs std::bitset under ASan+UBSan (exhaustive small scope + boundary sweep + seeded random histories)",
    design_ref="DESIGN.md section 4 C17",
    rule=("One evaluation = one etl call whose result was compared with std::bitset (observer calls are counted under obs:* labels, "
          "mutating steps under the operation's name). After each mutating step all observers are compared. Enumerated part, per subject "
          "(etl::bitset<N>, etl::basic_bitset<N,u8|u16|u32|u64>; N in {1,7,8,9,15,16,17,31,32,33,63,64,65,127,128,129}): for each value a "
          "of the value set (all 2^N values when N <= 9, else 16 boundary patterns: none, all, 0101.., 1010.., only top bit, only bit 0, "
          "all but top, all but bit 0, all full bytes below the last byte, only the last byte, a fixed pseudo-random pattern and its "
          "complement, low 64, above 64, low 32, above 32): build a through 8 construction routes (several transiently fill every storage "
          "bit); every single-bit operation (set(pos), set(pos,val), reset(pos), flip(pos), unchecked_*, b[i]=bool, b[i]=b[j], b[i].flip()) "
          "at every position; chained expressions (set().reset(p), reset().set(p), flip().flip(p), set(p).flip(q), reset(p).set(q,v), "
          "flip(p).reset(q), (b[p]=v).flip(), b[p].flip()=v, b[p]=b[q]=v; every modifier result is bound as a forwarding reference and must "
          "be an E& / proxy& designating the object itself); set(), reset(), flip(), ~, copy and the same-object forms b&=b, b|=b, b^=b, "
          "b&b, b|b, b^b (each also twice in a row; b==b and b!=b are observers); long-lived proxies: b[i], b[j] (same position / same word / "
          "other word), a proxy copy-constructed from b[i] and a proxy of a DIFFERENT bitset are held across every owner modifier (nothing, "
          "set(), reset(), flip(), b=~b, set/reset/flip(pos) resp. unchecked_*, &=, |=, ^=, ^=self, assignment from and swap with another "
          "bitset, a second proxy's flip/=val/=b[j], shifts where provided), then read (bool, ~), written, flipped, assigned to each other "
          "in both directions, used as source for b[k], written through the copy, assigned across the two bitsets in both directions, read "
          "again, and all observers of both bitsets compared - against std::bitset<N>::reference objects held and driven identically "
          "(widths <= 9: every position; wider: 8 edge positions; the use rotates over the value set); &=, |=, ^=, &, |, ^ with every value b of the "
          "value set, chained (b&=x).flip(), (b|=x)^=x, (b^=x)&=x with every (widths 3..9: every 4th) value; constructor from unsigned long long incl. bits above N; string_view and char const* constructors (lengths N, N-1, "
          "N/2, 1, 0, and in a separate case N+1, N+3; pos 0/2 with junk before and after; n = rest / npos / > rest / < rest; default, "
          "custom, swapped and NUL-as-zero / NUL-as-one characters; every defaulted-argument call form; char and wchar_t; the char const* "
          "form with explicit n also on exact-size blocks WITHOUT terminator, so measuring the string instead of taking n characters reads out of the block). Random part: seeded histories "
          "of 64 (thorough: 1 in 8 of 256) steps over all of these operations, 150 (thorough 3000) per subject. Additional subjects: basic_bitset<N,u8> for N in {255,256,257,300} "
          "(more bits than a uint8_t can count; per-position sweeps at 12 edge positions, histories of 24 steps) and, thorough only, "
          "basic_bitset<65537,u16> (routes, whole-set/binary operations, single-bit operations at positions 0/65535/65536/N-1, all observers). "
          "string_view constructor also with user-supplied case-insensitive character traits (letters as zero/one, mixed case) against "
          "std::basic_string with the same traits. Constant-evaluation twin (unit C17_constexpr): 14 subjects x 266 values (every nibble value "
          "in every nibble position of a 64-bit word, all-ones, alternating, 0xDD.. patterns) - 24 observer results computed by one constexpr "
          "function in a constant expression and again at run time on volatile-laundered inputs, both compared with run-time std::bitset. "
          "Distinct = distinct hash of (subject, value before, operation, arguments); "
          "non-trivial = every mutating step and every construction of a non-zero value."),
    units=_units(),
    floor={"quick": 20000000, "thorough": 200000000},
    assumptions=["libstdc++ 12 std::bitset is a correct reference",
                 "gcc 12 ASan/UBSan report out-of-object accesses and undefined shifts in the executed paths",
                 "observers are the only way state is read: storage words are never inspected directly (padding-bit independence is judged observationally)"],
)
