import os
import re
from driver import Unit


def site_evidence(ctx):
    """sites present in the current tree vs sites whose handler call was observed"""
    present = set()
    inc = os.path.join(ctx["repo"], "include", "etl")
    for root, _, files in os.walk(inc):
        for f in files:
            if f.endswith(".hpp"):
                p = os.path.join(root, f)
                for n, line in enumerate(open(p, errors="replace"), 1):
                    if re.search(r"TETL_PRECONDITION(_SAFE)?\(", line) and "#define" not in line:
                        present.add((os.path.relpath(p, inc), n))
    fired = set()
    for (f, l) in ctx["sites"]:
        if f and "include/etl/" in f:
            fired.add((f.split("include/etl/", 1)[1], int(l)))
    return dict(precondition_sites_present=len(present), precondition_sites_fired=len(fired & present),
                sites_fired=sorted(f"{a}:{b}" for (a, b) in fired)[:400],
                sites_never_fired=sorted(f"{a}:{b}" for (a, b) in (present - fired))[:400])


def spur(name, src, defs, shards=4):
    return Unit(name, src, defs=defs, flavours={"quick": ["asan-cc"], "thorough": ["asan-cc", "asan-safe"]},
                shards={"quick": shards, "thorough": 8}, only_kinds={"contract-spurious"})


P = dict(
    registered=True,
    level="fault_enumeration",
    level_text=("Fault enumeration at the API boundary: a table of scenarios (subject, object state, violating call) covering the documented preconditions of "
                "static_vector, inplace_vector, inplace_string, string_view, span, array (SAFE), optional, optional<T&>, expected, variant operator[]/unchecked_get "
                "for every active/requested pair, bitset, basic_bitset, set/reset/flip/test_bit, div_sat, chrono day/month, mdspan strides, cstring null arguments, "
                "static_set range constructor, to_string - each at and beyond the boundary (bound, bound+1, SIZE_MAX/2+1, SIZE_MAX) from every small state - runs "
                "in its own forked process with the object snapshotted; the monitor requires the user-replaceable assertion handler to be entered with a filled "
                "location before any sanitizer report or signal, and the object to be byte-identical to its snapshot when the violation is visible from the "
                "arguments. The complementary half (no spurious firing) re-runs the valid-argument workloads of C01/C04/C08 with contract checks on and reports any handler entry."),
    level_note="a scenario table written from the documented preconditions; a precondition that has no scenario is listed under sites_never_fired in the evidence, not claimed",
    technique="fault enumeration with a contract-handler trap in forked processes (exit status + shared-memory assert_msg + object snapshot) under ASan+UBSan",
    design_ref="DESIGN.md section 4 C05",
    rule=("every scenario of the table is executed once per flavour (contract checks on; SAFE in thorough); evaluations = scenarios executed + valid-argument operations "
          "monitored for spurious firing; distinct = distinct (scenario id) resp. distinct (state, operation, arguments) of the valid workloads; a scenario is "
          "non-trivial by construction (it violates a documented precondition)."),
    units=[
        Unit("C05_contracts", "harness/C05_contracts.cpp", flavours={"quick": ["asan-cc", "asan-ccsafe", "asan-ccnd"], "thorough": ["asan-cc", "asan-safe", "asan-ccsafe", "asan-ccnd", "plain-ccnd"]}, shards={"quick": 16, "thorough": 16}),
        spur("C05_spur_vec_int", "harness/C01_vector.cpp", ["-DVF_ELEM=0", "-DVF_CAPS=0,1,2,3"]),
        spur("C05_spur_vec_tcm", "harness/C01_vector.cpp", ["-DVF_ELEM=2", "-DVF_CAPS=1,3,16"]),
        spur("C05_spur_str", "harness/C04_string.cpp", ["-DVF_CHAR=char", '-DVF_CHAR_NAME="char"', "-DVF_CAPS=0,1,3,7,16"]),
        spur("C05_spur_sv", "harness/C08_sv.cpp", ["-DVF_CHAR=char", '-DVF_CHAR_NAME="char"'], shards=8),
    ],
    floor={"quick": 300, "thorough": 600},
    assumptions=["the handler installed through TETL_ENABLE_CUSTOM_ASSERT_HANDLER is the one tetl calls", "gcc 12 ASan/UBSan"],
    extra_evidence=site_evidence,
)
