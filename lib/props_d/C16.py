import json
import os

from driver import Unit

_ROOT = os.path.dirname(os.path.dirname(os.path.dirname(os.path.abspath(__file__))))


def _gen_bounds():
    """harness/C16_bounds.inc is derived from the committed table harness/C16_bounds.json."""
    src = os.path.join(_ROOT, "harness", "C16_bounds.json")
    dst = os.path.join(_ROOT, "harness", "C16_bounds.inc")
    tab = json.load(open(src))
    lines = ["// generated from C16_bounds.json by lib/props_d/C16.py - do not edit\n"]
    for k in sorted(tab):
        if k.startswith("_"):
            continue
        lines.append('C16_BOUND("%s", %d)\n' % (k, int(tab[k]["max_ulp"])))
    text = "".join(lines)
    old = open(dst).read() if os.path.exists(dst) else None
    if old != text:
        with open(dst, "w") as fh:
            fh.write(text)


_gen_bounds()


def tdefs(t):
    d = [f"-DVF_T={t}", f'-DVF_T_NAME="{t}"']
    if t == "float":
        d.append("-DVF_T_IS_FLOAT=1")
    return d


P = dict(
    registered=True,
    level="exploration",
    level_text="(filled in below)",
    level_note="trusts glibc 2.36 libm / libstdc++ 12 as oracle",
    technique="runtime differential monitoring vs glibc libm",
    design_ref="DESIGN.md section 4 C16, section 3.8",
    rule="(filled in below)",
    units=[
        Unit("C16_unary_float", "harness/C16_unary.cpp", defs=tdefs("float"),
             flavours={"quick": ["plain-cc", "asan-cc"], "thorough": ["plain-cc", "asan-cc"]}, shards={"quick": 16, "thorough": 16}),
        Unit("C16_unary_double", "harness/C16_unary.cpp", defs=tdefs("double"),
             flavours={"quick": ["plain-cc", "asan-cc"], "thorough": ["plain-cc", "asan-cc"]}, shards={"quick": 16, "thorough": 16}),
        Unit("C16_binary_float", "harness/C16_binary.cpp", defs=tdefs("float"),
             flavours={"quick": ["plain-cc", "asan-cc"], "thorough": ["plain-cc", "asan-cc"]}, shards={"quick": 16, "thorough": 16}),
        Unit("C16_binary_double", "harness/C16_binary.cpp", defs=tdefs("double"),
             flavours={"quick": ["plain-cc", "asan-cc"], "thorough": ["plain-cc", "asan-cc"]}, shards={"quick": 16, "thorough": 16}),
        Unit("C16_complex_float", "harness/C16_complex.cpp", defs=tdefs("float"),
             flavours={"quick": ["plain-cc", "asan-cc"], "thorough": ["plain-cc", "asan-cc"]}, shards={"quick": 8, "thorough": 16}),
        Unit("C16_complex_double", "harness/C16_complex.cpp", defs=tdefs("double"),
             flavours={"quick": ["plain-cc", "asan-cc"], "thorough": ["plain-cc", "asan-cc"]}, shards={"quick": 8, "thorough": 16}),
    ],
    floor={"quick": 1000000, "thorough": 10000000},
    assumptions=[],
)
