import json
import os

from driver import Unit

_ROOT = os.path.dirname(os.path.dirname(os.path.dirname(os.path.abspath(__file__))))


def _gen_bounds():
    """harness/C16_bounds.inc is derived from the committed table harness/C16_bounds.json."""
    src = os.path.join(_ROOT, "harness", "C16_bounds.json")
    dst = os.path.join(_ROOT, "harness", "C16_bounds.inc")
    tab = json.load(open(src))
    lines = ["// generated from C16_bounds.json by lib/props_d/C16.py - do not edit\n"]
    for k in sorted(tab):
        if k.startswith("_"):
            continue
        lines.append('C16_BOUND("%s", %d)\n' % (k, int(tab[k]["max_ulp"])))
    text = "".join(lines)
    old = open(dst).read() if os.path.exists(dst) else None
    if old != text:
        with open(dst, "w") as fh:
            fh.write(text)


_gen_bounds()


def tdefs(t):
    d = [f"-DVF_T={t}", f'-DVF_T_NAME="{t}"']
    if t == "float":
        d.append("-DVF_T_IS_FLOAT=1")
    return d


def c13_fp_units():
    """the compile-time path of the exactly specified cmath functions: C13's twin-table units (constant evaluation vs run time);
    together with this property's run-time-vs-libm sweeps they tie the constexpr results to libm as well"""
    import importlib.util, os
    here = os.path.dirname(os.path.abspath(__file__))
    spec = importlib.util.spec_from_file_location("c16_clone_c13", os.path.join(here, "C13.py"))
    mod = importlib.util.module_from_spec(spec)
    spec.loader.exec_module(mod)
    out = []
    for u in mod.P["units"]:
        if "_fp_" in u.name:
            out.append(Unit("C16_" + u.name, u.src, std=u.std, defs=u.defs, gen=u.gen, flavours={"quick": ["plain-cc"], "thorough": ["plain-cc", "O0-cc"]},
                            shards=u.shards, args=u.args, libs=u.libs))
    return out


P = dict(
    registered=True,
    level="exploration",
    level_text=("Differential runtime monitoring of the run-time path of etl <cmath>, etl::complex, lerp/hypot/midpoint against glibc libm / "
                "libstdc++: every one-argument function on a stratified 2^24 sweep of float bit patterns per function (quick) or on ALL 2^32 "
                "patterns for the exact/classification/integer-returning functions and 2^28 for the approximate ones (thorough); doubles on "
                "every one of the 2x2048 sign/exponent blocks x boundary mantissas + seeded random; two/three-argument functions on a "
                "~560^2 boundary grid (x 21 third arguments) + seeded random pairs; complex functions on a moderate-magnitude grid, a "
                "special-value grid, an extreme-magnitude grid of finite parts whose squares/ratios overflow or underflow (incl. denormals, "
                "mixed tiny/huge/zero parts), a trig-large grid (large cosh argument x parts at odd multiples of pi/2) and seeded random "
                "(ordinary and extreme), cells with one part inf/NaN and the other finite beyond the cosh overflow threshold (keyed apart from the Annex-G findings), and every compound/binary complex operator with the same object or a reference to the object's own part as operand; pow(T,int) on 18 bases x 18 integer exponents up to INT_MIN/INT_MAX and the mixed-argument (additional) overloads of the two-argument functions, each at run time AND as a constant expression (C16_mixed); an ASan+UBSan stratum (float-cast-overflow, shifts) over the boundary plans with a "
                "breadcrumb before every call. Exact set: bit-identical (both-NaN relaxation, sign-bit functions also on the NaN sign); "
                "approximate set: NaN/inf/signed-zero class equal and ulp distance within the committed table harness/C16_bounds.json. "
                "Held means no divergence beyond the listed open findings on the executions counted in the evidence; it is not a proof "
                "for the double patterns that were not sampled, and the constant-evaluation path is property C13's subject."),
    level_note=("trusts glibc 2.36 libm, libgcc complex arithmetic and libstdc++ 12 (std::lerp, std::midpoint, std::hypot(x,y,z), std::beta, "
                "std::complex) as oracle; most etl functions forward to the same compiler builtins at run time, so for them the check "
                "establishes that the forwarding is the right one for every argument class, not the accuracy of glibc"),
    technique="runtime differential monitoring vs glibc libm / libstdc++ (exhaustive float sweeps, boundary grids, seeded random) + ASan/UBSan stratum",
    design_ref="DESIGN.md section 4 C16, section 3.8",
    rule=("one evaluation = one etl call whose result was compared with the reference for the same bit pattern(s). Enumerated part: "
          "case = (function, sign/exponent block [, mantissa chunk]) for one-argument functions, (function, grid row) for two/three-argument "
          "functions, (function, real part) for complex functions; blocks/rows are pairwise disjoint, so distinct_nontrivial = number of "
          "distinct (function, argument bit pattern tuple) in the enumerated part (counted per block); the seeded random part is counted "
          "in evaluations but NOT in distinct_nontrivial because it may repeat enumerated patterns. Every case is non-trivial (a concrete "
          "argument tuple evaluated on both sides); calls outside the domain where C defines the result (lrint of NaN/inf/|x|>=2^63, beta "
          "outside [2^-4,16]^2, lerp/polar with non-finite arguments) are skipped and not counted."),
    exhaustive_note=("true when all shards finished: the enumerated part is a complete enumeration of its stated finite scope - thorough tier: "
                     "all 2^32 float patterns for floor ceil trunc round rint fabs abs lrint llrint isnan isinf isfinite signbit; quick tier and "
                     "all other functions: the stated stratified plans (every exponent x the fixed mantissa plan), NOT all patterns"),
    units=[
        Unit("C16_unary_float", "harness/C16_unary.cpp", defs=tdefs("float"),
             flavours={"quick": ["plain-cc", "asan-cc"], "thorough": ["plain-cc", "asan-cc"]}, shards={"quick": 16, "thorough": 16}),
        Unit("C16_unary_double", "harness/C16_unary.cpp", defs=tdefs("double"),
             flavours={"quick": ["plain-cc", "asan-cc"], "thorough": ["plain-cc", "asan-cc"]}, shards={"quick": 16, "thorough": 16}),
        Unit("C16_binary_float", "harness/C16_binary.cpp", defs=tdefs("float"),
             flavours={"quick": ["plain-cc", "asan-cc"], "thorough": ["plain-cc", "asan-cc"]}, shards={"quick": 16, "thorough": 16}),
        Unit("C16_binary_double", "harness/C16_binary.cpp", defs=tdefs("double"),
             flavours={"quick": ["plain-cc", "asan-cc"], "thorough": ["plain-cc", "asan-cc"]}, shards={"quick": 16, "thorough": 16}),
        Unit("C16_complex_float", "harness/C16_complex.cpp", defs=tdefs("float"),
             flavours={"quick": ["plain-cc", "asan-cc"], "thorough": ["plain-cc", "asan-cc"]}, shards={"quick": 8, "thorough": 16}),
        Unit("C16_complex_double", "harness/C16_complex.cpp", defs=tdefs("double"),
             flavours={"quick": ["plain-cc", "asan-cc"], "thorough": ["plain-cc", "asan-cc"]}, shards={"quick": 8, "thorough": 16}),
        Unit("C16_mixed", "harness/C16_mixed.cpp",
             flavours={"quick": ["plain-cc", "asan-cc"], "thorough": ["plain-cc", "asan-cc", "O0-cc"]}, shards={"quick": 3, "thorough": 3}),
    ] + c13_fp_units(),
    floor={"quick": 500000000, "thorough": 50000000000},
    assumptions=["glibc 2.36 libm and libgcc/libstdc++ 12 are correct references (exact set: correctly rounded by IEEE 754 definition; approximate set: within a few ulp)",
                 "default rounding mode (round-to-nearest-even) and default FP environment; -ffp-contract=off, no -ffast-math",
                 "x86-64 LP64: long and long long are 64 bit (lrint/llrint domain)"],
)
