from driver import Unit


def u(ch, tag, caps, quick=True, qnocc=False):
    return Unit(f"C04_{ch}_{tag}", "harness/C04_string.cpp",
                defs=[f"-DVF_CHAR={ch}", f'-DVF_CHAR_NAME="{ch}"', f"-DVF_CAPS={caps}"],
                flavours={"quick": (["asan-cc", "asan-nocc"] if qnocc else ["asan-cc"]) if quick else [],
                          "thorough": ["asan-cc", "asan-nocc"] if ch == "char" or qnocc else ["asan-cc"]},
                shards={"quick": 6, "thorough": 16})


P = dict(
    registered=True,
    level="exploration",
    level_text=("Differential runtime monitoring of basic_inplace_string against std::basic_string: every overload family (construct, assign, append, +=, "
                "push/pop, insert, erase, replace, resize, swap, substr, copy, operator+, all find/rfind/find_*_of overloads with and without defaulted "
                "arguments, compare x9, starts/ends_with, contains, relational operators incl. mixed capacities) is driven from every start string of "
                "length <= 3 at capacities 0,1,3,4 with every argument tuple of a small pool (enumerate-by-re-running odometer), plus seeded random "
                "40-step histories at capacities 7,15,16,31,255,256 hovering at full; after every step size/contents/returned values and the invariants "
                "size()<=capacity() and data()[size()]==0 are compared, under ASan+UBSan with all caller buffers exact-size heap blocks."),
    level_note="trusts libstdc++ 12 std::basic_string as oracle; clamping appends are only checked for the two invariants (the property demands no more); bounded by the enumerated pool/lengths and random sample",
    technique="runtime differential monitoring vs std::basic_string + invariant check after every step, under ASan+UBSan (exhaustive small scope + seeded random histories)",
    design_ref="DESIGN.md section 4 C04",
    rule=("enumerated: capacity in {0,1,3,4} x every start string over {a,0xE9} of length <= min(cap,3) x 8 operation families x every argument tuple "
          "(argument strings from a pool of 8 incl. embedded NUL, every index/pos in [0,size], counts {0..size+1,npos}, defaulted-argument forms); "
          "random: 40-step histories at every capacity of the unit. One evaluation = one tetl call compared with the model. Distinct = hash of "
          "(char type, capacity, model contents before, overload, normalised arguments); all counted cases are non-trivial (an operation applied to a concrete state)."),
    units=[
        u("char", "a", "0,1,3,4", qnocc=True), u("char", "b", "7,15,16", qnocc=True), u("char", "c", "31,255,256"),
        u("wchar_t", "a", "0,1,3,4", qnocc=True), u("wchar_t", "b", "7,15,16,31"),
        u("char8_t", "a", "0,3,15,16,255", quick=False), u("char16_t", "a", "1,4,15,16,256", quick=False), u("char32_t", "a", "0,3,7,16,31", quick=False),
    ],
    floor={"quick": 200000, "thorough": 2000000},
    assumptions=["libstdc++ 12 std::basic_string is a correct reference", "gcc 12 ASan/UBSan report out-of-block accesses next to exact-size heap blocks; intra-object overflow is only visible through the model (size/contents change)"],
)
