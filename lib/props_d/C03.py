from driver import Unit


def c01(elem, name, tag, caps, quick=True, nx=False):
    # nx: once more without exception support (-fno-exceptions), which selects the other branch of tetl's uninitialized_copy/move/fill
    fl = ["asan-cc", "asannx-cc"] if nx else ["asan-cc"]
    return Unit(f"C03_vec_{name}_{tag}", "harness/C01_vector.cpp", defs=[f"-DVF_ELEM={elem}", f"-DVF_CAPS={caps}"],
                flavours={"quick": fl if quick else [], "thorough": fl}, shards={"quick": 4, "thorough": 16})


P = dict(
    registered=True,
    level="exploration",
    level_text=("Lifetime monitoring with an instrumented element type: every special member of vf::Tracked (copy+move, move-only, copy-only policies) consults an "
                "address-keyed registry; constructor on a live address, destructor/assignment/read on a dead one, and objects alive after the owner is gone are "
                "recorded, and after every step the number of live objects inside the owner's footprint is compared with the model. Owners: optional, variant "
                "(every from-index x to-index pair for emplace<I>/emplace<T>/converting/copy/move assignment, swap, own-alternative assignment), expected, "
                "inplace_function (captures of 1 and 3 tracked objects; copy/move/assign/nullptr/swap/self-swap/self-assign/call), pair, tuple, static_vector and "
                "inplace_vector (all C01 histories with tracked elements plus self-assignment/self-swap/copy-only elements), stack. All histories of depth 2 "
                "(thorough: 3) from the initial state by odometer enumeration plus seeded random histories of 50 steps, under ASan+UBSan. "
                "Exception injection (C03_throw): for static_vector, inplace_vector, static_set, flat_set, optional, variant, expected and inplace_function holding an "
                "element whose constructors/assignments can throw, every operation that is not noexcept for that element is repeated with the k-th "
                "potentially-throwing element operation failing (k = 0,1,2,... until the operation completes); after each attempt the registry must show no "
                "illegal transition, every exposed element must be live and nothing may be alive after the owner is destroyed (the value left behind is not judged). "
                "The tracked vector units also run once without exception support (-fno-exceptions), which selects the other branch of uninitialized_copy/move/fill."),
    level_note="the registry sees only objects of the instrumented type; trivially-copyable alternatives are covered by value comparison only; static_set/flat_set lifetimes come from the C09 tracked-key units (only lifetime/crash records of those units count here)",
    technique="runtime lifetime-registry monitor (instrumented element type) + model of live-object count, under ASan+UBSan",
    design_ref="DESIGN.md section 4 C03 and 3.1",
    rule=("enumerated: 16 owner configurations (incl. an element type with registered constructors/destructor but trivial assignment operators) x every operation history of depth 2 (quick) / 3 (thorough) with every argument (odometer), each history ending with the "
          "owner's destruction and a leak check; plus the C01 tracked-element units; random: 50-step histories. One evaluation = one owner operation followed by the "
          "registry cross-check. Distinct = hash of (owner, abstract state before, operation, arguments)."),
    units=[
        # fault injection: the k-th potentially-throwing element operation inside an owner operation throws (every k until the operation completes)
        Unit("C03_throw", "harness/C03_throw.cpp", flavours={"quick": ["asan-cc"], "thorough": ["asan-cc", "asanO0-nocc"]}, shards={"quick": 4, "thorough": 8}),
        Unit("C03_owners", "harness/C03_owners.cpp", flavours={"quick": ["asan-cc"], "thorough": ["asan-cc", "asan-nocc"]}, shards={"quick": 12, "thorough": 16}),
        Unit("C03_sset_tracked", "harness/C09_sets.cpp", defs=["-DVF_UNIT=2", "-DVF_PART=0", "-g1"], flavours={"quick": ["asan-cc"], "thorough": ["asan-cc"]}, shards={"quick": 4, "thorough": 8}, only_kinds={"lifetime", "crash", "hang"}),
        Unit("C03_fset_tracked", "harness/C09_sets.cpp", defs=["-DVF_UNIT=8", "-DVF_PART=0", "-g1"], flavours={"quick": ["asan-cc"], "thorough": ["asan-cc"]}, shards={"quick": 4, "thorough": 8}, only_kinds={"lifetime", "crash", "hang"}),
        c01(2, "tcm", "a", "0,1,2,3", nx=True), c01(2, "tcm", "b", "16,255,256"), c01(3, "tmo", "a", "0,1,2,3", nx=True), c01(3, "tmo", "b", "4,16,256", quick=False),
    ],
    floor={"quick": 50000, "thorough": 500000},
    assumptions=["every contained object of interest is of the instrumented type", "gcc 12 ASan/UBSan"],
)
