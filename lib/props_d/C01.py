from driver import Unit

NAMES = {0: "int", 1: "pod", 2: "tcm", 3: "tmo", 4: "il", 5: "sr"}


def u(elem, tag, caps, quick=True, nocc=False, nx=False):
    fl_t = ["asan-cc", "asan-nocc"] if nocc else ["asan-cc"]
    fl_q = ["asan-cc"]
    if nx:  # once more without exception support (-fno-exceptions): the other branch of tetl's uninitialized_copy/move/fill
        fl_t = fl_t + ["asannx-cc"]
        fl_q = fl_q + ["asannx-cc"]
    return Unit(f"C01_{NAMES[elem]}_{tag}", "harness/C01_vector.cpp",
                defs=[f"-DVF_ELEM={elem}", f"-DVF_CAPS={caps}"],
                flavours={"quick": fl_q if quick else [], "thorough": fl_t},
                shards={"quick": 4, "thorough": 16})


P = dict(
    registered=True,
    level="exploration",
    level_text=("Differential runtime monitoring of static_vector, inplace_vector and stack<static_vector> against std::vector<int>: from every content state "
                "over {0,1,2} at capacities 0-3 (thorough: 4) every operation family (push/emplace/pop, emplace, insert x5 incl. self-aliasing arguments and empty "
                "ranges, move_insert, erase x2, free erase/erase_if, resize x2, assign x2, clear, member/free/self swap, copy/move construction and assignment "
                "with independence and reuse-of-source probes, constructors, six relational operators, try_/unchecked_ push/emplace of inplace_vector incl. the "
                "full-must-return-null case, stack push/emplace/pop/top/swap/compare) is applied with every argument tuple (odometer enumeration); plus seeded "
                "random 40-step (one in eight: 320-step) histories at capacities 16, 254, 255, 256 (size-type boundary) hovering at empty/full. After every step size, empty/full, "
                "capacity, the element sequence, returned iterator offsets/references/counts are compared; trivial (int, pod) and non-trivial "
                "(address-registered copy+move and move-only, damaged by self-move-assignment) element types select both storage implementations; an element "
                "type with an initializer_list constructor tells () from {} construction; zero-argument emplace forms; ranges and values of other types than T; "
                "units C01_fp_*: every ordered pair of sequences <= 3 over {+0,-0,1,NaN,-NaN,inf} under the six relations and value-based erasure; all under ASan+UBSan."),
    level_note="trusts libstdc++ std::vector as oracle; iterator-range overloads are driven with pointers only (tetl static_asserts pointer iterators); bounded by the enumerated scope and the random sample",
    technique="runtime differential monitoring vs std::vector with a lifetime registry, under ASan+UBSan (exhaustive small scope + seeded random histories)",
    design_ref="DESIGN.md section 4 C01",
    rule=("enumerated: capacity in the unit's list (<=4) x every start sequence over {0,1,2} of length <= min(cap,3) x 7 families x every argument tuple; random: "
          "40- or 320-step histories per capacity (500 per capacity quick, 60000 thorough). One evaluation = one tetl call compared with the model. Distinct = hash of (element type, capacity, model contents "
          "before, overload, arguments); every counted case is an operation applied to a concrete state (non-trivial by construction)."),
    units=[
        u(0, "a", "0,1,2,3", nocc=True), u(0, "b", "16,254,255,256"), u(0, "c", "4", quick=False),
        u(1, "a", "0,1,3"), u(1, "b", "4,16,255", quick=False),
        u(2, "a", "0,1,2,3", nocc=True, nx=True), u(2, "b", "16,254,255,256"), u(2, "c", "4", quick=False),
        u(3, "a", "0,1,2,3", nx=True), u(3, "b", "4,16,255,256", quick=False),
        u(4, "a", "0,1,2,3"), u(4, "b", "4,16,256", quick=False),
        u(5, "a", "0,1,2,3"), u(5, "b", "4,16,255", quick=False),
        # element constructors that throw in the middle of an operation (the exception-injection scenarios of C03): std::vector gives the strong
        # guarantee for appends at the end, so the size must be unchanged after a failed emplace_back/push_back/try_*/unchecked_*
        Unit("C01_throw", "harness/C03_throw.cpp", flavours={"quick": ["asan-cc"], "thorough": ["asan-cc", "asanO0-nocc"]}, shards={"quick": 4, "thorough": 8},
             only_kinds={"diverge", "crash", "hang"}),  # the lifetime records of these scenarios are C03's (and C02's) subject
        # floating-point elements (+0/-0, NaN): the six relations and value-based erasure must go through the elements' own == and <
        Unit("C01_fp_double", "harness/C01_fp.cpp", defs=["-DVF_FP=double", '-DVF_FP_NAME="double"'],
             flavours={"quick": ["asan-cc", "plain-cc"], "thorough": ["asan-cc", "plain-cc", "O0-nocc"]}, shards={"quick": 2, "thorough": 4}),
        Unit("C01_fp_float", "harness/C01_fp.cpp", defs=["-DVF_FP=float", '-DVF_FP_NAME="float"'],
             flavours={"quick": ["plain-cc"], "thorough": ["asan-cc", "plain-cc"]}, shards={"quick": 2, "thorough": 4}),
    ],
    floor={"quick": 100000, "thorough": 1000000},
    assumptions=["libstdc++ 12 std::vector is a correct reference", "gcc 12 ASan/UBSan see accesses outside exact-size heap blocks; accesses inside the vector object are only visible through the model or the lifetime registry"],
)
