from driver import Unit


def wide(w):
    return [f"-DVF_WIDE={w}"]


# clang does not define __SANITIZE_ADDRESS__; vf::Buf keys its exact-size (no canary band) layout on it
_CL = []
_Q = ["asan-cc"]
_T = ["asan-cc", "asan-nocc", "plain-cc"]

P = dict(
    registered=True,
    level="exploration",
    level_text=("Differential runtime monitoring against the host C library (glibc, \"C\" locale): every etl cctype/cwctype function over its whole "
                "argument range, every etl str*/wcs*/mem*/wmem* function on an exhaustively enumerated small scope (all pairs of strings up to length "
                "4-5 over {a, b, 0xE9} and over boundary codes, every count 0..len+2 and SIZE_MAX, every (src,dst,n) in a 12-element arena) plus seeded "
                "random strings up to length 64, and div/ldiv/lldiv/imaxdiv/abs/labs/llabs on a boundary grid, all on exact-size heap blocks under "
                "ASan+UBSan. Compared: truth value / converted value, length, SIGN of comparisons, pointer results as offset-or-null, and the whole "
                "destination image. Held means: no divergence and no sanitizer report on the executions listed in the evidence; it is not a proof "
                "for longer strings or other alphabets."),
    level_note=("trusts glibc 2.36 in the \"C\" locale as oracle and gcc 12 ASan/UBSan red zones; the generic code path of the etl front ends is executed with gcc in both tiers, the compiler-builtin "
                "dispatch path (clang 14) in the thorough tier only; constant evaluation of the same functions belongs to C13"),
    technique="runtime differential monitoring vs glibc under ASan+UBSan (exhaustive small scope + seeded random)",
    design_ref="DESIGN.md section 4 C18",
    rule=("cctype: 14 functions x every argument in [-1,255]. cwctype: 14 functions x WEOF and every code in [0,0x10FFFF] (exhaustive) plus 4097 "
          "evenly spaced values in each of 16 slices of [0x110000,0xFFFFFFFE]. str*/wcs*: every ordered pair (a,b) of strings of length <= 4 (quick) "
          "/ <= 5 (thorough) over {a,b,0xE9} and of length <= 2 over four boundary codes, x every count in [0,len+2] and SIZE_MAX, for strlen, "
          "strcmp, strncmp, strcpy, strncpy, strcat, strncat, strchr, strrchr, strspn, strcspn, strpbrk, strstr (const and non-const overloads), "
          "destinations both as exact-size blocks and embedded between sentinels, strn* additionally with unterminated source arrays of exactly "
          "the permitted size; the read-only two-string functions (strcmp, strncmp, strspn, strcspn, strpbrk, strstr and wcs* twins) additionally "
          "with ALIASING arguments: both pointers into one block - the identical pointer, and the second (or first) argument a suffix of the "
          "other at every offset, strncmp with every count (prefix via count) - etl and glibc called with the same two pointers; "
          "strncmp/strncat (and wcs twins, also aliased) additionally with counts far beyond the objects (2*size, PTRDIFF_MAX, SIZE_MAX/2+1, "
          "SIZE_MAX-1, SIZE_MAX; wide also these divided by sizeof(wchar_t)) - the count only limits, the terminator decides; "
          "then seeded random strings up to length 64. mem*/wmem*: memmove (and memcpy where disjoint) for every "
          "(src offset, dst offset, n) in a 12-element arena x 3 content patterns, memset for every (offset, n) x 5-6 values, memcmp for every "
          "pair of blocks of length <= 4/5 over {a,b,0xE9,0} x every n, memchr for every block x n x character, n = 0 with one-past pointers, memchr/wmemchr with the character present and a count beyond the exact-size block "
          "(size+1, 2*size, PTRDIFF_MAX, SIZE_MAX/2+1, SIZE_MAX-1, SIZE_MAX; wide also divided by sizeof(wchar_t): C11 7.24.5.1 sequential-read rule), memcmp with both pointers into one block (identical, "
          "overlapping and disjoint ranges, every (i, j, n)); "
          "then seeded random blocks up to 96 elements. Constant-evaluation twin (C18_cx_*): every function of the property that is declared constexpr (all str*/wcs*, "
          "wmemcmp/wmemchr/wmemcpy/wmemmove/wmemset, cctype, cwctype, div/ldiv/lldiv/imaxdiv/abs/labs/llabs; narrow mem* are not constexpr) "
          "is evaluated on a table - all pairs of strings of length <= 3 over {a,b,0xE9} x counts 0..len+2 and SIZE_MAX, blocks of length <= 3 "
          "over {a,b,0xE9,0}, every (src,dst,n) in an 8-element buffer x 2 patterns for wmemmove/wmemcpy/wmemset, EOF+0..255 / WEOF+0..0x3FF, "
          "an 11x11 boundary grid - once by the compiler in a constant expression, once at run time with laundered inputs, and both are "
          "compared with glibc. cstdlib: all pairs of a 31-43 value boundary grid per type (C's undefined points "
          "excluded) plus seeded random operands. One evaluation = one etl call compared with the glibc call on an identical image. "
          "Distinct = distinct hash of (function/overload, presentation, operands, count); non-trivial = at least one operand non-empty / n != 0 "
          "/ numerator != 0."),
    units=[
        Unit("C18_ctype", "harness/C18_ctype.cpp", flavours={"quick": _Q, "thorough": ["asan-cc", "plain-cc", "O0-cc"]}, shards={"quick": 4, "thorough": 8}),
        Unit("C18_str_char", "harness/C18_str.cpp", defs=wide(0), flavours={"quick": _Q, "thorough": _T}, shards={"quick": 8, "thorough": 16}),
        Unit("C18_str_wchar_t", "harness/C18_str.cpp", defs=wide(1), flavours={"quick": _Q, "thorough": _T}, shards={"quick": 8, "thorough": 16}),
        Unit("C18_mem_char", "harness/C18_mem.cpp", defs=wide(0), flavours={"quick": _Q, "thorough": _T}, shards={"quick": 4, "thorough": 16}),
        Unit("C18_mem_wchar_t", "harness/C18_mem.cpp", defs=wide(1), flavours={"quick": _Q, "thorough": _T}, shards={"quick": 4, "thorough": 16}),
        # constant-evaluation twin: every constexpr function of the property, evaluated by the compiler, at run time, and by glibc
        Unit("C18_cx_char", "harness/C18_cx.cpp", defs=wide(0), flavours={"quick": _Q, "thorough": ["asan-cc", "plain-cc", "O0-cc"]}, shards={"quick": 2, "thorough": 2}),
        Unit("C18_cx_wchar_t", "harness/C18_cx.cpp", defs=wide(1), flavours={"quick": _Q, "thorough": ["asan-cc", "plain-cc", "O0-cc"]}, shards={"quick": 2, "thorough": 2}),
        # clang: the etl front ends forward strlen/strcmp/strncmp/strchr/memchr/memcmp/memcpy/memmove/wmemcpy/wmemmove to compiler builtins
        Unit("C18_str_char_clang", "harness/C18_str.cpp", defs=wide(0) + _CL, flavours={"quick": [], "thorough": ["clang14-cc"]}, shards={"quick": 8, "thorough": 16}),
        Unit("C18_str_wchar_t_clang", "harness/C18_str.cpp", defs=wide(1) + _CL, flavours={"quick": [], "thorough": ["clang14-cc"]}, shards={"quick": 8, "thorough": 16}),
        Unit("C18_mem_char_clang", "harness/C18_mem.cpp", defs=wide(0) + _CL, flavours={"quick": [], "thorough": ["clang14-cc"]}, shards={"quick": 4, "thorough": 16}),
        Unit("C18_mem_wchar_t_clang", "harness/C18_mem.cpp", defs=wide(1) + _CL, flavours={"quick": [], "thorough": ["clang14-cc"]}, shards={"quick": 4, "thorough": 16}),
    ],
    floor={"quick": 15000000, "thorough": 60000000},
    assumptions=["glibc 2.36 in the \"C\" locale is a correct reference for the C library functions compared",
                 "gcc 12 ASan/UBSan report every out-of-block access adjacent to an exact-size heap block",
                 "the process never leaves the \"C\" locale (setlocale(LC_ALL, \"C\") at start-up, no later change)"],
)
