from driver import Unit

SRC = "harness/C09_sets.cpp"


def u(name, n, part=0, quick=("asan-cc",), thorough=("asan-cc", "asan-nocc"), qs=4, ts=8):
    return Unit(name, SRC, defs=[f"-DVF_UNIT={n}", f"-DVF_PART={part}", "-g1"], flavours={"quick": list(quick), "thorough": list(thorough)},
                shards={"quick": qs, "thorough": ts})


P = dict(
    registered=True,
    level="exploration",
    level_text=("Differential runtime monitoring: every public operation of etl::static_set / etl::flat_set (insert x lvalue/rvalue/hint/range/sorted_unique, "
                "emplace, emplace_hint, erase x key/iterator/const_iterator/range, clear, swap, extract, replace, erase_if, all constructors, copy/move, "
                "find/contains/count/lower_bound/upper_bound/equal_range incl. heterogeneous keys equivalent to 0, 1 or several stored elements, relational "
                "operators, iteration, comparator observers) is executed from EVERY "
                "set over a 6-key universe that fits capacity 1/3/4 with EVERY key / position / position range / small argument range, and in seeded "
                "40-step histories at capacity 3/4/16, under ASan+UBSan with contract checks on; after each step the iteration order is checked to be strictly "
                "ascending under the comparator (independently of the model) and size, content, return values are compared with std::set<int,Cmp> "
                "(transparent, so heterogeneous lookups use std::set's own K overloads). A comparator type with run-time state is carried through copy/move "
                "construction and assignment, swap, the (comp) constructors, extract/replace and every modifier; the state of key_comp()/value_comp() is compared "
                "with the model's comparator object after every step. "
                "flat_multiset is constructed from every sequence up to length 4-5 over 4-5 keys (plus random longer ones) and compared with the sorted multiset. "
                "Held means no divergence, sanitizer report, lifetime error or spurious contract firing on the executions counted in the evidence; "
                "it is not a proof for larger capacities or other key types."),
    level_note="trusts libstdc++ 12 std::set/std::multiset as oracle and gcc 12 ASan/UBSan; scope bounded by universe 6 / capacity <= 4 (enumerated) and the random sample at capacity 16",
    technique="runtime differential monitoring vs std::set under ASan+UBSan + lifetime registry (exhaustive small scope + seeded random histories)",
    design_ref="DESIGN.md section 4 C09",
    rule=("enumerated case = (subject configuration, start set S over the universe {1..6} with |S| <= capacity, operation family); inside a case the family's "
          "operation is applied to a freshly built S (built through insert, in four different orders) once for every argument: every key 0..7, every "
          "iterator position, every iterator pair, every hint position, every key sequence of length <= 3 (range insert), every predicate over the universe "
          "(erase_if), every other set T (swap, replace, assignment, relational operators; for the stateful comparator T in both comparator states), every "
          "permutation of S with one duplicate (constructors), every heterogeneous range key [lo,hi] over 0..7 (matches 0, 1 or several elements), and "
          "every key/value argument passed as a REFERENCE TO THE SET'S OWN ELEMENT at every position (erase(key), insert, emplace, hinted forms, all lookups; "
          "the model std::set is driven with the same aliasing), self copy/move assignment, erase(range) followed by use of the returned position. "
          "Random case = one 40-operation history. One evaluation = one tetl call whose result and resulting state were compared with the std::set model. "
          "Distinct = distinct hash of (configuration, set before, overload, arguments); non-trivial = the set is non-empty or the operation modifies it."),
    units=[
        # static_set<int,N,Cmp>: p0 N=3 (4 comparators) + N=1, N=2, coarse N=3 ; p1 N=4 + coarse ; p2 N=16 (random histories only) ; p3 N=5/universe 7 (thorough)
        u("C09_sset_int_p0", 1, 0),
        u("C09_sset_int_p1", 1, 1),
        u("C09_sset_int_p2", 1, 2),
        u("C09_sset_int_p3", 1, 3, quick=(), thorough=("asan-cc",)),
        u("C09_sset_tracked", 2),
        u("C09_fset_sv_p0", 3, 0),
        u("C09_fset_sv_p1", 3, 1),
        u("C09_fset_sv_p2", 3, 2),
        u("C09_fset_sv_p3", 3, 3, quick=(), thorough=("asan-cc",)),
        u("C09_fset_veclike_p0", 4, 0, thorough=("asan-cc",)),
        u("C09_fset_veclike_p1", 4, 1, thorough=("asan-cc",)),
        u("C09_fset_veclike_p2", 4, 2, thorough=("asan-cc",)),
        u("C09_fmset", 5, qs=2, ts=4),
        u("C09_sset_equal_range", 6, thorough=("asan-cc",), qs=2, ts=2),
        u("C09_fset_insert_sorted_unique", 7, thorough=("asan-cc",), qs=2, ts=2),
        u("C09_fset_tracked", 8, thorough=("asan-cc",)),
        # comparator with run-time state (dir_less{descending}, default constructible, transparent): flat_set over static_vector<3/4/16> and
        # vec_like[4] in BOTH states of the stored comparator object, static_set<int,4,dir_less> (always the default state)
        u("C09_stateful_cmp", 9, thorough=("asan-cc",), qs=8, ts=8),
    ],
    floor={"quick": 3000000, "thorough": 30000000},
    assumptions=["libstdc++ 12 std::set / std::multiset are correct references",
                 "gcc 12 ASan/UBSan report out-of-object accesses next to the set object (stack) and next to exact-size heap blocks",
                 "etl::static_vector (backing container, owned by C01) behaves like std::vector within capacity"],
)
