from driver import Unit

O0 = "asanO0-cc"  # template-heavy units are built at -O0 (same sanitizers, ~3x faster to compile); -O1 builds run in thorough

# ---- probe cells (harness/C20_probe.cpp): one binary per cell, so a cell that does not compile is reported alone
KN = {0: "int", 1: "cint", 2: "mo", 3: "co", 4: "lref", 5: "rref", 6: "clref"}
CN = {0: "l", 1: "cl", 2: "r", 3: "cr"}
FAM = {1: "get_tuple", 2: "get_pair", 4: "sb_pair", 5: "apply", 6: "mft", 7: "cat"}
SUB = {8: ("catshape", 6), 9: ("fwd", 5), 10: ("empty", 4), 11: ("bindfront", 6), 12: ("ipf", 6), 13: ("fref", 6), 14: ("refw", 4),
       15: ("pairref", 4), 16: ("invoke", 5), 17: ("notfn", 3), 18: ("ctor", 6), 19: ("tuplelike", 4), 20: ("adlswap", 4), 21: ("heteroclass", 2), 22: ("lessonly", 3)}
cells = [("sb_tuple_int", 3, 0, 9)]  # structured bindings on etl::tuple: one representative cell (no std::tuple_size support at all)
for f, fn in FAM.items():
    for k in (0, 1, 2, 3):           # value element kinds: all four categories in one cell
        cells.append((f"{fn}_{KN[k]}", f, k, 9))
    for k in (4, 5, 6):              # reference element kinds: one cell per category
        for c in range(4):
            cells.append((f"{fn}_{KN[k]}_{CN[c]}", f, k, c))
for f, (fn, n) in SUB.items():
    for k in range(n):
        cells.append((f"{fn}_{k}", f, k, 9))

units = [
    Unit("C20_values", "harness/C20_values.cpp",
         flavours={"quick": ["asan-cc"], "thorough": ["asan-cc", "asan-nocc", "plain-cc"]}, shards={"quick": 4, "thorough": 8}),
]
# call logs: (part, nslice)
for part, nslice, label in ((0, 2, "invoke"), (1, 1, "function_ref"), (2, 1, "inplace_function"), (3, 2, "bind_not"), (4, 1, "refwrap"), (5, 1, "memptr"), (6, 1, "addressof")):
    for sl in range(nslice):
        nm = f"C20_calls_{label}" + (f"_{sl}" if nslice > 1 else "")
        units.append(Unit(nm, "harness/C20_calls.cpp", defs=[f"-DVF_PART={part}", f"-DVF_NSLICE={nslice}", f"-DVF_SLICE={sl}"],
                          flavours={"quick": [O0], "thorough": [O0, "asan-cc", "asanO0-nocc"]}, shards={"quick": 2, "thorough": 4}))
# round 4: () vs {} initialisation of everything built from forwarded pieces; over-aligned targets / elements
units.append(Unit("C20_init", "harness/C20_init.cpp", flavours={"quick": ["asan-cc"], "thorough": ["asan-cc", "asan-nocc"]}, shards={"quick": 1, "thorough": 2}))
units.append(Unit("C20_align", "harness/C20_align.cpp", flavours={"quick": ["asan-cc", "asanO0-cc"], "thorough": ["asan-cc", "asanO0-cc", "asan-nocc", "plain-cc"]},
                  shards={"quick": 1, "thorough": 2}))
for cap, tiers in ((8, ("quick", "thorough")), (16, ("quick", "thorough")), (32, ("thorough",))):
    units.append(Unit(f"C20_ipf_cap{cap}", "harness/C20_ipf.cpp", defs=[f"-DVF_CAP={cap}"],
                      flavours={"quick": ["asan-cc"] if "quick" in tiers else [], "thorough": ["asan-cc", "asan-nocc", "plain-cc"]},
                      shards={"quick": 8, "thorough": 16}))
for name, f, k, c in cells:
    units.append(Unit(f"C20_probe_{name}", "harness/C20_probe.cpp", defs=[f"-DVF_PROBE={f}", f"-DVF_KIND={k}", f"-DVF_CAT={c}"],
                      flavours={"quick": [O0], "thorough": [O0, "asanO0-nocc"]}, shards={"quick": 1, "thorough": 1}))

P = dict(
    registered=True,
    level="exploration",
    level_text=("Differential runtime monitoring against libstdc++ and against a direct call: (1) every ordered pair of 3-tuples over {0,1,2} is pushed through "
                "every constructor / assignment / relation / swap / get / apply / make_from_tuple / tuple_cat / make_tuple / tie / forward_as_tuple form of "
                "etl::pair and etl::tuple with int, mixed arithmetic, copy-only, move-only, special-member-logging elements and elements with their own namespace-scope (ADL) swap, and compared with std::pair / "
                "std::tuple; every relation both libraries provide and every converting construction/assignment is also run on pairs/tuples whose element types DIFFER "
                "(int/double, unsigned char/int, long long/int, int/unsigned, signed/unsigned char, float/double, long long/double, short/unsigned long long, class/int; "
                "both operand orders) over a value table with values not representable in the other type; a target/element class with a hostile unary operator& goes "
                "through every wrapper that stores or forms an address (identity by std::addressof); all compared with std::pair / "
                "std::tuple (values, element copy/move counts, order of ==); (2) ~150 probe cells compare decltype(etl expression) with decltype(std expression) "
                "for get / structured bindings / apply / make_from_tuple / tuple_cat / forward_as_tuple / tie over element kinds {int, int const, move-only, "
                "copy-only, int&, int&&, int const&} x {lvalue, const lvalue, rvalue, const rvalue}, each cell its own binary so a cell that does not compile is "
                "reported alone; (3) an instrumented callable's log (number of calls, target identity and state, cv/ref of *this, argument categories, values and "
                "identities, result type/value/identity) of a direct call is compared with the log through invoke, invoke_r, reference_wrapper, function_ref, "
                "inplace_function, bind_front, not_fn for all callee x argument category combinations and member-function/member-data pointers on object / "
                "derived / pointer / reference_wrapper receivers; (4) every history of depth 3 over 13 operations on two inplace_function objects with closures "
                "of every size 1..capacity (trivially copyable, non-trivially copyable, self-referential) is compared with a model, including the empty state. "
                "Under ASan+UBSan with contract checks on. Held means: no divergence and no sanitizer report on the executions listed in the evidence; it is not "
                "a proof for other element types, longer histories or other capacities."),
    level_note=("trusts libstdc++ 12 std::pair/std::tuple/std::apply/std::tuple_cat/std::make_from_tuple/std::invoke/std::bind_front/std::not_fn/std::function as "
                "oracle and the hand-written direct call for function_ref/inplace_function/invoke_r (std::function_ref and std::invoke_r are not in libstdc++ 12); "
                "element-construction order inside a tuple is not compared (unspecified); lifetimes of captures/elements are C03's monitor; NaN-valued elements "
                "(C++20 pair relations use <=>) and tuple assignment / relational operators (absent from etl::tuple) are outside the scope"),
    technique="runtime differential monitoring vs std::pair/std::tuple and vs a direct call (instrumented callable log), exhaustive small scope + seeded random, under ASan+UBSan",
    design_ref="DESIGN.md section 4 C20",
    rule=("C20_values: enumerated = every ordered pair (x, y) of 3-tuples over {0,1,2} (729 cases) x every pair/tuple operation of the unit; one evaluation = one etl "
          "operation (or one element special-member log) compared with std. C20_calls_*: enumerated = (group, a0, a1) with a0,a1 in {0,1,2}; each case sweeps the "
          "compile-time product callee category x argument categories x result kind of its group; one evaluation = one call through a wrapper whose log and result "
          "were compared with the direct call. C20_ipf_cap*: enumerated = every history of depth 3 (one case per first operation incl. its arguments) over 13 "
          "operations x closure types of the boundary sizes {1, cap/2, cap-1, cap} (thorough, cap 8: every size) + one sweep per closure type of every size 1..cap; one "
          "evaluation = one observer or call compared with the model. C20_probe_*: one evaluation = one compile-time type equality or value/identity comparison of "
          "the cell. Random parts: boundary/random integers, wider tuples, 40-step inplace_function histories over all closure sizes. Distinct = hash of (unit, case "
          "values or history prefix, operation, situation); non-trivial = at least one wrapper holds a target (histories) / always (other units)."),
    units=units,
    floor={"quick": 3000000, "thorough": 30000000},
    assumptions=["libstdc++ 12 std::pair, std::tuple, std::apply, std::tuple_cat, std::make_from_tuple, std::invoke, std::bind_front, std::not_fn, std::function are correct references",
                 "a direct call expression is the reference for function_ref, inplace_function and invoke_r",
                 "gcc 12 ASan/UBSan (incl. stack-use-after-scope) report dangling or out-of-bounds accesses made by the wrappers"],
)
