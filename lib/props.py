"""Registry: property id -> units, level, evidence rule.  One file per property in lib/props_d/Cxx.py defining P."""
import importlib.util
import os

PROPS = {}
_d = os.path.join(os.path.dirname(os.path.abspath(__file__)), "props_d")
for _f in sorted(os.listdir(_d)):
    if _f.endswith(".py") and _f[0] == "C":
        _spec = importlib.util.spec_from_file_location("props_" + _f[:-3], os.path.join(_d, _f))
        _m = importlib.util.module_from_spec(_spec)
        _spec.loader.exec_module(_m)
        PROPS[_f[:-3]] = _m.P
