"""python3 lib/record_findings.py Cxx: merge proposed/Cxx/findings.jsonl into known_findings.jsonl, rewriting 'fixed' commit ids to /repo's hashes (matched by patch subject)."""
import glob, json, os, re, subprocess, sys
ROOT = os.path.dirname(os.path.dirname(os.path.abspath(__file__)))
prop = sys.argv[1]
subj_by_old = {}
for p in sorted(glob.glob(os.path.join(ROOT, "proposed", prop, "fixes", "*.patch"))):
    txt = open(p, errors="replace").read()
    m = re.search(r"^From ([0-9a-f]{7,40}) ", txt, re.M)
    s = re.search(r"^Subject: (?:\[PATCH[^\]]*\] )?(.*(?:\n .*)*)", txt, re.M)
    if m and s:
        subj_by_old[m.group(1)] = " ".join(x.strip() for x in s.group(1).split("\n"))
log = subprocess.check_output(["git", "-C", "/repo", "log", "--format=%h\t%s"]).decode().strip().split("\n")
new_by_subj = {l.split("\t", 1)[1]: l.split("\t", 1)[0] for l in log}
have = open(os.path.join(ROOT, "known_findings.jsonl")).read()
out = []
for line in open(os.path.join(ROOT, "proposed", prop, "findings.jsonl")):
    line = line.strip()
    if not line or line.startswith("#"):
        continue
    e = json.loads(line)
    if e.get("status") == "fixed":
        old = e.get("commit", "")
        subj = next((s for o, s in subj_by_old.items() if o.startswith(old) or old.startswith(o[:7])), None)
        new = new_by_subj.get(subj) if subj else None
        if not new:
            print("WARN: no /repo commit for", old, "-", e["what"][:60])
            continue
        e["commit"] = new
    if e["what"] in have:
        continue
    out.append(json.dumps(e))
with open(os.path.join(ROOT, "known_findings.jsonl"), "a") as f:
    for l in out:
        f.write(l + "\n")
print(f"{prop}: {len(out)} entries recorded")
