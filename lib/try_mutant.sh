#!/bin/bash
# usage: lib/try_mutant.sh <mutant dir with patch.diff [+demo.cpp]> <prop> [tier] [--suite]
# confirms the change (demo passes without / fails with the patch; optionally the library suite stays green) and runs ./check <prop> against it.
D=$1; P=$2; TIER=${3:-quick}; SUITE=$4
WT=/tmp/tm-wt-$$; B=/tmp/tm-build-$$
git -C /repo worktree add -q --detach $WT HEAD || exit 2
trap "git -C /repo worktree remove --force $WT >/dev/null 2>&1; rm -rf $B" EXIT
mkdir -p $B
if [ -f $D/demo.cpp ]; then
  EXTRA=$( (grep -o '\-DTETL_[A-Z_]*=[0-9]*' $D/notes.md; head -3 $D/demo.cpp | grep 'g++' | grep -o '\-funsigned-char\|-fno-exceptions') 2>/dev/null | sort -u | tr '\n' ' ')
  g++ -std=c++20 $EXTRA -I$WT/include $D/demo.cpp -o $B/demo0 2>$B/demo0.log && (timeout 60 $B/demo0 >/dev/null 2>&1; echo "demo without patch: exit $?") || echo "demo without patch: BUILD FAILED"
fi
git -C $WT apply $D/patch.diff || { echo "PATCH DOES NOT APPLY"; exit 2; }
if [ -f $D/demo.cpp ]; then
  g++ -std=c++20 $EXTRA -I$WT/include $D/demo.cpp -o $B/demo1 2>$B/demo1.log && (timeout 60 $B/demo1 >/dev/null 2>&1; echo "demo with patch: exit $?") || echo "demo with patch: BUILD FAILED"
fi
if [ "$SUITE" == "--suite" ]; then
  cmake -G Ninja -S $WT -B $WT/_build -DCMAKE_BUILD_TYPE=RelWithDebInfo -DTETL_BUILD_CONTRACT_CHECKS=ON -DCMAKE_CXX_FLAGS=-Wno-error >/dev/null 2>&1 && cmake --build $WT/_build >/dev/null 2>&1; ctest --test-dir $WT/_build -j8 --timeout 900 2>&1 | grep "tests passed\|tests failed"
fi
cd /verif
out=$(VERIF_REPO=$WT VERIF_BUILD=$B VERIF_EVIDENCE_DIR=$B/evidence VERIF_MAX_VLINES=4 ./check $P --tier $TIER 2>&1); rc=$?
echo "check $P $TIER: exit $rc, $(echo "$out" | grep -c '^VIOLATION') violation lines"
echo "$out" | grep '^VIOLATION' | head -3 | cut -c1-300
echo "$out" | tail -1 | cut -c1-200
