#!/usr/bin/env python3
"""Driver for the tetl runtime monitors (see DESIGN.md section 1.1)."""
import concurrent.futures as cf
import glob
import hashlib
import json
import os
import re
import shlex
import shutil
import subprocess
import sys
import time

ROOT = os.path.dirname(os.path.dirname(os.path.abspath(__file__)))
REPO = os.environ.get("VERIF_REPO", "/repo")
BUILD = os.environ.get("VERIF_BUILD", os.path.join(ROOT, "build"))
JOBS = int(os.environ.get("VERIF_JOBS", "16"))

SAN = "-fsanitize=address,undefined -fno-sanitize-recover=all"
FLAVOURS = {
    "asan": dict(cxx="g++", flags=f"-O1 -g -fno-omit-frame-pointer {SAN} -ffp-contract=off"),
    "asanO0": dict(cxx="g++", flags=f"-O0 -g -fno-omit-frame-pointer {SAN} -ffp-contract=off"),
    # embedded-style build without exception support: selects tetl's "#if !defined(__cpp_exceptions)" branches
    "asannx": dict(cxx="g++", flags=f"-O1 -g -fno-omit-frame-pointer {SAN} -ffp-contract=off -fno-exceptions"),
    "plain": dict(cxx="g++", flags="-O2 -g0 -ffp-contract=off"),
    "O0": dict(cxx="g++", flags="-O0 -g0 -ffp-contract=off"),
    "vg": dict(cxx="g++", flags="-O1 -g -ffp-contract=off", wrap=[
        "valgrind", "-q", "--error-exitcode=68", "--exit-on-first-error=yes", "--track-origins=yes", "--child-silent-after-fork=no",
        "--trace-children=no", "--log-file={out}.vg.%p"]),
    "alloc": dict(cxx="g++", flags="-O1 -g -ffp-contract=off -DVF_ALLOC_TRAP=1"),
    "clang14": dict(cxx="clang++-14", flags=f"-O1 -g -fno-omit-frame-pointer {SAN} -fno-sanitize=object-size -ffp-contract=off"),
}
CONTRACTS = {
    "cc": ["-DTETL_ENABLE_CONTRACT_CHECKS=1"],
    "safe": ["-DTETL_ENABLE_CONTRACT_CHECKS_SAFE=1"],
    "ccsafe": ["-DTETL_ENABLE_CONTRACT_CHECKS=1", "-DTETL_ENABLE_CONTRACT_CHECKS_SAFE=1"],  # what the project's CMake defines when TETL_BUILD_CONTRACT_CHECKS_SAFE is ON
    "nocc": [],
    # release build of the client (-DNDEBUG, TETL_ENABLE_ASSERTIONS not defined) with contract checks enabled: the checks must not depend on the assert configuration
    "ccnd": ["-DTETL_ENABLE_CONTRACT_CHECKS=1", "-DNDEBUG", "-DVF_NO_ENABLE_ASSERTIONS=1"],
}
RUN_ENV = {
    "ASAN_OPTIONS": "detect_leaks=0:abort_on_error=0:exitcode=66:symbolize=0:allocator_may_return_null=1:detect_stack_use_after_return=0",
    "UBSAN_OPTIONS": "print_stacktrace=0:exitcode=67:halt_on_error=1:symbolize=0",
}
WARN = "-Wall -Wextra -Wno-unused-parameter -Wno-unused-variable -Wno-unused-but-set-variable -Wno-sign-compare -Wno-unused-function -Wno-unused-local-typedefs -Wno-deprecated-declarations -Wno-unused-value"


def log(*a):
    print(*a, file=sys.stderr, flush=True)


class Unit:
    """One harness translation unit; built once per flavour."""

    def __init__(self, name, src, std="c++20", defs=(), flavours=None, shards=None, gen=None, args=(), libs=(), only_kinds=None):
        self.name = name
        self.src = src
        self.std = std
        self.defs = list(defs)
        self.flavours = flavours or {"quick": ["asan-cc"], "thorough": ["asan-cc"]}
        self.shards = shards or {"quick": 4, "thorough": 16}
        self.gen = gen  # optional callable(path, tier) generating the source
        self.args = args if isinstance(args, dict) else list(args)
        self.libs = list(libs)
        self.only_kinds = set(only_kinds) if only_kinds else None  # keep only these violation kinds from this unit (reuse of another property's workload)


def flavour_parts(fl):
    base, _, cc = fl.partition("-")
    return base, (cc or "cc")


def compile_cmd(unit, fl, obj, src):
    base, cc = flavour_parts(fl)
    f = FLAVOURS[base]
    cmd = ["ccache", f["cxx"], f"-std={unit.std}"] + shlex.split(f["flags"]) + shlex.split(WARN)
    cmd += ["-fmax-errors=20", "-ftemplate-backtrace-limit=4"] if f["cxx"] == "g++" else ["-ferror-limit=20"]
    cmd += ["-DTETL_ENABLE_USER_CONFIG_HEADER_INCLUDE=1"] + CONTRACTS[cc] + unit.defs
    cmd += [f"-DVF_FLAVOUR=\"{fl}\"", "-I", os.path.join(REPO, "include"), "-I", os.path.join(ROOT, "harness", "cfg"),
            "-I", os.path.join(ROOT, "harness", "common"), "-I", os.path.join(ROOT, "harness"), "-c", src, "-o", obj]
    return cmd


def link_cmd(unit, fl, obj, exe):
    base, _ = flavour_parts(fl)
    f = FLAVOURS[base]
    cmd = [f["cxx"]] + shlex.split(f["flags"]) + [obj, "-o", exe] + unit.libs
    if base == "alloc":
        cmd += ["-ldl"]
    return cmd


def ccache_env():
    e = dict(os.environ)
    e["CCACHE_DIR"] = os.path.join(ROOT, "build", "ccache")
    e["CCACHE_MAXSIZE"] = "8G"
    e["CCACHE_SLOPPINESS"] = "time_macros"
    e.pop("CCACHE_DISABLE", None)
    return e


def build_one(unit, fl, tier):
    """returns (exe or None, log_path, seconds)"""
    t0 = time.time()
    bindir = os.path.join(BUILD, "bin")
    os.makedirs(bindir, exist_ok=True)
    tag = f"{unit.name}.{fl}"
    src = os.path.join(ROOT, unit.src) if unit.src else None
    if unit.gen:
        gendir = os.path.join(BUILD, "gen")
        os.makedirs(gendir, exist_ok=True)
        src = os.path.join(gendir, unit.name + ".cpp")
        text = unit.gen(tier)
        old = open(src).read() if os.path.exists(src) else None
        if old != text:
            with open(src, "w") as fh:
                fh.write(text)
    obj = os.path.join(bindir, tag + ".o")
    exe = os.path.join(bindir, tag)
    logp = os.path.join(bindir, tag + ".log")
    with open(logp, "w") as lf:
        c = compile_cmd(unit, fl, obj, src)
        lf.write(" ".join(shlex.quote(x) for x in c) + "\n")
        lf.flush()
        r = subprocess.run(c, stdout=lf, stderr=subprocess.STDOUT, env=ccache_env())
        if r.returncode != 0:
            return None, logp, time.time() - t0
        l = link_cmd(unit, fl, obj, exe)
        lf.write(" ".join(shlex.quote(x) for x in l) + "\n")
        lf.flush()
        r = subprocess.run(l, stdout=lf, stderr=subprocess.STDOUT)
        if r.returncode != 0:
            return None, logp, time.time() - t0
    return exe, logp, time.time() - t0


def glob_to_re(pat):
    return re.compile("^" + re.escape(pat).replace("\\*", ".*") + "$", re.S)


def load_findings(prop):
    paths = [os.path.join(ROOT, "known_findings.jsonl")]
    if os.environ.get("VERIF_EXTRA_FINDINGS"):  # development aid only; never set by MANIFEST commands
        paths.append(os.environ["VERIF_EXTRA_FINDINGS"])
    out = []
    lines = []
    for path in paths:
        if os.path.exists(path):
            lines += list(open(path))
    for ln, line in enumerate(lines, 1):
        line = line.strip()
        if not line or line.startswith("#"):
            continue
        try:
            e = json.loads(line)
        except Exception as ex:  # a broken findings file is a harness failure
            log(f"known_findings.jsonl:{ln}: {ex}")
            sys.exit(2)
        props = e.get("properties") or [e.get("property")]
        if prop in props or "*" in props:
            e["_re"] = glob_to_re(e["key"]) if "key" in e else None
            e["_line"] = ln
            out.append(e)
    return out


def tool(name):
    """build a small C++ tool from tools/ on demand"""
    exe = os.path.join(BUILD, "tools", name)
    src = os.path.join(ROOT, "tools", name + ".cpp")
    if not os.path.exists(exe) or os.path.getmtime(exe) < os.path.getmtime(src):
        os.makedirs(os.path.dirname(exe), exist_ok=True)
        subprocess.check_call(["g++", "-O2", "-std=c++17", src, "-o", exe])
    return exe


VIOL_KINDS = {"diverge", "crash", "hang", "lifetime", "contract-spurious", "contract-missed", "contract-late",
              "contract-damage", "alloc", "uninit", "compile-failure", "leak"}


def run_check(prop, tier, seed, P, only_units=None, quiet=False):
    t0 = time.time()
    units = [u for u in P["units"] if (not only_units or u.name in only_units)]
    rundir = os.path.join(BUILD, "run", prop)
    shutil.rmtree(rundir, ignore_errors=True)
    os.makedirs(rundir, exist_ok=True)
    tool("uniq64")

    # ---- build
    builds = []
    for u in units:
        for fl in u.flavours.get(tier, []):
            builds.append((u, fl))
    records = []  # dicts
    built = {}
    compile_logs = {}
    with cf.ThreadPoolExecutor(JOBS) as ex:
        futs = {ex.submit(build_one, u, fl, tier): (u, fl) for (u, fl) in builds}
        for f in cf.as_completed(futs):
            u, fl = futs[f]
            exe, logp, secs = f.result()
            compile_logs[(u.name, fl)] = logp
            if exe is None:
                txt = open(logp, errors="replace").read()
                m = re.search(r"(error:.*)", txt)
                first = m.group(1)[:160] if m else "error"
                # normalise: strip quotes contents that look like addresses/line numbers
                sym = re.sub(r"[0-9]+", "N", first)[:120]
                records.append(dict(k="compile-failure", key=f"compile-failure|{u.name}|build|{fl}|{sym}", subject=u.name,
                                    op="build", sit=fl, sym=sym, obs=first, exp="compiles", unit=u.name, flavour=fl,
                                    log=logp, case=-1))
            else:
                built[(u.name, fl)] = exe
    t_build = time.time() - t0

    # ---- run
    jobs = []
    for (u, fl) in builds:
        if (u.name, fl) not in built:
            continue
        n = u.shards.get(tier, 4)
        for i in range(n):
            out = os.path.join(rundir, f"{u.name}.{fl}.{i}.jsonl")
            base, _ = flavour_parts(fl)
            cmd = [w.replace("{out}", out) for w in FLAVOURS[base].get("wrap", [])] + [built[(u.name, fl)], "--out", out, "--shard", f"{i}/{n}",
                                                          "--seed", str(seed), "--tier", tier] + (u.args.get(tier, []) if isinstance(u.args, dict) else u.args)
            jobs.append((u, fl, i, out, cmd))
    env = dict(os.environ)
    env.update(RUN_ENV)
    wall_limit = float(os.environ.get("VERIF_WALL_LIMIT", "5400" if tier == "quick" else "28000"))
    inconclusive = []

    def run_job(j):
        u, fl, i, out, cmd = j
        try:
            jenv = dict(env)
            jenv["VF_VG_LOG"] = out + ".vg"
            r = subprocess.run(cmd, env=jenv, stdout=subprocess.PIPE, stderr=subprocess.PIPE, timeout=wall_limit)
            return j, r.returncode, r.stderr.decode(errors="replace")[-2000:]
        except subprocess.TimeoutExpired:
            return j, -999, "driver wall-clock watchdog"

    summaries = []
    sits_seen = {}
    sites = set()
    ops = {}
    samples = []
    tallies = {}
    bulk_distinct = 0
    with cf.ThreadPoolExecutor(JOBS) as ex:
        for j, rc, err in ex.map(run_job, jobs):
            u, fl, i, out, cmd = j
            if rc != 0:
                inconclusive.append(f"{u.name}.{fl} shard {i}: runner exit {rc}: {err.strip()[-400:]}")
            if not os.path.exists(out):
                continue
            got_summary = False
            for line in open(out, errors="replace"):
                try:
                    r = json.loads(line)
                except Exception:
                    inconclusive.append(f"{out}: unparsable record")
                    continue
                k = r.get("k")
                r["unit"] = u.name
                r["flavour"] = fl
                if k == "summary":
                    got_summary = True
                    summaries.append(r)
                elif k == "op":
                    ops[r["label"]] = ops.get(r["label"], 0) + r["n"]
                elif k == "sit":
                    sits_seen[r["label"]] = sits_seen.get(r["label"], 0) + r["n"]
                elif k == "sample":
                    if len(samples) < 400:
                        samples.append(r)
                elif k == "tally":
                    if u.only_kinds is None or r["key"].split("|", 1)[0] in u.only_kinds:
                        tallies[r["key"]] = tallies.get(r["key"], 0) + r["n"]
                elif k == "bulk":
                    bulk_distinct += r["distinct"]
                elif k == "note":
                    pass
                elif k == "inconclusive":
                    inconclusive.append(f"{u.name}.{fl}: {r.get('key')}: {r.get('obs')}")
                elif k == "site":
                    sites.add((r.get("file"), r.get("line")))
                elif k in VIOL_KINDS:
                    if u.only_kinds is None or k in u.only_kinds:
                        records.append(r)
            if not got_summary and rc == 0:
                inconclusive.append(f"{out}: no summary record")
    t_run = time.time() - t0 - t_build

    # ---- distinct count
    hfiles = glob.glob(os.path.join(rundir, "*.hashes"))
    distinct = 0
    if hfiles:
        distinct = int(subprocess.check_output([tool("uniq64")] + hfiles).decode().strip() or 0)
    distinct += bulk_distinct
    for f in hfiles:
        os.unlink(f)

    # ---- classify
    findings = load_findings(prop)
    bykey = {}
    for r in records:
        bykey.setdefault(r["key"], []).append(r)
    known_hit = {}
    violations = []
    evdir = os.environ.get("VERIF_EVIDENCE_DIR", os.path.join(ROOT, "evidence"))  # selftest writes elsewhere
    repdir = os.path.join(evdir, "replays")
    os.makedirs(repdir, exist_ok=True)
    for key in sorted(bykey):
        rs = bykey[key]
        match = None
        for e in findings:
            if e.get("status") == "open" and e["_re"] and e["_re"].match(key):
                match = e
                break
        if match:
            known_hit.setdefault(match["_line"], (match, []))[1].append(key)
            continue
        violations.append((key, rs))
    lines = []
    for ln in sorted(known_hit):
        e, keys = known_hit[ln]
        n = sum(tallies.get(k, len(bykey[k])) for k in keys)
        lines.append(f"KNOWN-FINDING: property={prop} {e['what']} [{len(keys)} key(s), {n} occurrence(s)]")
    not_repro = [e for e in findings if e.get("status") == "open" and e["_line"] not in known_hit]
    for e in not_repro:
        lines.append(f"NOTE: finding-not-reproduced property={prop} {e['what']}")
    vlines = []
    for key, rs in violations:
        r = rs[0]
        h = hashlib.sha1(key.encode()).hexdigest()[:10]
        rp = os.path.join(os.path.relpath(evdir, ROOT), "replays", f"{prop}-{h}.json")
        u = next((x for x in units if x.name == r.get("unit")), None)
        rep = dict(property=prop, key=key, unit=r.get("unit"), flavour=r.get("flavour"), seed=seed, tier=tier,
                   case=r.get("case"), record={k: v for k, v in r.items() if not k.startswith("_")},
                   occurrences=tallies.get(key, len(rs)), compile_log=r.get("log"),
                   how=f"./check replay {rp}")
        with open(os.path.join(ROOT, rp), "w") as fh:
            json.dump(rep, fh, indent=1)
        vlines.append(f"VIOLATION property={prop} replay={rp} key={key} obs={str(r.get('obs'))[:80]!r} exp={str(r.get('exp'))[:80]!r}")

    with open(os.path.join(rundir, "violations.txt"), "w") as fh:
        for key, rs in violations:
            fh.write(f"{tallies.get(key, len(rs))}\t{key}\t{str(rs[0].get('obs'))[:100]}\t{str(rs[0].get('exp'))[:100]}\t{str(rs[0].get('args'))[:200]}\n")
    # ---- evidence
    evals = sum(s["evals"] for s in summaries)
    cases_done = sum(s["cases_done"] for s in summaries)
    exhaustive = bool(summaries) and all(s.get("exhaustive_enum") for s in summaries) and not inconclusive
    wall = time.time() - t0
    sample_list = []
    seen_labels = set()
    for s in samples:
        if s["label"] in seen_labels and len(sample_list) > 12:
            continue
        seen_labels.add(s["label"])
        sample_list.append(f"[{s['unit']}] {s['label']}: {s['text']}")
        if len(sample_list) >= 40:
            break
    unit_cases = {}
    for s in summaries:
        d = unit_cases.setdefault(f"{s['unit']}.{s['flavour']}", dict(n_enum=s["n_enum"], n_random=s["n_random"], cases_done=0,
                                                                    evals=0, crashes=0, hangs=0, spurious=0))
        d["cases_done"] += s["cases_done"]
        d["evals"] += s["evals"]
        d["crashes"] += s["crashes"]
        d["hangs"] += s["hangs"]
        d["spurious"] += s["spurious"]
    ev = dict(
        property_id=prop, tier=tier, seed=seed, level=P["level"],
        coverage=dict(
            evaluations=int(evals), distinct_nontrivial=int(distinct), rule=P["rule"],
            samples=sample_list or ["(no samples recorded)"],
            exhaustive=exhaustive,
            exhaustive_note=P.get("exhaustive_note", "true only when every unit's enumerated part is a complete enumeration of its stated finite scope and all shards finished"),
            cases_run=int(cases_done), per_unit=unit_cases,
            per_operation={k: ops[k] for k in sorted(ops)},
            situations_reached=len(sits_seen),
            per_situation_calls={k: sits_seen[k] for k in sorted(sits_seen)[:1500]},
            flavours=sorted({fl for (_, fl) in builds}),
            sanitizer_or_crash_records=sum(1 for r in records if r["k"] in ("crash", "hang")),
            violation_keys=[k for k, _ in violations][:200],
            known_findings_reproduced=[known_hit[ln][0]["what"] for ln in sorted(known_hit)],
            known_findings_not_reproduced=[e["what"] for e in not_repro],
            build_s=round(t_build, 1), run_s=round(t_run, 1),
        ),
        assumptions=P.get("assumptions", []),
        wall_s=round(wall, 2), violations=len(violations),
    )
    if inconclusive:
        ev["coverage"]["inconclusive"] = inconclusive[:20]
    if P.get("extra_evidence"):
        ev["coverage"].update(P["extra_evidence"](dict(sites=sites, repo=REPO)))
    os.makedirs(evdir, exist_ok=True)
    with open(os.path.join(evdir, prop + ".json"), "w") as fh:
        json.dump(ev, fh, indent=1)

    # ---- verdict
    for l in lines:
        print(l)
    vmax = int(os.environ.get("VERIF_MAX_VLINES", "40"))
    for l in vlines[:vmax]:
        print(l)
    if len(vlines) > vmax:
        print(f"NOTE: {len(vlines) - vmax} further violation keys omitted (all keys: build/run/{prop}/violations.txt)")
    floor = P.get("floor", {}).get(tier, 1)
    status = 0
    if violations:
        status = 1
    elif inconclusive or evals < floor or distinct < 2:
        for m in inconclusive[:10]:
            print(f"INCONCLUSIVE: {m}")
        if evals < floor:
            print(f"INCONCLUSIVE: only {evals} evaluations observed (floor {floor})")
        status = 2
    if not quiet:
        print(f"{prop} {tier} seed={seed}: {evals} evaluations, {distinct} distinct non-trivial, {cases_done} cases, "
              f"{len(violations)} violation key(s), {len(known_hit)} known finding(s); build {t_build:.0f}s run {t_run:.0f}s -> exit {status}")
    return status


def replay(path):
    rep = json.load(open(path))
    from props import PROPS
    P = PROPS[rep["property"]]
    if rep.get("compile_log") and rep["record"]["k"] == "compile-failure":
        print(open(rep["compile_log"], errors="replace").read()[-6000:])
    u = next((x for x in P["units"] if x.name == rep["unit"]), None)
    if not u:
        print("unit not found", rep["unit"])
        return 2
    exe, logp, _ = build_one(u, rep["flavour"], rep["tier"])
    if exe is None:
        print(open(logp, errors="replace").read()[-6000:])
        return 1
    if rep["case"] is None or rep["case"] < 0:
        return 0
    env = dict(os.environ)
    env.update(RUN_ENV)
    env["ASAN_OPTIONS"] = env["ASAN_OPTIONS"].replace("symbolize=0", "symbolize=1")
    env["UBSAN_OPTIONS"] = "print_stacktrace=1:exitcode=67:halt_on_error=1"
    base, _ = flavour_parts(rep["flavour"])
    wrap = [w for w in FLAVOURS[base].get("wrap", []) if not w.startswith("--log-file")]
    cmd = wrap + [exe, "--case", str(rep["case"]), "--seed", str(rep["seed"]), "--tier", rep["tier"], "--verbose"]
    print("+", " ".join(cmd))
    r = subprocess.run(cmd, env=env, stdout=subprocess.PIPE, text=True, errors="replace")
    print(r.stdout[-8000:])
    reproduced = rep["key"] in r.stdout or r.returncode not in (0,)
    print(f"replay: exit status {r.returncode}; violation {'REPRODUCED' if reproduced else 'not reproduced'} (key {rep['key']})")
    return 1 if reproduced else 0
