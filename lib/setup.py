"""./check setup: build the helper tools and warm the compile cache (offline, files on disk only)."""
import concurrent.futures as cf
import os
import driver
from props import PROPS


def main():
    os.makedirs(driver.BUILD, exist_ok=True)
    driver.tool("uniq64")
    jobs = []
    for p in sorted(PROPS):
        for u in PROPS[p]["units"]:
            for fl in u.flavours.get("quick", []):
                jobs.append((u, fl))
    bad = 0
    with cf.ThreadPoolExecutor(driver.JOBS) as ex:
        for (exe, logp, secs) in ex.map(lambda j: driver.build_one(j[0], j[1], "quick"), jobs):
            if exe is None:
                bad += 1
                print("setup: build failed (reported by the owning check as a violation):", logp)
    print(f"setup: {len(jobs)} harness binaries built, {bad} failed")
    return 0
