"""python3 lib/status_table.py : markdown status table (DESIGN.md 12.2) from lib/props_d, evidence/*.json and known_findings.jsonl"""
import json, os, sys
ROOT = os.path.dirname(os.path.dirname(os.path.abspath(__file__)))
sys.path.insert(0, os.path.join(ROOT, "lib"))
import props  # noqa: E402

kf = [json.loads(l) for l in open(os.path.join(ROOT, "known_findings.jsonl")) if l.strip() and not l.startswith("#")]


def n_open(pid):
    return sum(1 for e in kf if e.get("status") == "open" and (e.get("property") == pid or pid in e.get("properties", [])))


def n_fixed(pid):
    return sum(1 for e in kf if e.get("status") == "fixed" and (e.get("property") == pid or pid in e.get("properties", [])))


print("| id | units (quick / thorough) | flavours used (quick) | last quick run: evaluations / distinct / cases | fixed / open finding lines |")
print("|---|---|---|---|---|")
for pid in sorted(props.ALL if hasattr(props, "ALL") else props.PROPS):
    P = (props.ALL if hasattr(props, "ALL") else props.PROPS)[pid]
    uq = [u for u in P["units"] if u.flavours.get("quick")]
    ut = [u for u in P["units"] if u.flavours.get("thorough")]
    fl = sorted({f for u in uq for f in u.flavours["quick"]})
    ev = {}
    try:
        ev = json.load(open(os.path.join(ROOT, "evidence", pid + ".json")))
    except Exception:
        pass
    cov = ev.get("coverage", ev)
    e, d, c = cov.get("evaluations", ev.get("evaluations", "?")), cov.get("distinct_nontrivial", ev.get("distinct_nontrivial", "?")), cov.get("cases", ev.get("cases", "?"))
    tier = ev.get("tier", "?")
    print(f"| {pid} | {len(uq)} / {len(ut)} | {', '.join(fl)} | {e} / {d} / {c} ({tier}) | {n_fixed(pid)} / {n_open(pid)} |")
