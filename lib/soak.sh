#!/bin/bash
# usage: lib/soak.sh [tier] [props...]  - runs the registered checks at six seeds, prints one line per run
cd /verif
TIER=${1:-quick}; shift
PROPS=${@:-$(cat lib/registered.txt)}
for p in $PROPS; do
  for s in 1 2 3 7 42 1000003; do
    out=$(VERIF_SEED=$s ./check $p --tier $TIER 2>&1); rc=$?
    echo "$p seed=$s rc=$rc $(echo "$out" | grep -c '^VIOLATION') violations; $(echo "$out" | tail -1 | cut -c1-160)"
  done
done
