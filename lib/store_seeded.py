"""python3 lib/store_seeded.py <log> [srcroot=/tmp/mut-out] [suffix=adv] : store confirmed adversary changes from /tmp/mut-out/<prop>/<k> into seeded/<prop>-adv<k>/ using a try_mutant log"""
import json, os, re, shutil, sys
ROOT = os.path.dirname(os.path.dirname(os.path.abspath(__file__)))
log = open(sys.argv[1]).read()
SRC = sys.argv[2] if len(sys.argv) > 2 else "/tmp/mut-out"
SUF = sys.argv[3] if len(sys.argv) > 3 else "adv"
for block in log.split("=== ")[1:]:
    head, _, rest = block.partition("\n")
    prop, k = head.strip().split("/")
    d0 = rest.find("demo without patch: exit 0") >= 0
    d1 = re.search(r"demo with patch: exit ([1-9][0-9]*)", rest)
    suite = "100% tests passed, 0 tests failed out of 261" in rest
    m = re.search(r"check (\w+) (\w+): exit (\d+), (\d+) violation", rest)
    caught = bool(m and m.group(3) == "1" and int(m.group(4)) > 0)
    keys = re.findall(r"key=(\S.*?) obs=", rest)[:2]
    src = f"{SRC}/{prop}/{k}"
    notes = open(os.path.join(src, "notes.md"), errors="replace").read()
    title = next((l.strip("# ").strip() for l in notes.split("\n") if l.strip()), "")[:200]
    sid = f"{prop}-{SUF}{k}"
    d = os.path.join(ROOT, "seeded", sid)
    if not (d0 and d1 and suite):
        print("NOT CONFIRMED", sid, d0, bool(d1), suite)
        continue
    os.makedirs(d, exist_ok=True)
    for f in ("patch.diff", "demo.cpp", "notes.md"):
        shutil.copy(os.path.join(src, f), os.path.join(d, f))
    meta = dict(id=sid, property=prop, title=title, needs_to_manifest="see notes.md (written by the adversary)",
                origin="independent adversary sub-agent given only the property text and a scratch worktree",
                confirmed="lib/try_mutant.sh --suite: patch applies to /repo HEAD; demo.cpp exits 0 without and non-zero with the patch; library suite 261/261 with the patch",
                checks=[prop], tiers=["quick"],
                detection=("caught on the first run by ./check %s --tier quick; first keys: %s" % (prop, " ;; ".join(keys))) if caught else "MISSED on the first run")
    json.dump(meta, open(os.path.join(d, "meta.json"), "w"), indent=1)
    print("stored", sid, "caught" if caught else "MISSED")
