#!/bin/bash
# usage: lib/run_mutants.sh <root>:Cxx/k ...   (runs lib/try_mutant.sh --suite for each adversary output directory <root>/Cxx/k; log on stdout, feed to lib/store_seeded.py)
cd /verif
for spec in "$@"; do
  root=${spec%%:*}; rest=${spec#*:}; prop=${rest%%/*}; k=${rest#*/}
  echo "=== $prop/$k"
  lib/try_mutant.sh $root/$prop/$k $prop quick --suite 2>&1
done
