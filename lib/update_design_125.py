import subprocess,re,json,glob,collections
p='/verif/DESIGN.md'
s=open(p).read()
a=s.index("### 12.5 Seeded breaking changes")
b=s.index("### 12.6 What the adversary rounds added")
tab=subprocess.run(["python3","/verif/lib/seeded_table.py"],capture_output=True,text=True).stdout
# per property / round summary
rows=collections.defaultdict(lambda: collections.Counter())
for d in glob.glob('/verif/seeded/*/meta.json'):
    m=json.load(open(d)); det=m['detection'].strip().lower()
    cls='first' if det.startswith('caught on') or det.startswith('caught first') else ('pre' if det.startswith('caught') else 'miss')
    mm=re.match(r"(C\d+)-adv(?:(\d)-)?(\d)$",m['id']); rnd=int(mm.group(2) or 1)
    rows[m['property']][(rnd,cls)]+=1
hdr="| property | round 1 (first / pre / missed) | round 2 | round 3 | round 4 | round 5 |\n|---|---|---|---|---|---|\n"
body=""
for P in sorted(rows):
    cells=[]
    for r in (1,2,3,4,5):
        c=rows[P]; cells.append(f"{c[(r,'first')]} / {c[(r,'pre')]} / {c[(r,'miss')]}")
    body+=f"| {P} | {cells[0]} | {cells[1]} | {cells[2]} | {cells[3] if sum(rows[P][(4,c)] for c in ('first','pre','miss')) else '-'} | {cells[4] if sum(rows[P][(5,c)] for c in ('first','pre','miss')) else '-'} |\n"
new=f"""### 12.5 Seeded breaking changes (`seeded/<id>/`: patch.diff, demo.cpp, notes.md, meta.json) and which checks catch them

Produced by independent adversary sub-agents that were given only the property text, a scratch worktree of /repo and - from round 2 on - the
titles of the changes already tried (no access to /verif); three changes per property and round, each asked to need something specific to
manifest.  Every change was confirmed here with `lib/try_mutant.sh --suite` (patch applies; demo exits 0 without and non-zero with the patch;
library suite 261/261 with the patch) before the owning check was run against it in a scratch worktree (`VERIF_REPO`); nothing was ever
committed to /repo.  A miss was answered by strengthening the monitor along the axis the change exposed (12.6), never by special-casing the
change, and the check was re-run on the unchanged tree at six seeds afterwards.  `./check selftest [id...]` re-runs the stored changes against
the current tree (patches whose context was touched by later fix commits were re-based, see `patch_refreshed` in their meta.json);
`seeded/README.md` has the unabridged detection text.  "pre" = caught only thanks to a strengthening made after reading the adversary's
description but before the first run (counted as a miss of the original monitor).

{hdr}{body}
{tab}
Mutants tried by the harness-writing agents themselves while validating their monitors (not independent, kept
under `proposed/Cxx/mutants/` where exported): C06 13/13, C09 12/12 (+4 in round 3), C10 11/11, C11 7/7, C12 6/6, C13 7/8
(the miss - a chrono era off-by-one - is in code shared by both evaluations and is C11's subject, which catches
it), C14 8/8, C15 8/8 after one zoo extension, C16 11/11, C17 9/9, C18 13/13 (+3 aliasing mutants in round 3).

"""
s=s[:a]+new+s[b:]
open(p,'w').write(s)
