"""python3 lib/manifest.py: regenerate MANIFEST.json from lib/props.py (single source of truth)."""
import json
import os
import sys
ROOT = os.path.dirname(os.path.dirname(os.path.abspath(__file__)))
sys.path.insert(0, os.path.join(ROOT, "lib"))
from props import PROPS  # noqa

ids = [json.loads(l)["id"] for l in open(os.path.join(ROOT, "properties.jsonl"))]
REGISTERED = set(open(os.path.join(ROOT, "lib", "registered.txt")).read().split())
checks = []
na = []
for p in ids:
    P = PROPS.get(p)
    if P and P.get("registered") and p in REGISTERED:
        checks.append(dict(
            property_id=p,
            quick_cmd=f"./check {p} --tier quick",
            thorough_cmd=f"./check {p} --tier thorough",
            evidence_file=f"/verif/evidence/{p}.json",
            replay_cmd_template="./check replay {path}",
            engine="check",
            level_claimed=dict(category=P["level"], text=P["level_text"], design_ref=P["design_ref"]),
            level_note=P["level_note"],
            technique=P["technique"],
        ))
    else:
        na.append(dict(property_id=p, reason=(P or {}).get("na_reason", "check not built yet (work in progress; see DESIGN.md section 4)")))
m = dict(
    version=1,
    setup_cmd="./check setup",
    hooks=dict(
        guard="TETL_VERIF",
        enable="none needed - monitors are client programs built against /repo/include; the contract/exception handlers come from harness/cfg/tetl_config.hpp via -DTETL_ENABLE_USER_CONFIG_HEADER_INCLUDE=1 (the mechanism tests/tetl_config.hpp uses); no guarded code was added to /repo",
        baseline_off_cmd="cmake --build /repo/_build && ctest --test-dir /repo/_build -j8 --timeout 900",
        source_commits=[],
        add_only=True,
    ),
    engines=[dict(name="check", path="/verif/check", serves_properties=[c["property_id"] for c in checks],
                  kind_free_text="python driver: rebuilds the C++ monitor harnesses from /repo/include (gcc 12, ASan+UBSan / plain / valgrind flavours), runs them as fork-isolated shards with breadcrumb + watchdog, compares every library call with a reference model (libstdc++/glibc/closed form), matches violation keys against known_findings.jsonl, writes evidence")],
    checks=checks,
    not_applicable=na,
    notes="Runtime monitoring only (sanitizers + reference-model oracles over enumerated and seeded-random workloads). See DESIGN.md. Exit codes: 0 held, 1 violation, 2 inconclusive/harness failure.",
)
json.dump(m, open(os.path.join(ROOT, "MANIFEST.json"), "w"), indent=1)
print(f"MANIFEST.json: {len(checks)} checks, {len(na)} not_applicable")
