"""./check selftest [id ...]: run the owning property's check against every seeded breaking change in seeded/<id>/ (patch.diff + meta.json)
on a scratch worktree of /repo and require exit 1 with a VIOLATION line.  Nothing is written to /repo or to evidence/."""
import json
import os
import shutil
import subprocess
import sys
import time

ROOT = os.path.dirname(os.path.dirname(os.path.abspath(__file__)))


def run_one(sid, tiers=None):
    d = os.path.join(ROOT, "seeded", sid)
    meta = json.load(open(os.path.join(d, "meta.json")))
    wt = f"/tmp/selftest-{sid}-{os.getpid()}"
    subprocess.run(["git", "-C", "/repo", "worktree", "remove", "--force", wt], capture_output=True)
    subprocess.check_call(["git", "-C", "/repo", "worktree", "add", "-q", "--detach", wt, "HEAD"])
    res = {}
    try:
        if subprocess.run(["git", "-C", wt, "apply", os.path.join(d, "patch.diff")], capture_output=True).returncode != 0:
            # later fix commits may have touched neighbouring lines: try a three-way merge before giving up
            r3 = subprocess.run(["git", "-C", wt, "apply", "--3way", os.path.join(d, "patch.diff")], capture_output=True)
            un = subprocess.run(["git", "-C", wt, "diff", "--name-only", "--diff-filter=U"], capture_output=True, text=True).stdout.strip()
            if r3.returncode != 0 or un:
                return meta, {("-", "patch"): (2, 0, ["STALE: patch.diff no longer applies to /repo HEAD - re-base it (see meta.json patch_refreshed of other entries)"], 0)}
        env = dict(os.environ)
        env["VERIF_REPO"] = wt
        env["VERIF_BUILD"] = f"/tmp/selftest-build-{os.getpid()}"
        env["VERIF_EVIDENCE_DIR"] = f"/tmp/selftest-build-{os.getpid()}/evidence"
        for prop in meta.get("checks", [meta["property"]]):
            for tier in (tiers or meta.get("tiers", ["quick"])):
                t0 = time.time()
                r = subprocess.run([os.path.join(ROOT, "check"), prop, "--tier", tier], env=env, capture_output=True, text=True)
                viol = [l for l in r.stdout.split("\n") if l.startswith("VIOLATION")]
                res[(prop, tier)] = (r.returncode, len(viol), viol[:3], round(time.time() - t0))
                if r.returncode == 1 and viol:
                    break  # detected at this tier
    finally:
        subprocess.run(["git", "-C", "/repo", "worktree", "remove", "--force", wt], capture_output=True)
        shutil.rmtree(f"/tmp/selftest-build-{os.getpid()}", ignore_errors=True)
    return meta, res


def main(args):
    ids = [a for a in args if not a.startswith("--")] or sorted(os.listdir(os.path.join(ROOT, "seeded")))
    tiers = ["quick", "thorough"] if "--thorough" in args else None
    missed = 0
    for sid in ids:
        if not os.path.exists(os.path.join(ROOT, "seeded", sid, "meta.json")):
            continue
        meta, res = run_one(sid, tiers)
        caught = any(rc == 1 and n > 0 for (rc, n, _, _) in res.values())
        print(f"{'CAUGHT' if caught else 'MISSED'} {sid} [{meta['property']}] {meta.get('title', '')}")
        for (prop, tier), (rc, n, v, secs) in res.items():
            print(f"    {prop} {tier}: exit {rc}, {n} violation line(s), {secs}s")
            for l in v[:2]:
                print("      " + l[:260])
        if not caught:
            missed += 1
    return 1 if missed else 0
