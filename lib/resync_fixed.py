"""python3 lib/resync_fixed.py: after a history rewrite in /repo, re-point 'fixed' entries of known_findings.jsonl to the current commit with the same subject."""
import json, os, subprocess
ROOT = os.path.dirname(os.path.dirname(os.path.abspath(__file__)))
p = os.path.join(ROOT, "known_findings.jsonl")
log = subprocess.check_output(["git", "-C", "/repo", "log", "--format=%h\t%s"]).decode().strip().split("\n")
cur = {l.split("\t")[0]: l.split("\t", 1)[1] for l in log}
by_subj = {v: k for k, v in cur.items()}
out = []
changed = 0
missing = 0
for line in open(p):
    s = line.strip()
    if s.startswith("{"):
        e = json.loads(s)
        if e.get("status") == "fixed":
            c = e.get("commit", "")
            if not any(h.startswith(c) or c.startswith(h) for h in cur):
                r = subprocess.run(["git", "-C", "/repo", "show", "-s", "--format=%s", c], capture_output=True, text=True)
                subj = r.stdout.strip()
                if subj in by_subj:
                    e["commit"] = by_subj[subj]
                    changed += 1
                else:
                    missing += 1
                    print("NO CURRENT COMMIT FOR", c, subj[:80])
                line = json.dumps(e) + "\n"
    out.append(line)
open(p, "w").write("".join(out))
print(f"resynced {changed}, unresolved {missing}")
