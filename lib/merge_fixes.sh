#!/bin/bash
# usage: lib/merge_fixes.sh Cxx   - applies proposed/Cxx/fixes/*.patch to /repo (git am), runs the repo suite
set -e
P=$1
cd /repo
for f in $(ls /verif/proposed/$P/fixes/*.patch 2>/dev/null | sort); do
  if git am -q "$f" 2>/dev/null; then echo "applied $(basename $f)"; else git am --abort; echo "CONFLICT $(basename $f)"; fi
done
cmake --build _build 2>&1 | tail -1
ctest --test-dir _build -j8 --timeout 900 2>&1 | grep "tests passed\|tests failed"
git log --oneline | head -12
