#!/bin/bash
# usage: selftest_stream.sh <out> <ids...>
out=$1; shift
cd /verif
for id in "$@"; do nice -n 5 ./check selftest $id 2>&1 | head -4 >> $out; done
